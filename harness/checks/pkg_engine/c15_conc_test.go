package engine_test

import (
	"fmt"
	"runtime"
	"sync"
	"sync/atomic"
	"testing"
	"time"

	"github.com/sanonone/kektordb/internal/zzverif/vexec"
	"github.com/sanonone/kektordb/internal/zzverif/vkit"
	"github.com/sanonone/kektordb/pkg/core/distance"
	"github.com/sanonone/kektordb/pkg/core/hnsw"
	"github.com/sanonone/kektordb/pkg/engine"
	"github.com/sanonone/kektordb/pkg/verifhook"
)

func c15cNum(v any) (float64, bool) {
	switch x := v.(type) {
	case float64:
		return x, true
	case float32:
		return float64(x), true
	case int:
		return float64(x), true
	case int64:
		return float64(x), true
	}
	return 0, false
}

// C15 (concurrent part) — "reinforcing a memory increases its access count by exactly one and
// moves its reference time to now": with several clients reinforcing the same memories at the
// same time (while others merge metadata into them and search), every acknowledged
// reinforcement must be counted exactly once, live and after a restart.
func TestVerifC15Conc(t *testing.T) {
	vkit.Run(t, "C15", func(ctx *vkit.Ctx) {
		ctx.Group("conc", ctx.N(96, 1600), func(cs *vkit.Case) {
			defer verifhook.Reset()
			r := cs.R
			procs := vkit.Pick(r, []int{2, 4, 16})
			prev := runtime.GOMAXPROCS(procs)
			defer runtime.GOMAXPROCS(prev)
			dir := cs.SubDir("data")
			e, err := engine.Open(vexec.Options(dir))
			if err != nil {
				cs.Fail("open: %v", err)
			}
			closed := false
			defer func() {
				if !closed {
					e.Close()
				}
			}()
			model := vkit.Pick(r, []hnsw.DecayModel{hnsw.DecayExponential, hnsw.DecayLinear, hnsw.DecayEbbinghaus})
			mem := hnsw.MemoryConfig{Enabled: true, DecayModel: model, DecayHalfLife: hnsw.Duration(time.Hour)}
			if err := e.VCreate("mem", distance.Cosine, 8, 16, distance.Float32, "", nil, nil, &mem); err != nil {
				cs.Fail("VCreate: %v", err)
			}
			ids := []string{"m0", "m1", "m2", "m3"}
			initial := map[string]float64{}
			for i, id := range ids {
				meta := map[string]any{"tag": id}
				switch i {
				case 1:
					meta["_access_count"] = float64(r.Intn(30))
					initial[id] = meta["_access_count"].(float64)
				case 2:
					n := r.Intn(30)
					meta["_access_count"] = n // a Go int, as an embedding application may supply it
					initial[id] = float64(n)
				case 3:
					meta["_pinned"] = true
				}
				if err := e.VAdd("mem", id, []float32{float32(i) + 1, 1, 0.5}, meta); err != nil {
					cs.Fail("VAdd(%s): %v", id, err)
				}
			}
			nW := r.Range(2, 6)
			per := r.Range(20, ctx.N(80, 200))
			restartHow := cs.Idx % 3
			cs.Op("decay=%s clients=%d calls/client=%d GOMAXPROCS=%d restart=%d", model, nW, per, procs, restartHow)
			hits := concYields(r)
			t0 := time.Now().Unix()
			var counted [4]atomic.Int64
			var mergeMu sync.Mutex
			merged := map[string][]string{} // id -> keys written by acknowledged merges
			var firstFail atomic.Value
			var wg sync.WaitGroup
			start := make(chan struct{})
			for w := 0; w < nW; w++ {
				wr := vkit.NewRand(uint64(r.Intn(1<<30)), uint64(w))
				wg.Add(1)
				go func(w int, wr *vkit.Rand) {
					defer wg.Done()
					<-start
					for i := 0; i < per; i++ {
						ctx.Touch()
						switch p := wr.Intn(100); {
						case p < 60:
							n := wr.Range(1, 3)
							var list []string
							var idxs []int
							for k := 0; k < n; k++ {
								j := wr.Intn(len(ids))
								list = append(list, ids[j])
								idxs = append(idxs, j)
							}
							if wr.Chance(0.2) {
								list = append(list, "no_such_memory")
							}
							if err := e.VReinforce("mem", list); err != nil {
								firstFail.CompareAndSwap(nil, fmt.Sprintf("VReinforce(%v) failed: %v", list, err))
								return
							}
							for _, j := range idxs {
								counted[j].Add(1)
							}
						case p < 80:
							id := vkit.Pick(wr, ids)
							k := fmt.Sprintf("c%d_%d", w, i)
							if err := e.VSetMetadata("mem", id, map[string]any{k: float64(i)}); err != nil {
								firstFail.CompareAndSwap(nil, fmt.Sprintf("VSetMetadata(%s,%s) failed: %v", id, k, err))
								return
							}
							mergeMu.Lock()
							merged[id] = append(merged[id], k)
							mergeMu.Unlock()
						default:
							res, err := e.VSearchWithScores("mem", []float32{wr.F32() + 2, 1, 0.5}, 4)
							if err == nil {
								for _, x := range res {
									if x.Score < 0 || x.Score != x.Score {
										firstFail.CompareAndSwap(nil, fmt.Sprintf("VSearchWithScores during reinforcements: score %v of %s", x.Score, x.ID))
									}
								}
							}
						}
					}
				}(w, wr)
			}
			close(start)
			wg.Wait()
			verifhook.SetGlobal(nil)
			t1 := time.Now().Unix()
			if v := firstFail.Load(); v != nil {
				cs.Fail("%s", v.(string))
			}
			ctx.Count("conc.hook_hits", int64(hits.Load()))
			check := func(where string) {
				for j, id := range ids {
					d, err := e.VGet("mem", id)
					if err != nil {
						cs.Fail("%s: VGet(mem,%s): %v", where, id, err)
					}
					want := initial[id] + float64(counted[j].Load())
					got, ok := c15cNum(d.Metadata["_access_count"])
					if counted[j].Load() == 0 {
						if ok && got != initial[id] {
							cs.Fail("%s: %s was never reinforced but its _access_count went from %v to %v", where, id, initial[id], got)
						}
						continue
					}
					if !ok || got != want {
						cs.Fail("%s: _access_count of %s is %v, want %v (%v at insertion + %d acknowledged reinforcements by %d concurrent clients)", where, id, d.Metadata["_access_count"], want, initial[id], counted[j].Load(), nW)
					}
					la, ok := c15cNum(d.Metadata["_last_accessed"])
					if !ok || int64(la) < t0 || int64(la) > t1 {
						cs.Fail("%s: _last_accessed of %s is %v, the reinforcements ran in [%d,%d]", where, id, d.Metadata["_last_accessed"], t0, t1)
					}
					for _, k := range merged[id] {
						if _, ok := d.Metadata[k]; !ok {
							cs.Fail("%s: %s lost metadata key %s of an acknowledged VSetMetadata that ran beside the reinforcements", where, id, k)
						}
					}
					if d.Metadata["tag"] != id {
						cs.Fail("%s: %s lost its own metadata: tag=%v", where, id, d.Metadata["tag"])
					}
				}
			}
			check("after the concurrent reinforcements")
			total := int64(0)
			for j := range ids {
				total += counted[j].Load()
			}
			ctx.Count("conc.reinforcements_counted", total)
			switch restartHow {
			case 1:
				e.SaveSnapshot()
			case 2:
				e.RewriteAOF()
			}
			if err := e.Close(); err != nil {
				cs.Fail("Close: %v", err)
			}
			closed = true
			e2, err := engine.Open(vexec.Options(dir))
			if err != nil {
				cs.Fail("reopen: %v", err)
			}
			e, closed = e2, false
			check("after the concurrent reinforcements and a restart")
			ctx.Eval(1)
			ctx.Distinct(fmt.Sprintf("conc/%s/c%d/p%d/r%d/%d", model, nW, procs, restartHow, total/16))
			ctx.Sample("conc", 2, map[string]any{"decay": string(model), "clients": nW, "calls_per_client": per, "reinforcements": total})
		})
	})
}

package engine

import (
	"fmt"
	"math"
	"testing"
	"time"

	"github.com/sanonone/kektordb/internal/zzverif/vkit"
)

// C15 (a) — white-box: the unexported decay functions of pkg/engine/search_utils.go obey the
// laws stated by the property, over generated ages / half-lives / access counts / model names.
//
// The helper functions (calculateExponentialDecay, …) are only ever called by
// calculateTimeDecayModel with age > 0 and halfLife > 0, so that is the domain on which they
// are exercised directly; the guards (age <= 0, halfLife <= 0) are laws of
// calculateTimeDecayModel / calculateTimeDecay and are checked there, with the clock bracketed.

const (
	c15RelTol = 1e-12 // agreement with an independently computed reference value
	c15UlpTol = 2e-15 // floating-point rounding noise accepted by the monotonicity laws (Pow/Exp/Log1p are faithful to ~1 ulp each, not monotone to the last bit; the bound must not depend on the toolchain's kernels)
)

var c15Models = []string{"exponential", "linear", "step", "ebbinghaus"}
var c15UnknownModels = []string{"", "bogus", "Linear", "EXPONENTIAL", "step ", "ebbinghaus\x00", "exp", "none", "线性"}

// c15Ref is the reference decay law for age > 0, halfLife > 0 (written from the documented
// formulas in pkg/core/hnsw/config.go, not from search_utils.go; Exp2/Log instead of Pow/Log1p).
func c15Ref(model string, age, h float64, count int) float64 {
	switch model {
	case "linear":
		v := 1 - age/h
		if v < 0 {
			return 0
		}
		return v
	case "step":
		if age < h {
			return 1
		}
		return 0
	case "ebbinghaus":
		s := h * (1 + math.Log(1+float64(count)))
		return math.Exp(-age / s)
	default: // "exponential" and every unknown name
		return math.Exp2(-age / h)
	}
}

// c15RefGuarded is the full law of calculateTimeDecayModel for a known age.
func c15RefGuarded(model string, age, h float64, count int) float64 {
	if h <= 0 || age <= 0 {
		return 1
	}
	return c15Ref(model, age, h, count)
}

func c15Close(a, b float64) bool {
	d := math.Abs(a - b)
	return d <= c15RelTol || d <= c15RelTol*math.Max(math.Abs(a), math.Abs(b))
}

func c15In01(f float64) bool { return f >= 0 && f <= 1 } // false for NaN

// c15Helper calls the unexported per-model function directly.
func c15Helper(model string, age, h float64, count int) float64 {
	switch model {
	case "linear":
		return calculateLinearDecay(age, h)
	case "step":
		return calculateStepDecay(age, h)
	case "ebbinghaus":
		return calculateEbbinghausDecay(age, h, count)
	default:
		return calculateExponentialDecay(age, h)
	}
}

func c15HalfLife(r *vkit.Rand) (float64, string) {
	switch r.Intn(6) {
	case 0: // the smallest values a Duration can express: 1ns … 1ms
		return math.Pow(10, -9+6*r.Float64()), "tiny"
	case 1:
		return float64(r.Range(1, 3600)), "secs"
	case 2:
		return 3600 * (1 + 5000*r.Float64()), "hours"
	case 3: // the largest Duration is ~9.2e9 s
		return math.Pow(10, 7+3*r.Float64()), "dur-max"
	case 4: // beyond what a Duration can hold (the functions take float64)
		return math.Pow(10, 10+290*r.Float64()), "huge"
	default:
		return vkit.Pick(r, []float64{math.SmallestNonzeroFloat64, 1e-300, 1, 604800, 9.2e9, 1e300, math.MaxFloat64}), "edge"
	}
}

func c15Age(r *vkit.Rand, h float64) (float64, string) {
	switch r.Intn(8) {
	case 0:
		return math.Pow(10, -12+12*r.Float64()), "tiny"
	case 1:
		return h * (0.001 + 0.998*r.Float64()), "below-h"
	case 2: // around the half-life, down to one ulp
		eps := math.Pow(10, -16+15*r.Float64())
		if r.Chance(0.5) {
			return h * (1 - eps), "near-h-"
		}
		return h * (1 + eps), "near-h+"
	case 3:
		return vkit.Pick(r, []float64{math.Nextafter(h, 0), h, math.Nextafter(h, math.Inf(1)), h / 2, 2 * h}), "at-h"
	case 4:
		return h * (1 + 50*r.Float64()), "above-h"
	case 5:
		return h * math.Pow(10, 2+6*r.Float64()), "far"
	case 6:
		return math.Pow(10, 9+299*r.Float64()), "huge"
	default:
		return vkit.Pick(r, []float64{math.SmallestNonzeroFloat64, 1, 1.7e9, 1e300, math.MaxFloat64, math.Nextafter(math.MaxFloat64, 0)}), "edge"
	}
}

func c15Count(r *vkit.Rand, allowNegative bool) (int, string) {
	switch r.Intn(6) {
	case 0:
		return 0, "0"
	case 1:
		return r.Range(1, 20), "small"
	case 2:
		return r.Range(21, 1000000), "large"
	case 3:
		return vkit.Pick(r, []int{1, 2, 1000000, math.MaxInt32, math.MaxInt64}), "edge"
	case 4:
		if allowNegative {
			return -r.Range(1, 1000), "negative"
		}
		return -1, "-1" // stability falls back to the half-life (search_utils.go:140)
	default:
		return r.Range(0, 5), "tiny"
	}
}

func c15ClassAge(age float64) string {
	switch {
	case age < 0:
		return "neg"
	case age == 0:
		return "zero"
	default:
		return "pos"
	}
}

func TestVerifC15Decay(t *testing.T) {
	vkit.Run(t, "C15", func(ctx *vkit.Ctx) {
		ctx.Assume("monotonicity laws accept floating-point rounding noise of 2e-15 relative (Pow/Exp/Log1p are not guaranteed monotone to the last bit); agreement with reference formulas is 1e-12")
		ctx.Assume("ages, half-lives and timestamps are finite float64 (JSON cannot carry NaN/Inf and a Duration is a finite int64)")

		// D-C15-2 (probe in c15_engine_test.go): Ebbinghaus with an access count <= -2 yields NaN.
		// While that finding is listed as known, the generator draws no count below -1.
		negCounts := !ctx.IsKnown("D-C15-2")

		// ---- pure laws of the per-model helpers on their call domain (age > 0, h > 0) ----
		const inner = 500
		ctx.Group("fn", ctx.N(400, 40000), func(cs *vkit.Case) {
			r := cs.R
			for it := 0; it < inner; it++ {
				h, hc := c15HalfLife(r)
				a1, ac := c15Age(r, h)
				if !(a1 > 0) || math.IsInf(a1, 0) { // h*(1-eps) can round to 0 for subnormal h; h*k can overflow
					a1 = h
				}
				// second age >= a1: adjacent (1 ulp … 1e-9 relative) or far
				var a2 float64
				switch r.Intn(4) {
				case 0:
					a2 = math.Nextafter(a1, math.Inf(1))
				case 1:
					a2 = a1 * (1 + math.Pow(10, -15+6*r.Float64()))
				case 2:
					a2 = a1 * (1 + 10*r.Float64())
				default:
					a2, _ = c15Age(r, h)
				}
				if math.IsInf(a2, 0) || math.IsNaN(a2) {
					a2 = math.MaxFloat64
				}
				if a2 < a1 {
					a1, a2 = a2, a1
				}
				if !(a1 > 0) {
					a1 = math.SmallestNonzeroFloat64
				}
				c1, cc := c15Count(r, negCounts)
				c2, _ := c15Count(r, negCounts)
				if c2 < c1 {
					c1, c2 = c2, c1
				}
				model := c15Models[(cs.Idx+it)%len(c15Models)]

				f1 := c15Helper(model, a1, h, c1)
				f2 := c15Helper(model, a2, h, c1)
				desc := func() string {
					return fmt.Sprintf("model=%s h=%v (%s) age1=%v (%s) age2=%v count1=%d count2=%d", model, h, hc, a1, ac, a2, c1, c2)
				}
				// range
				if !c15In01(f1) || !c15In01(f2) {
					cs.Op("helper %s", desc())
					cs.Fail("decay factor outside [0,1]: f(age1)=%v f(age2)=%v; %s", f1, f2, desc())
				}
				// monotone non-increasing in age
				if f2 > f1 && f2-f1 > c15UlpTol*f2+1e-300 {
					cs.Op("helper %s", desc())
					cs.Fail("decay factor increases with age: f(%v)=%v < f(%v)=%v; %s", a1, f1, a2, f2, desc())
				}
				// agreement with the model's formula
				if ref := c15Ref(model, a1, h, c1); c1 >= 0 && !c15Close(f1, ref) {
					cs.Op("helper %s", desc())
					cs.Fail("decay factor %v differs from the %s law %v; %s", f1, model, ref, desc())
				}
				switch model {
				case "exponential":
					if v := calculateExponentialDecay(h, h); math.Abs(v-0.5) > c15RelTol {
						cs.Fail("exponential(h,h)=%v, want 0.5; h=%v", v, h)
					}
					// halves with every further half-life (where a1+h is still a faithful sum)
					if a1/h < 1000 && a1/h > 1e-3 && f1 > 1e-290 && !math.IsInf(a1+h, 0) {
						v := calculateExponentialDecay(a1+h, h)
						if math.Abs(v-f1/2) > 1e-9*f1 {
							cs.Fail("exponential does not halve after one more half-life: f(%v)=%v f(%v+h)=%v; %s", a1, f1, a1, v, desc())
						}
					}
				case "linear":
					if v := calculateLinearDecay(h, h); v != 0 {
						cs.Fail("linear(h,h)=%v, want 0; h=%v", v, h)
					}
					if h/2 > 0 && (h/2)*2 == h {
						if v := calculateLinearDecay(h/2, h); math.Abs(v-0.5) > c15RelTol {
							cs.Fail("linear(h/2,h)=%v, want 0.5; h=%v", v, h)
						}
					}
					if a1 >= h && f1 != 0 {
						cs.Fail("linear not clamped at 0 for age >= h: %v; %s", f1, desc())
					}
				case "step":
					want := 0.0
					if a1 < h {
						want = 1
					}
					if f1 != want {
						cs.Fail("step(%v,%v)=%v, want %v", a1, h, f1, want)
					}
					if v := calculateStepDecay(h, h); v != 0 {
						cs.Fail("step(h,h)=%v, want 0 (drops to 0 AT the half-life); h=%v", v, h)
					}
					if b := math.Nextafter(h, 0); b > 0 {
						if v := calculateStepDecay(b, h); v != 1 {
							cs.Fail("step(just below h)=%v, want 1; h=%v", v, h)
						}
					}
				case "ebbinghaus":
					// the more often accessed, the slower the decay
					g1 := calculateEbbinghausDecay(a1, h, c1)
					g2 := calculateEbbinghausDecay(a1, h, c2)
					if !c15In01(g2) {
						cs.Fail("ebbinghaus factor outside [0,1]: %v; %s", g2, desc())
					}
					if c1 >= 0 && g1 > g2 && g1-g2 > c15UlpTol*g1+1e-300 {
						cs.Fail("ebbinghaus decays faster with more accesses: count %d -> %v, count %d -> %v; %s", c1, g1, c2, g2, desc())
					}
					if v, w := calculateEbbinghausDecay(a1, h, 0), math.Exp(-a1/h); !c15Close(v, w) {
						cs.Fail("ebbinghaus with count 0 = %v, want e^(-age/h) = %v; %s", v, w, desc())
					}
				}
				ctx.Distinct("fn|" + model + "|" + hc + "|" + ac + "|" + cc)
			}
			ctx.Eval(inner)
			ctx.Count("fn.inputs", inner)
			if cs.Idx < 3 && ctx.Shard == 0 {
				h, _ := c15HalfLife(r)
				a, _ := c15Age(r, h)
				ctx.Sample("fn", 3, map[string]any{"half_life": h, "age": a, "exponential": calculateExponentialDecay(a, h), "linear": calculateLinearDecay(a, h), "step": calculateStepDecay(a, h), "ebbinghaus@3": calculateEbbinghausDecay(a, h, 3)})
			}
		})

		// ---- calculateTimeDecayModel / calculateTimeDecay: guards, model dispatch, clock bracket ----
		ctx.Group("model", ctx.N(400, 40000), func(cs *vkit.Case) {
			r := cs.R
			for it := 0; it < inner; it++ {
				// half-life: <= 0 in a fifth of the cases
				var h float64
				var hc string
				if r.Chance(0.2) {
					h = vkit.Pick(r, []float64{0, math.Copysign(0, -1), -1e-9, -1, -3600, -1e300, -math.MaxFloat64, -math.SmallestNonzeroFloat64})
					hc = "h<=0"
				} else {
					h, hc = c15HalfLife(r)
				}
				// model name: known, unknown
				model := c15Models[(cs.Idx+it)%len(c15Models)]
				mc := model
				if r.Chance(0.25) {
					model = vkit.Pick(r, c15UnknownModels)
					mc = "unknown"
				}
				count, _ := c15Count(r, negCounts)
				// age relative to the clock sample: negative, zero, positive (integer and fractional)
				var age float64
				switch r.Intn(7) {
				case 0:
					age = -math.Pow(10, 10*r.Float64()) // future: 1 s … 300 years
				case 1:
					age = -float64(r.Range(0, 3))
					if r.Chance(0.4) {
						// a fractional stamp less than a second ahead of the clock: age in (-1, 0]
						// when the call starts ("timestamps not in the past"), and the bracket decides
						// if the clock ticks inside the call
						age = -vkit.Pick(r, []float64{0.5, 0.25, 0.999, r.Float64()})
					}
				case 2:
					age = float64(r.Range(0, 3))
				case 3:
					if h > 0 && h < 1e9 {
						age = math.Floor(h*(0.01+3*r.Float64())) + vkit.Pick(r, []float64{0, 0.25, 0.5})
					} else {
						age = float64(r.Range(1, 1000000))
					}
				case 4:
					if h > 0 && h < 1e9 {
						age = math.Floor(h) + float64(r.Range(-2, 2)) // right on the threshold: the bracket decides
					} else {
						age = 604800
					}
				case 5:
					age = math.Pow(10, 9.3*r.Float64()) // up to ~63 years: created stays > 0 only below 1.7e9
				default:
					age = vkit.Pick(r, []float64{-1e300, -math.MaxFloat64, 1e12, 1e300, math.MaxFloat64})
				}
				t0 := time.Now().Unix()
				created := float64(t0) - age
				got := calculateTimeDecayModel(created, h, model, count)
				t1 := time.Now().Unix()
				// the product's `now` is an integer second in [t0, t1]
				ageLo, ageHi := float64(t0)-created, float64(t1)-created
				hi := c15RefGuarded(model, ageLo, h, count)
				lo := c15RefGuarded(model, ageHi, h, count)
				desc := func() string {
					return fmt.Sprintf("calculateTimeDecayModel(created = t0 - (%v), h=%v (%s), model=%q, count=%d) with the clock in [t0=%d, %d]", age, h, hc, model, count, t0, t1)
				}
				if !c15In01(got) {
					cs.Op("%s", desc())
					cs.Fail("decay factor outside [0,1]: %v; %s", got, desc())
				}
				if count >= 0 || (model != "ebbinghaus") {
					if got < lo-c15RelTol-c15RelTol*lo || got > hi+c15RelTol+c15RelTol*hi {
						cs.Op("%s", desc())
						cs.Fail("decay factor %v outside the bracket [%v, %v] of its model; %s", got, lo, hi, desc())
					}
				}
				if h <= 0 && got != 1 {
					cs.Fail("half-life <= 0 must disable decay: got %v; %s", got, desc())
				}
				if ageHi <= 0 && got != 1 {
					cs.Fail("timestamp not in the past must not decay: got %v; %s", got, desc())
				}
				// unknown model == exponential (same inputs, clock bracketed by re-sampling)
				if mc == "unknown" && t0 == t1 {
					e := calculateTimeDecayModel(created, h, "exponential", count)
					if time.Now().Unix() == t0 && e != got {
						cs.Fail("unknown model %q gives %v, exponential gives %v; %s", model, got, e, desc())
					}
					ctx.Count("model.unknown_vs_exponential", 1)
				}
				// the legacy two-argument form is the exponential law with the same guards
				if it%4 == 0 {
					s0 := time.Now().Unix()
					leg := calculateTimeDecay(created, h)
					s1 := time.Now().Unix()
					lhi := c15RefGuarded("exponential", float64(s0)-created, h, 0)
					llo := c15RefGuarded("exponential", float64(s1)-created, h, 0)
					if !c15In01(leg) || leg < llo-c15RelTol-c15RelTol*llo || leg > lhi+c15RelTol+c15RelTol*lhi {
						cs.Fail("calculateTimeDecay(created = now - (%v), h=%v)=%v outside [%v,%v]", age, h, leg, llo, lhi)
					}
					ctx.Count("model.legacy", 1)
				}
				if t1 != t0 {
					ctx.Count("model.clock_ticked_inside_bracket", 1)
				}
				ctx.Distinct("model|" + mc + "|" + hc + "|" + c15ClassAge(ageLo))
			}
			ctx.Eval(inner)
			ctx.Count("model.inputs", inner)
		})
	})
}

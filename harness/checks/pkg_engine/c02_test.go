package engine_test

import (
	"bufio"
	"fmt"
	"hash/fnv"
	"io"
	"os"
	"path/filepath"
	"sort"
	"strings"
	"sync"
	"sync/atomic"
	"testing"
	"time"

	"github.com/sanonone/kektordb/internal/zzverif/vexec"
	"github.com/sanonone/kektordb/internal/zzverif/vkit"
	"github.com/sanonone/kektordb/pkg/core/distance"
	"github.com/sanonone/kektordb/pkg/engine"
	"github.com/sanonone/kektordb/pkg/persistence"
	"github.com/sanonone/kektordb/pkg/storage/mmap"
	"github.com/sanonone/kektordb/pkg/verifhook"
)

type c02Image struct {
	dir     string
	point   string
	nStates int   // number of model states recorded when the image was taken (S_0..S_n)
	durable int   // index of the durable floor state
	tornLo  int64 // >= 0: the image was taken right after a writer flush that appended (tornLo, size]
}

// frameEnds returns the end offsets of the valid frames of a log file.
func c02FrameEnds(path string) []int64 {
	f, err := os.Open(path)
	if err != nil {
		return nil
	}
	defer f.Close()
	r := bufio.NewReader(f)
	var ends []int64
	var off int64
	for {
		_, n, err := persistence.ReadFrame(r)
		if err != nil {
			break
		}
		off += int64(n)
		ends = append(ends, off)
	}
	return ends
}

func c02FileSize(p string) int64 {
	st, err := os.Stat(p)
	if err != nil {
		return 0
	}
	return st.Size()
}

// c02Evaluate opens a crash image and applies the C02 oracle.
func c02Evaluate(ctx *vkit.Ctx, cs *vkit.Case, dir, what string, cands []*vexec.Model, depth int) {
	cs.Op("  recover %s (%d candidate states)", what, len(cands))
	// second crash during recovery: image the directory right after a tail repair
	var img2 string
	if depth == 0 {
		img2 = dir + ".rec"
		verifhook.Set("replay.repaired", func(string, any) {
			if err := vexec.ImageDir(dir, img2); err != nil {
				panic(err)
			}
		})
	}
	e, err := engine.Open(vexec.Options(dir))
	verifhook.Set("replay.repaired", nil)
	if err != nil {
		cs.Fail("%s: Open of the crash image failed: %v", what, err)
	}
	closed := false
	defer func() {
		if !closed {
			e.Close()
		}
	}()
	rec := vexec.ReadRecovered(e)
	msg, whole := rec.Explain(cands)
	if msg != "" {
		cs.Fail("%s: %s", what, msg)
	}
	if whole >= 0 {
		ctx.Count("recovered_as_prefix", 1)
	} else {
		ctx.Count("recovered_as_mixture", 1)
	}
	ctx.Count("images_recovered", 1)
	// fixed point: open again, then write more and restart
	u := cands[len(cands)-1].Universe()
	u.Keys = append(u.Keys, "fp_key")
	u.IDs = append(u.IDs, "fp_id")
	obs1 := vexec.Observe(e, u)
	e.Close()
	e, err = engine.Open(vexec.Options(dir))
	if err != nil {
		closed = true
		cs.Fail("%s: second Open of the repaired directory failed: %v", what, err)
	}
	obs2 := vexec.Observe(e, u)
	if d := vexec.Diff(obs1, obs2); len(d) > 0 {
		cs.Attach("diff", d)
		cs.Fail("%s: repaired directory is not a fixed point, reopening changed: %s", what, d[0])
	}
	if err := e.KVSet("fp_key", []byte("fp")); err != nil {
		cs.Fail("%s: write after recovery failed: %v", what, err)
	}
	for _, name := range e.ListIndexes() {
		ids, _, _ := e.VGetIDsByCursor(name, 0, 1)
		if len(ids) == 0 {
			continue
		}
		d, err := e.VGet(name, ids[0])
		if err != nil {
			continue
		}
		v := make([]float32, len(d.Vector))
		for i := range v {
			v[i] = 0.5
		}
		if err := e.VAdd(name, "fp_id", v, map[string]any{"fp": true}); err != nil {
			cs.Fail("%s: VAdd after recovery failed: %v", what, err)
		}
		e.VLink(name, "fp_id", ids[0], "fp_rel", "", 1, nil)
	}
	u.Rels = append(u.Rels, "fp_rel")
	obs3 := vexec.Observe(e, u)
	e.Close()
	e, err = engine.Open(vexec.Options(dir))
	if err != nil {
		closed = true
		cs.Fail("%s: Open after post-recovery writes failed: %v", what, err)
	}
	obs4 := vexec.Observe(e, u)
	if d := vexec.Diff(obs3, obs4); len(d) > 0 {
		cs.Attach("diff", d)
		cs.Fail("%s: writes after recovery did not survive a restart unchanged: %s", what, d[0])
	}
	// the recovered directory must also carry deletions and a compaction: delete one key and
	// one vector, compact, restart (leftovers of the interrupted operation - temporary files,
	// markers - must not resurface in the new log)
	if ks := e.DB.GetKVStore().Keys(); len(ks) > 0 {
		sort.Strings(ks)
		if err := e.KVDelete(ks[0]); err != nil {
			cs.Fail("%s: KVDelete after recovery failed: %v", what, err)
		}
	}
	for _, name := range e.ListIndexes() {
		if ids, _, _ := e.VGetIDsByCursor(name, 0, 1); len(ids) > 0 {
			done := verifhook.Hits()["cascade.done"]
			if err := e.VDelete(name, ids[0]); err != nil {
				cs.Fail("%s: VDelete after recovery failed: %v", what, err)
			}
			// every acknowledged VDelete runs one cascade; wait for it (bounded, no verdict
			// depends on the wait) and keep the live executor's accounting straight
			for i := 0; i < 20000 && verifhook.Hits()["cascade.done"] == done; i++ {
				time.Sleep(100 * time.Microsecond)
			}
			if c02Live != nil {
				c02Live.ForeignCascades(1)
			}
			break
		}
	}
	// ... first across a plain restart (the deletions live in the log behind whatever recovery
	// repaired or re-journaled), then across a compaction + restart
	obsD := vexec.Observe(e, u)
	e.Close()
	e, err = engine.Open(vexec.Options(dir))
	if err != nil {
		closed = true
		cs.Fail("%s: Open after post-recovery deletions failed: %v", what, err)
	}
	if d := vexec.Diff(obsD, vexec.Observe(e, u)); len(d) > 0 {
		cs.Attach("diff", d)
		cs.Attach("log_records", c13DumpLog(dir))
		cs.Fail("%s: deletions after recovery did not survive a plain restart unchanged: %s", what, d[0])
	}
	preRewrite := c13DumpLog(dir)
	if err := e.RewriteAOF(); err != nil {
		cs.Fail("%s: RewriteAOF after recovery failed: %v", what, err)
	}
	obs5 := vexec.Observe(e, u)
	e.Close()
	e, err = engine.Open(vexec.Options(dir))
	if err != nil {
		closed = true
		cs.Fail("%s: Open after post-recovery deletions + compaction failed: %v", what, err)
	}
	obs6 := vexec.Observe(e, u)
	if d := vexec.Diff(obs5, obs6); len(d) > 0 {
		cs.Attach("diff", d)
		cs.Attach("log_records", c13DumpLog(dir))
		cs.Attach("log_records_before_compaction", preRewrite)
		cs.Fail("%s: deletions + compaction after recovery did not survive a restart unchanged: %s", what, d[0])
	}
	e.Close()
	closed = true
	ctx.Count("fixed_points_checked", 1)
	if img2 != "" {
		if _, err := os.Stat(img2); err == nil {
			c02Evaluate(ctx, cs, img2, what+" + second crash during recovery (after tail repair)", cands, depth+1)
			ctx.Count("second_crash_images", 1)
			os.RemoveAll(img2)
		}
	}
}

// C02 — a crash at any point recovers a state explained by the acknowledged history.
func TestVerifC02(t *testing.T) {
	vkit.Run(t, "C02", func(ctx *vkit.Ctx) {
		ctx.Probe("D36", func(cs *vkit.Case) string {
			// fixed scenario: process death inside VCompress, after the index was rebuilt on
			// new arena files and before the snapshot that records the new precision exists
			defer verifhook.Reset()
			x := vexec.NewExec(cs, cs.SubDir("data"))
			c02Live = x
			defer func() {
				c02Live = nil
				if x.E != nil {
					x.E.Close()
				}
			}()
			x.VCreate(vexec.IndexCfg{Name: "ia", Metric: "euclidean", Prec: "float32", M: 4, EfC: 8})
			for i := 0; i < 4; i++ {
				x.VAdd("ia", fmt.Sprintf("n%d", i), []float32{float32(i), 1, 2}, map[string]any{"n": float64(i)})
			}
			x.E.AOF.Flush()
			pre := x.M.Clone()
			img := cs.SubDir("img")
			took := false
			verifhook.Set("snap.begin", func(string, any) {
				if !took {
					took = true
					if err := vexec.ImageDir(x.Dir, img); err != nil {
						panic(err)
					}
				}
			})
			x.VCompress("ia", "float16")
			verifhook.Reset()
			if !took {
				return ""
			}
			e, err := engine.Open(vexec.Options(img))
			if err != nil {
				return "Open of the crash image taken inside VCompress fails: " + err.Error()
			}
			defer e.Close()
			msg, _ := vexec.ReadRecovered(e).Explain([]*vexec.Model{pre, x.M.Clone()})
			return msg
		})
		// process death at every hook point inside VCompress (arena rebuilt on new files,
		// snapshot phases), from every kind of persistent pre-state
		ctx.Group("compress", ctx.N(32, 200), func(cs *vkit.Case) {
			defer verifhook.Reset()
			x := vexec.NewExec(cs, cs.SubDir("data"))
			c02Live = x
			defer func() {
				c02Live = nil
				if x.E != nil {
					x.E.Close()
				}
			}()
			r := cs.R
			metric := vkit.Pick(r, []string{"euclidean", "cosine"})
			target := "float16"
			if metric == "cosine" {
				target = "int8"
			}
			if r.Chance(0.25) {
				target = "float32" // rebuild at the same precision
			}
			x.VCreate(vexec.IndexCfg{Name: "ia", Metric: distance.DistanceMetric(metric), Prec: "float32", M: 4, EfC: 8})
			x.VCreate(vexec.IndexCfg{Name: "ib", Metric: "euclidean", Prec: "float32", M: 4, EfC: 8})
			add := func(n int, tag string) {
				for i := 0; i < n; i++ {
					x.VAdd("ia", fmt.Sprintf("%s%d", tag, i), []float32{r.F32(), r.F32(), r.F32()}, map[string]any{"n": float64(i), "tag": tag})
					if i%2 == 0 {
						x.VAdd("ib", fmt.Sprintf("%s%d", tag, i), []float32{r.F32(), r.F32(), r.F32()}, nil)
					}
				}
			}
			add(r.Range(2, 7), "a")
			pre := cs.Idx % 6
			switch pre {
			case 1: // a snapshot holds the index
				x.SaveSnapshot()
			case 2: // snapshot, then more records in the log
				x.SaveSnapshot()
				add(r.Range(1, 4), "b")
				x.VDelete("ia", "a0")
			case 3: // compacted (self-contained) log, no snapshot
				x.RewriteAOF()
			case 4: // stale snapshot under a self-contained log, then more records
				x.SaveSnapshot()
				add(2, "b")
				x.RewriteAOF()
				add(2, "c")
			case 5: // an earlier compression of the other index
				x.SaveSnapshot()
				x.VCompress("ib", "float16")
				add(2, "b")
			}
			x.E.AOF.Flush()
			before := x.M.Clone()
			var mu sync.Mutex
			type shot struct{ dir, point string }
			var shots []shot
			verifhook.SetGlobal(func(name string, _ any) {
				if strings.HasPrefix(name, "replay.") || name == "lazy.truncated" || name == "lazy.replaced" {
					return
				}
				mu.Lock()
				defer mu.Unlock()
				if len(shots) >= 16 {
					return
				}
				dir := filepath.Join(cs.TempDir(), fmt.Sprintf("cimg%d", len(shots)))
				if err := vexec.ImageDir(x.Dir, dir); err != nil {
					panic(err)
				}
				shots = append(shots, shot{dir, name})
			})
			x.VCompress("ia", distance.PrecisionType(target))
			verifhook.Reset()
			if x.Rejected {
				cs.Fail("VCompress(ia,%s) on a %s index was rejected", target, metric)
			}
			after := x.M.Clone()
			// the image of the completed operation must recover the compressed index
			final := filepath.Join(cs.TempDir(), "cimg-final")
			if err := vexec.ImageDir(x.Dir, final); err != nil {
				cs.Fail("image copy: %v", err)
			}
			c02Evaluate(ctx, cs, final, fmt.Sprintf("crash right after VCompress(ia,%s) returned (pre-state %d)", target, pre), []*vexec.Model{after}, 0)
			os.RemoveAll(final)
			seen := map[string]bool{}
			for _, sh := range shots {
				c02Evaluate(ctx, cs, sh.dir, fmt.Sprintf("crash at %s inside VCompress(ia,%s) (pre-state %d)", sh.point, target, pre), []*vexec.Model{before, after}, 0)
				os.RemoveAll(sh.dir)
				ctx.Count("compress.point."+sh.point, 1)
				seen[sh.point] = true
			}
			if len(shots) == 0 {
				ctx.Inconclusive("no hook point was reached inside VCompress")
			}
			// the live engine goes on: more writes, then an ordinary restart
			add(2, "z")
			x.Restart()
			if msg := x.CheckFull(); msg != "" {
				cs.Fail("after VCompress + writes + restart: %s", msg)
			}
			ctx.Eval(1)
			ctx.Distinct(fmt.Sprintf("compress/%s/%s/pre%d/%s", metric, target, pre, strings.Join(vexec.SortedKeys(seen), ",")))
		})
		// A process death between the creation of an index's first arena chunk (a file
		// zero-filled to the chunk size) and the write of its header leaves a chunk with a
		// blank header. That instant has no hook point, so the state is built by hand: the
		// image of a directory whose index has no arena yet, plus the blank chunk file.
		// Recovery must come up, take new vectors, and keep them across restarts.
		ctx.Group("blank_arena", ctx.N(12, 60), func(cs *vkit.Case) {
			combo := vexec.AllCombos[cs.Idx%len(vexec.AllCombos)]
			withSnapshot := (cs.Idx/len(vexec.AllCombos))%2 == 1
			dir := cs.SubDir("data")
			e, err := engine.Open(vexec.Options(dir))
			if err != nil {
				cs.Fail("open: %v", err)
			}
			if err := e.VCreate("ix", distance.DistanceMetric(combo[0]), 4, 8, distance.PrecisionType(combo[1]), "", nil, nil, nil); err != nil {
				cs.Fail("VCreate: %v", err)
			}
			e.KVSet("k", []byte("v"))
			if withSnapshot {
				e.SaveSnapshot()
			}
			e.AOF.Flush()
			img := cs.SubDir("img")
			if err := vexec.ImageDir(dir, img); err != nil {
				cs.Fail("image: %v", err)
			}
			e.Close()
			chunk := filepath.Join(img, "arenas", "ix", "arena_0000.bin")
			if err := os.MkdirAll(filepath.Dir(chunk), 0o755); err != nil {
				cs.Fail("%v", err)
			}
			f, err := os.Create(chunk)
			if err != nil {
				cs.Fail("%v", err)
			}
			f.Truncate(mmap.DefaultChunkSize)
			f.Close()
			cs.Op("image of %s/%s index without vectors (snapshot=%v) + blank first arena chunk", combo[0], combo[1], withSnapshot)
			e2, err := engine.Open(vexec.Options(img))
			if err != nil {
				cs.Fail("Open of the image with a blank arena chunk failed: %v", err)
			}
			defer func() {
				if e2 != nil {
					e2.Close()
				}
			}()
			vecs := map[string][]float32{"a": {1, 0, 0}, "b": {0, 1, 0}, "c": {0.6, 0.8, 0}}
			for _, id := range []string{"a", "b", "c"} {
				if err := e2.VAdd("ix", id, vexec.CopyVec(vecs[id]), map[string]any{"id": id}); err != nil {
					cs.Fail("VAdd(%s) after recovery: %v", id, err)
				}
			}
			check := func(en *engine.Engine, when string) {
				for _, id := range []string{"a", "b", "c"} {
					d, err := en.VGet("ix", id)
					if err != nil {
						cs.Fail("%s: vector %s added after recovery is gone: %v", when, id, err)
					}
					for i := range d.Vector {
						if diff := d.Vector[i] - vecs[id][i]; diff > 0.02 || diff < -0.02 {
							cs.Fail("%s: vector %s reads %v, stored %v", when, id, d.Vector, vecs[id])
						}
					}
				}
			}
			check(e2, "live")
			for round := 0; round < 2; round++ {
				e2.Close()
				e2, err = engine.Open(vexec.Options(img))
				if err != nil {
					cs.Fail("restart %d: %v", round+1, err)
				}
				check(e2, fmt.Sprintf("after restart %d", round+1))
				if round == 0 {
					if err := e2.RewriteAOF(); err != nil {
						cs.Fail("RewriteAOF: %v", err)
					}
				}
			}
			ctx.Count("blank_arena_images", 1)
			ctx.Eval(1)
			ctx.Distinct(fmt.Sprintf("blank_arena/%s/%s/%v", combo[0], combo[1], withSnapshot))
		})
		ctx.Group("crash", ctx.N(240, 1200), func(cs *vkit.Case) {
			defer verifhook.Reset()
			x := vexec.NewExec(cs, cs.SubDir("data"))
			c02Live = x
			defer func() {
				c02Live = nil
				if x.E != nil {
					x.E.Close()
				}
			}()
			aof := filepath.Join(x.Dir, "kektordb.aof")
			g := vexec.NewGen(cs.R)
			g.NoImport = cs.R.Chance(0.5)
			g.NoDupReinforce = true
			g.NoChurn = true
			states := []*vexec.Model{x.M.Clone()}
			durable := 0
			prevSize := int64(0) // log size after the previous completed flush
			var mu sync.Mutex
			var pending []c02Image
			imgNo := 0
			evaluating := false
			rate := uint32(vkit.Pick(cs.R, []int{3, 5, 9}))
			salt := uint32(cs.R.Intn(1 << 30))
			hit := uint32(0)
			pointsSeen := map[string]bool{}
			// VDeleteIndex removes the arena directory in a goroutine of its own while the
			// operation goes on to snapshot and truncate the log. A copy of the directory
			// taken from that goroutine would span those file operations and could combine
			// file states that never existed together. Images at its points are therefore
			// only taken while the operation itself is parked at snap.begin (it waits there,
			// bounded, until the removal goroutine has passed its last point).
			var dropActive, mainParked atomic.Bool
			var removeHandled atomic.Int64
			verifhook.SetGlobal(func(name string, _ any) {
				async := strings.HasPrefix(name, "op.VDeleteIndex.remove") || name == "op.VDeleteIndex.before_remove"
				switch {
				case name == "op.VDeleteIndex.applied":
					dropActive.Store(true)
				case name == "snap.begin" && dropActive.Load():
					base := removeHandled.Load()
					mainParked.Store(true)
					for i := 0; i < 5000 && removeHandled.Load() == base; i++ {
						time.Sleep(time.Millisecond)
					}
					mainParked.Store(false)
					dropActive.Store(false)
				case async:
					for i := 0; i < 1000 && dropActive.Load() && !mainParked.Load(); i++ {
						time.Sleep(time.Millisecond)
					}
					if !mainParked.Load() {
						if name == "op.VDeleteIndex.remove_done" {
							removeHandled.Add(1)
						}
						return
					}
					if name == "op.VDeleteIndex.remove_done" {
						defer removeHandled.Add(1)
					}
				}
				mu.Lock()
				defer mu.Unlock()
				tornLo := int64(-1)
				if strings.HasPrefix(name, "lazy.") {
					// bookkeeping always (also for ticker flushes of the live engine while an
					// image is being evaluated); sizes are read from the live log file
					switch name {
					case "lazy.truncated":
						prevSize = 0
						return
					case "lazy.replaced":
						prevSize = c02FileSize(aof)
						return
					case "lazy.flushed":
						// only at this instant is "the log ends inside the bytes just written" a
						// state a process death can leave (nothing else on disk changed meanwhile)
						tornLo = prevSize
						prevSize = c02FileSize(aof)
					}
				}
				if evaluating || strings.HasPrefix(name, "replay.") || name == "http.panic_recovered" {
					return
				}
				hit++
				h := fnv.New32a()
				fmt.Fprintf(h, "%d/%d/%s", salt, hit, name)
				// always image the rarely reached points, sample the per-op ones
				rare := strings.HasPrefix(name, "snap.") || strings.HasPrefix(name, "rw.") || strings.HasPrefix(name, "cascade.") || strings.Contains(name, "VDeleteIndex") || strings.Contains(name, "VImportCommit")
				if !rare && h.Sum32()%rate != 0 {
					return
				}
				if len(pending) >= 6 {
					return
				}
				imgNo++
				dir := filepath.Join(cs.TempDir(), fmt.Sprintf("img%d", imgNo))
				if err := vexec.ImageDir(x.Dir, dir); err != nil {
					panic(err)
				}
				pending = append(pending, c02Image{dir: dir, point: name, nStates: len(states), durable: durable, tornLo: tornLo})
				pointsSeen[name] = true
			})
			nops := cs.R.Range(10, ctx.N(30, 50))
			for i := 0; i < nops; i++ {
				kindsBefore := len(x.Kinds)
				switch p := cs.R.Intn(100); {
				case p < 8:
					cs.Op("AOF.Flush()")
					x.E.AOF.Flush()
					x.Kinds = append(x.Kinds, "flush")
				case p < 11:
					cs.Op("AOF.Sync()")
					x.E.AOF.Sync()
					x.Kinds = append(x.Kinds, "flush")
				case p < 26:
					g.Admin(x)
				default:
					g.Step(x)
				}
				x.Settle()
				mu.Lock()
				evaluating = true
				mu.Unlock()
				if msg := x.CheckFull(); msg != "" {
					cs.Fail("live state disagrees with the model after op %d: %s", i, msg)
				}
				states = append(states, x.M.Clone())
				// the operation (or the last one of a compound step) may be a durable point
				// Only the LAST call of a compound step counts: the state recorded above is the
				// one after the whole step, and only a flush that ends the step covers all of it.
				if ks := x.Kinds[kindsBefore:]; len(ks) > 0 {
					switch k := ks[len(ks)-1]; k {
					case "flush", "snapshot", "rewrite", "kvdel", "vaddbatch", "vconfig", "vdrop", "vcompress", "vimportcommit":
						autoLinked := false // auto-link edges of a batch are journaled after the batch's flush
						for _, mi := range x.M.Idx {
							if len(mi.Cfg.AutoLinks) > 0 {
								autoLinked = true
							}
						}
						if (!x.Rejected || k == "flush") && !(k == "vaddbatch" && autoLinked) {
							durable = len(states) - 1
						}
					}
				}
				mu.Lock()
				imgs := pending
				pending = nil
				mu.Unlock()
				for _, im := range imgs {
					if ctx.IsKnown("D36") && strings.Contains(strings.Join(x.Kinds[kindsBefore:], "+"), "vcompress") {
						// recorded finding: a crash inside VCompress (between the arena rebuild
						// and the end of its snapshot); see probe D36
						os.RemoveAll(im.dir)
						ctx.Count("guard.D36_skipped_images", 1)
						continue
					}
					cands := states[im.durable:]
					what := fmt.Sprintf("crash at %s during op %d (%s)", im.point, i, strings.Join(x.Kinds[kindsBefore:], "+"))
					ctx.Count("point."+im.point, 1)
					// torn tail: only for images taken right after a writer flush, inside the bytes
					// that flush appended
					imgAof := filepath.Join(im.dir, "kektordb.aof")
					size := c02FileSize(imgAof)
					var offs []int64
					if im.tornLo >= 0 && size > im.tornLo {
						for o := im.tornLo + 1; o < size; o++ {
							offs = append(offs, o)
						}
						max := ctx.N(16, 48)
						if len(offs) > max { // deterministic thinning, frame boundaries +-1 always kept
							keep := map[int64]bool{}
							for _, e := range c02FrameEnds(imgAof) {
								keep[e-1], keep[e], keep[e+1] = true, true, true
							}
							step := len(offs)/max + 1
							var th []int64
							for j, o := range offs {
								if j%step == 0 || (keep[o] && len(th) < 3*max) {
									th = append(th, o)
								}
							}
							offs = th
						}
					}
					for _, o := range offs {
						if o <= im.tornLo || o >= size {
							continue
						}
						tdir := fmt.Sprintf("%s.t%d", im.dir, o)
						if err := vexec.ImageDir(im.dir, tdir); err != nil {
							cs.Fail("image copy: %v", err)
						}
						if err := os.Truncate(filepath.Join(tdir, "kektordb.aof"), o); err != nil {
							cs.Fail("truncate: %v", err)
						}
						c02Evaluate(ctx, cs, tdir, fmt.Sprintf("%s, log torn at byte %d of %d", what, o, size), cands, 0)
						os.RemoveAll(tdir)
						ctx.Count("torn_tail_images", 1)
					}
					c02Evaluate(ctx, cs, im.dir, what, cands, 0)
					os.RemoveAll(im.dir)
				}
				mu.Lock()
				evaluating = false
				mu.Unlock()
				ctx.Count("ops", 1)
			}
			ctx.Eval(1)
			if len(pointsSeen) > 0 {
				ctx.Distinct(x.KindKey() + "|" + strings.Join(vexec.SortedKeys(pointsSeen), ","))
			}
			ctx.Sample("episode", 2, map[string]any{"ops": cs.Ops()[:min(len(cs.Ops()), 40)]})
		})
	})
}

var _ = io.EOF

// c02Live is the executor of the running case (cases of a shard run one after the other).
var c02Live *vexec.Exec

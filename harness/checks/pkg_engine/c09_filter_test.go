package engine_test

import (
	"fmt"
	"math"
	"sort"
	"strings"
	"testing"

	"github.com/sanonone/kektordb/internal/zzverif/vexec"
	"github.com/sanonone/kektordb/internal/zzverif/vkit"
	"github.com/sanonone/kektordb/pkg/core/distance"
	"github.com/sanonone/kektordb/pkg/engine"
)

// C09 (group hybridfilter) — "hybrid search ranks by alpha*vector-similarity + (1-alpha)*max-
// normalised text score": with a metadata filter and / or a graph scope the candidates are the
// documents that pass it, so the text score is normalised by the best BM25 score AMONG THEM.
// BM25 itself is computed from scratch over the whole current corpus (document counts and
// lengths are corpus statistics, not candidate statistics).
func TestVerifC09Filter(t *testing.T) {
	vkit.Run(t, "C09", func(ctx *vkit.Ctx) {
		langs := c09Langs()
		ctx.Group("hybridfilter", ctx.N(200, 4000), func(cs *vkit.Case) {
			r := cs.R
			lang := langs[cs.Idx%len(langs)]
			dir := cs.SubDir("data")
			e, err := engine.Open(vexec.Options(dir))
			if err != nil {
				cs.Fail("open: %v", err)
			}
			defer func() { e.Close() }()
			metric := vkit.Pick(r, []distance.DistanceMetric{distance.Euclidean, distance.Cosine})
			if err := e.VCreate(c09Index, metric, 16, 200, distance.Float32, lang.name, nil, nil, nil); err != nil {
				cs.Fail("VCreate: %v", err)
			}
			var words []string
			for _, w := range lang.vocab {
				if len(lang.an.Analyze(w)) > 0 {
					words = append(words, w)
				}
			}
			n := r.Range(4, 24)
			live := map[string]map[string]any{}
			var ids []string
			for i := 0; i < n; i++ {
				id := fmt.Sprintf("d%d", i)
				var sb []string
				for k, m := 0, r.Range(1, 8); k < m; k++ {
					sb = append(sb, vkit.Pick(r, words))
				}
				meta := map[string]any{"content": strings.Join(sb, " "), "grp": float64(r.Intn(3)), "tag": vkit.Pick(r, []string{"a", "b"})}
				if err := e.VAdd(c09Index, id, []float32{r.F32() + 1.5, r.F32() + 1.5, r.F32() + 1.5}, meta); err != nil {
					cs.Fail("VAdd: %v", err)
				}
				live[id] = meta
				ids = append(ids, id)
			}
			// a few links, so that a graph scope can exclude documents too
			for i := 0; i < n/2; i++ {
				e.VLink(c09Index, vkit.Pick(r, ids), vkit.Pick(r, ids), "next", "", 1, nil)
			}
			// some updates / deletions before the queries (the corpus statistics must follow)
			for i := 0; i < r.Range(0, 4); i++ {
				id := vkit.Pick(r, ids)
				if _, ok := live[id]; !ok {
					continue
				}
				if r.Chance(0.5) && len(live) > 3 {
					e.VDelete(c09Index, id)
					delete(live, id)
				} else {
					txt := vkit.Pick(r, words) + " " + vkit.Pick(r, words)
					e.VSetMetadata(c09Index, id, map[string]any{"content": txt})
					live[id]["content"] = txt
				}
			}
			if cs.Idx%4 == 3 {
				e.SaveSnapshot()
				e.Close()
				if e, err = engine.Open(vexec.Options(dir)); err != nil {
					cs.Fail("reopen: %v", err)
				}
			}
			corpus := c09BuildCorpus(lang.an, "content", live)
			for q := 0; q < 6; q++ {
				text := vkit.Pick(r, words)
				if r.Chance(0.5) {
					text += " " + vkit.Pick(r, words)
				}
				qt := lang.an.Analyze(text)
				if !c09Distinct(qt) || len(qt) == 0 {
					continue
				}
				g := float64(r.Intn(3))
				filter, pass := "", func(m map[string]any) bool { return true }
				switch r.Intn(5) {
				case 0:
					filter, pass = fmt.Sprintf("grp = %v", g), func(m map[string]any) bool { return m["grp"] == g }
				case 1:
					filter, pass = fmt.Sprintf("grp != %v", g), func(m map[string]any) bool { return m["grp"] != g }
				case 2:
					filter, pass = "grp >= 1", func(m map[string]any) bool { return m["grp"].(float64) >= 1 }
				case 3:
					filter, pass = "tag = 'a' AND grp <= 1", func(m map[string]any) bool { return m["tag"] == "a" && m["grp"].(float64) <= 1 }
				}
				alpha := vkit.Pick(r, []float64{0, 0.3, 0.5, 0.8, 0.25})
				qv := []float32{r.F32() + 1.5, r.F32() + 1.5, r.F32() + 1.5}
				k := n + 3
				cs.Op("VSearchGraph(q=%v, k=%d, filter=%q, text=%q, alpha=%v)", qv, k, filter, text, alpha)
				pure, err := e.VSearchGraph(c09Index, qv, k, filter, "", 200, 1.0, nil, false, nil)
				if err != nil {
					cs.Fail("filtered vector search: %v", err)
				}
				simV := map[string]float64{}
				for _, p := range pure {
					simV[p.ID] = p.Score
				}
				res, err := e.VSearchGraph(c09Index, qv, k, filter, text, 200, alpha, nil, false, nil)
				if err != nil {
					cs.Fail("hybrid search with filter: %v", err)
				}
				bm := corpus.score(qt)
				maxE, best, bestAll, maxAll := 0.0, "", "", 0.0
				for id, s := range bm {
					if s > maxAll {
						maxAll, bestAll = s, id
					}
					if pass(live[id]) && s > maxE {
						maxE, best = s, id
					}
				}
				got := map[string]float64{}
				prev := math.Inf(1)
				for i, h := range res {
					m, ok := live[h.ID]
					if !ok {
						cs.Fail("hybrid search with filter %q returned %s, which is not a live document", filter, h.ID)
					}
					if !pass(m) {
						cs.Fail("hybrid search with filter %q returned %s whose metadata %s does not satisfy it", filter, h.ID, vkit.JSON(m))
					}
					if _, dup := got[h.ID]; dup {
						cs.Fail("hybrid search returned %s twice", h.ID)
					}
					if !(h.Score <= prev+1e-12) {
						cs.Fail("hybrid search: result %d has score %v after %v", i, h.Score, prev)
					}
					prev = h.Score
					got[h.ID] = h.Score
					sv, hasV := simV[h.ID]
					want := 0.0
					if hasV {
						want = alpha * sv
					}
					if s, ok := bm[h.ID]; ok && maxE > 0 {
						want += (1 - alpha) * s / maxE
					}
					if math.Abs(h.Score-want) > 1e-6*math.Max(1, want) {
						cs.Attach("bm25_over_the_current_corpus", c09FmtScores(bm))
						cs.Fail("hybrid alpha=%v text=%q filter=%q: score of %s is %.9g, want alpha*%.9g + (1-alpha)*%.9g/%.9g = %.9g (text scores are normalised by the best BM25 among the documents that pass the filter: %s; the best of the whole corpus is %s with %.9g)", alpha, text, filter, h.ID, h.Score, sv, bm[h.ID], maxE, want, best, bestAll, maxAll)
					}
				}
				var missing []string
				for id := range bm {
					if pass(live[id]) {
						if _, ok := got[id]; !ok {
							missing = append(missing, id)
						}
					}
				}
				sort.Strings(missing)
				if len(missing) > 0 {
					cs.Fail("hybrid alpha=%v text=%q filter=%q (k=%d >= %d documents): documents %v pass the filter and contain a query term but are not returned", alpha, text, filter, k, n, missing)
				}
				ctx.Eval(1)
				ctx.Count("hybridfilter.queries", 1)
				if filter != "" && bestAll != best {
					ctx.Count("hybridfilter.best_text_match_excluded_by_filter", 1)
				}
			}
			ctx.Distinct(fmt.Sprintf("hybridfilter/%s/%s/n%d/%d", lang.name, metric, n, len(live)))
		})
	})
}

package engine_test

import (
	"fmt"
	"math"
	"sort"
	"strconv"
	"strings"
	"testing"
	"time"

	"github.com/sanonone/kektordb/internal/zzverif/vexec"
	"github.com/sanonone/kektordb/internal/zzverif/vkit"
	"github.com/sanonone/kektordb/pkg/core/distance"
	"github.com/sanonone/kektordb/pkg/engine"
)

// C11 — graph queries compute exact bounded reachability and shortest paths.
//
// Every case builds a small directed multigraph through the public engine API (each node is
// normally also a vector of the index so that graph-scoped search can return it), binds the
// clock-chosen edge stamps by reading the edge store back (vexec.BindGraph), and then
// compares FindPath / VExtractSubgraph / VSearch+GraphQuery / VSearchGraph / VTraverse with
// a plain BFS over the model's edge versions active at the queried time.

const c11Index = "g"

// c11SpinFreeDepth: largest maxDepth the random workload uses for an unreachable target while
// D-C11-2 is an open finding (see c11Probes).
const c11SpinFreeDepth = 1000

// ---- reference view ---------------------------------------------------------------------

type c11Edge struct {
	Src, Tgt, Rel string
	C, D          int64
}

type c11Ref struct {
	edges    []c11Edge
	live     map[string]bool // nodes that are live vectors of the index
	vecs     map[string][]float32
	adjCache map[string]map[string][]string
	bfsCache map[string]map[string]int
	stamps   []int64
}

func c11BuildRef(x *vexec.Exec, ix string) *c11Ref {
	r := &c11Ref{live: map[string]bool{}, vecs: map[string][]float32{}}
	pre := vexec.GraphID(ix, "")
	for k, vs := range x.M.Edges {
		if !strings.HasPrefix(k.Src, pre) {
			continue // another index's name space: invisible to queries on ix
		}
		for _, v := range vs {
			r.edges = append(r.edges, c11Edge{Src: vexec.NodeOf(k.Src), Tgt: vexec.NodeOf(v.Target), Rel: k.Rel, C: v.Created, D: v.Deleted})
		}
	}
	sort.Slice(r.edges, func(i, j int) bool {
		a, b := r.edges[i], r.edges[j]
		if a.C != b.C {
			return a.C < b.C
		}
		if a.Src != b.Src {
			return a.Src < b.Src
		}
		if a.Rel != b.Rel {
			return a.Rel < b.Rel
		}
		return a.Tgt < b.Tgt
	})
	if mi := x.M.Idx[ix]; mi != nil {
		for id, rec := range mi.Recs {
			r.live[id] = true
			r.vecs[id] = rec.Vec
		}
	}
	r.stamps = x.M.Stamps()
	return r
}

func c11RelSet(rels []string) map[string]bool {
	m := map[string]bool{}
	for _, r := range rels {
		m[r] = true
	}
	return m
}

// hasEdge reports whether an edge a-[rel]->b with rel in rels is active at t.
func (r *c11Ref) hasEdge(a, b string, rels map[string]bool, t int64) bool {
	for _, e := range r.edges {
		if e.Src == a && e.Tgt == b && rels[e.Rel] && vexec.ActiveAt(e.C, e.D, t) {
			return true
		}
	}
	return false
}

// adj builds the neighbour lists at time t over the allowed relations.
// dir: "out" follows edges forward, "in" backward, "both" either way.
// The reference is immutable once built, so the lists are memoised per (relations, t, dir);
// callers only read them.
func (r *c11Ref) adj(rels map[string]bool, t int64, dir string) map[string][]string {
	key := c11AdjKey(rels, t, dir)
	if a, ok := r.adjCache[key]; ok {
		return a
	}
	a := r.adjBuild(rels, t, dir)
	if r.adjCache == nil {
		r.adjCache = map[string]map[string][]string{}
	}
	r.adjCache[key] = a
	return a
}

func c11AdjKey(rels map[string]bool, t int64, dir string) string {
	return strings.Join(vexec.SortedKeys(rels), ",") + "|" + strconv.FormatInt(t, 10) + "|" + dir
}

// distFrom: unlimited-depth hop distances from src (memoised like adj).
func (r *c11Ref) distFrom(rels map[string]bool, t int64, dir, src string) map[string]int {
	key := c11AdjKey(rels, t, dir) + "|" + src
	if d, ok := r.bfsCache[key]; ok {
		return d
	}
	d := c11BFS(r.adj(rels, t, dir), src, -1)
	if r.bfsCache == nil {
		r.bfsCache = map[string]map[string]int{}
	}
	r.bfsCache[key] = d
	return d
}

func (r *c11Ref) adjBuild(rels map[string]bool, t int64, dir string) map[string][]string {
	set := map[string]map[string]bool{}
	add := func(a, b string) {
		if set[a] == nil {
			set[a] = map[string]bool{}
		}
		set[a][b] = true
	}
	for _, e := range r.edges {
		if !rels[e.Rel] || !vexec.ActiveAt(e.C, e.D, t) {
			continue
		}
		if dir == "out" || dir == "both" {
			add(e.Src, e.Tgt)
		}
		if dir == "in" || dir == "both" {
			add(e.Tgt, e.Src)
		}
	}
	out := map[string][]string{}
	for a, m := range set {
		out[a] = vexec.SortedKeys(m)
	}
	return out
}

// c11BFS returns hop distances from root, limited to maxDepth hops (maxDepth < 0: unlimited).
func c11BFS(adj map[string][]string, root string, maxDepth int) map[string]int {
	dist := map[string]int{root: 0}
	q := []string{root}
	for len(q) > 0 {
		c := q[0]
		q = q[1:]
		if maxDepth >= 0 && dist[c] >= maxDepth {
			continue
		}
		for _, nb := range adj[c] {
			if _, ok := dist[nb]; !ok {
				dist[nb] = dist[c] + 1
				q = append(q, nb)
			}
		}
	}
	return dist
}

func c11Keys(m map[string]int) []string {
	out := make([]string, 0, len(m))
	for k := range m {
		out = append(out, k)
	}
	sort.Strings(out)
	return out
}

func c11SortedCopy(xs []string) []string {
	out := append([]string(nil), xs...)
	sort.Strings(out)
	return out
}

func c11Same(a, b []string) bool {
	if len(a) != len(b) {
		return false
	}
	for i := range a {
		if a[i] != b[i] {
			return false
		}
	}
	return true
}

// activeList renders the edges active at t (witness text).
func (r *c11Ref) activeList(t int64) []string {
	var out []string
	for _, e := range r.edges {
		if vexec.ActiveAt(e.C, e.D, t) {
			out = append(out, fmt.Sprintf("%s-[%s]->%s", e.Src, e.Rel, e.Tgt))
		}
	}
	sort.Strings(out)
	return out
}

func (r *c11Ref) history() []string {
	var out []string
	for _, e := range r.edges {
		out = append(out, fmt.Sprintf("%s-[%s]->%s c=%d d=%d", e.Src, e.Rel, e.Tgt, e.C, e.D))
	}
	return out
}

// signature: the graph's shape with stamps replaced by their rank (distinctness key).
func (r *c11Ref) signature() string {
	rank := map[int64]int{0: 0}
	for i, s := range r.stamps {
		rank[s] = i + 1
	}
	var parts []string
	for _, e := range r.edges {
		parts = append(parts, fmt.Sprintf("%s>%s:%s@%d-%d", e.Src, e.Tgt, e.Rel, rank[e.C], rank[e.D]))
	}
	sort.Strings(parts)
	return strings.Join(parts, ",") + "|live=" + strings.Join(vexec.SortedKeys(r.live), "")
}

// hasCycleOrHistory: a directed cycle (incl. self-loop) among currently active edges, or a
// deleted edge version (so that at least one historical instant differs from now).
func (r *c11Ref) hasCycleOrHistory(allRels []string) (cycle, history bool) {
	for _, e := range r.edges {
		if e.D != 0 {
			history = true
		}
	}
	adj := r.adj(c11RelSet(allRels), 0, "out")
	for n := range adj {
		for _, nb := range adj[n] {
			if nb == n {
				cycle = true
			}
			if d := c11BFS(adj, nb, -1); d != nil {
				if _, ok := d[n]; ok {
					cycle = true
				}
			}
		}
	}
	return
}

// ---- one graph under test ---------------------------------------------------------------

type c11G struct {
	ctx   *vkit.Ctx
	cs    *vkit.Case
	x     *vexec.Exec
	ix    string // the index (graph name space) this view queries
	ref   *c11Ref
	nodes []string
	rels  []string
	dim   int
	// twin: a second index on the same engine whose graph uses the SAME node ids with a
	// different edge set and its own vectors (name-space isolation). nil in most cases.
	twin *c11G
	// per-case observations
	multiHop  bool // some FindPath answer had >= 2 hops
	histDiff  bool // some query ran at an instant whose active edge set differs from now
	nqueries  int
	vacuumed  bool
	liveCount int
}

func c11Open(ctx *vkit.Ctx, cs *vkit.Case, nodes, rels []string, noVector map[string]bool) *c11G {
	g := &c11G{ctx: ctx, cs: cs, ix: c11Index, nodes: nodes, rels: rels, dim: 3}
	g.x = vexec.NewExec(cs, cs.SubDir("data"))
	g.create(noVector)
	return g
}

func (g *c11G) create(noVector map[string]bool) {
	metric := distance.Euclidean
	if g.cs.R.Chance(0.3) {
		metric = distance.Cosine
	}
	// exact regime: at most 8 vectors, M=16 (base layer holds 32 links), efConstruction 200
	// every vector carries a text ("alpha" + one more word), so that a scoped search can also be
	// asked with a text part: the scope is the same whatever the search ranks by
	if err := g.x.VCreate(vexec.IndexCfg{Name: g.ix, Metric: metric, Prec: distance.Float32, M: 16, EfC: 200, Lang: "english"}); err != nil {
		g.cs.Fail("VCreate failed: %v", err)
	}
	for i, n := range g.nodes {
		if noVector[n] {
			continue
		}
		g.addVec(i, n)
	}
}

// openTwin creates a second index on the same engine with the same node ids.
func (g *c11G) openTwin(name string, noVector map[string]bool) *c11G {
	t := &c11G{ctx: g.ctx, cs: g.cs, x: g.x, ix: name, nodes: g.nodes, rels: g.rels, dim: g.dim}
	t.create(noVector)
	g.twin = t
	return t
}

func (g *c11G) addVec(i int, n string) {
	v := []float32{float32(i + 1), float32((i*7)%5) + 0.5, 1 + g.cs.R.F32()*0.25}
	if err := g.x.VAdd(g.ix, n, v, map[string]any{"i": float64(i), "content": "alpha " + []string{"dog", "cat", "fox"}[i%3]}); err != nil {
		g.cs.Fail("VAdd(%s) failed: %v", n, err)
	}
}

func (g *c11G) close() {
	if g.x != nil && g.x.E != nil {
		g.x.Settle()
		g.x.E.Close()
		g.x.E = nil
	}
}

func (g *c11G) link(a, b, rel string) {
	if err := g.x.VLink(g.ix, a, b, rel, "", 1, nil); err != nil {
		g.cs.Fail("VLink failed: %v", err)
	}
}

func (g *c11G) unlink(a, b, rel string) {
	if err := g.x.VUnlink(g.ix, a, b, rel, "", false); err != nil {
		g.cs.Fail("VUnlink failed: %v", err)
	}
}

// bind reads the edge store back, binds the clock-chosen stamps and rebuilds the reference.
// A disagreement here means the edge store does not hold what the acknowledged history says
// (that is the subject of C10/C12); the BFS oracle of C11 would be meaningless on top of it.
func (g *c11G) bind() {
	g.x.Settle()
	if msg := g.x.BindGraph(); msg != "" {
		g.cs.Fail("precondition of the C11 oracle failed — edge store and history model disagree (C10/C12 territory): %s", msg)
	}
	g.ref = c11BuildRef(g.x, g.ix)
	g.liveCount = len(g.ref.live)
	g.cs.Attach("edge_versions."+g.ix, g.ref.history())
	g.cs.Attach("live_vectors."+g.ix, vexec.SortedKeys(g.ref.live))
	if t := g.twin; t != nil {
		t.ref = c11BuildRef(t.x, t.ix)
		t.liveCount = len(t.ref.live)
		g.cs.Attach("edge_versions."+t.ix, t.ref.history())
		g.cs.Attach("live_vectors."+t.ix, vexec.SortedKeys(t.ref.live))
	}
}

func (g *c11G) fail(kind string, t int64, format string, a ...any) {
	g.cs.Attach("queried_index", g.ix)
	g.cs.Attach("query_time", t)
	g.cs.Attach("active_edges_at_query_time", g.ref.activeList(t))
	g.cs.Fail(kind+": "+format, a...)
}

func (g *c11G) noteTime(t int64) {
	if t != 0 && !g.histDiff {
		if !c11Same(g.ref.activeList(t), g.ref.activeList(0)) {
			g.histDiff = true
		}
	}
	if t != 0 {
		g.ctx.Count("queries.at_historical_time", 1)
	}
}

// ---- oracles ----------------------------------------------------------------------------

// FindPath: soundness of every returned path, optimality, and completeness up to maxDepth.
func (g *c11G) checkFindPath(src, dst string, rels []string, maxDepth int, t int64) {
	rs := c11RelSet(rels)
	want := -1
	if d, ok := g.ref.distFrom(rs, t, "out", src)[dst]; ok {
		want = d
	}
	if maxDepth > c11SpinFreeDepth && want < 0 && g.ctx.IsKnown("D-C11-2") {
		// D-C11-2: the search loop runs maxDepth rounds even when both frontiers are empty, so
		// an unreachable target with a huge maxDepth costs maxDepth iterations (2^31: seconds,
		// MaxInt: for ever). Exactly that trigger is left to the probe while the finding is open.
		maxDepth = c11SpinFreeDepth
		g.ctx.Count("findpath.guard_D-C11-2", 1)
	}
	g.cs.Op("FindPath(%s,%s,%s,%v,maxDepth=%d,at=%d)", g.ix, src, dst, rels, maxDepth, t)
	g.nqueries++
	g.noteTime(t)
	res, err := g.x.E.FindPath(g.ix, src, dst, rels, maxDepth, t)
	g.ctx.Count("findpath.calls", 1)
	if maxDepth > c11SpinFreeDepth {
		g.ctx.Count("findpath.huge_maxdepth", 1)
		if want < 0 {
			g.ctx.Count("findpath.huge_maxdepth_unreachable", 1)
		}
	}
	must := want >= 0 && want <= maxDepth
	if err != nil {
		if must {
			g.fail("FindPath", t, "%s->%s rels=%v maxDepth=%d at=%d returned error %v although a path of %d hops exists", src, dst, rels, maxDepth, t, err, want)
		}
		g.ctx.Count("findpath.error_not_demanded", 1)
		return
	}
	if res == nil {
		if must {
			g.fail("FindPath", t, "%s->%s rels=%v maxDepth=%d at=%d returned no path although the shortest path has %d hops (<= maxDepth)", src, dst, rels, maxDepth, t, want)
		}
		switch {
		case want < 0:
			g.ctx.Count("findpath.none_unreachable", 1)
		default:
			g.ctx.Count("findpath.none_beyond_maxdepth", 1)
		}
		return
	}
	p := res.Path
	if len(p) == 0 {
		g.fail("FindPath", t, "%s->%s returned a result with an empty path", src, dst)
	}
	if p[0] != src || p[len(p)-1] != dst {
		g.fail("FindPath", t, "%s->%s rels=%v maxDepth=%d at=%d: path %v does not run from source to target", src, dst, rels, maxDepth, t, p)
	}
	if res.Source != src || res.Target != dst {
		g.fail("FindPath", t, "%s->%s: result names source=%q target=%q", src, dst, res.Source, res.Target)
	}
	for i := 0; i+1 < len(p); i++ {
		if !g.ref.hasEdge(p[i], p[i+1], rs, t) {
			g.fail("FindPath", t, "%s->%s rels=%v maxDepth=%d at=%d: path %v uses hop %s->%s which is not an active edge of an allowed relation in forward direction", src, dst, rels, maxDepth, t, p, p[i], p[i+1])
		}
	}
	for _, e := range res.Edges {
		if !rs[e.Relation] || !g.ref.hasEdge(e.Source, e.Target, map[string]bool{e.Relation: true}, t) {
			g.fail("FindPath", t, "%s->%s rels=%v at=%d: reported edge %s-[%s]->%s is not an active edge of an allowed relation", src, dst, rels, t, e.Source, e.Relation, e.Target)
		}
		// clause "every hop is an active edge of an allowed relation": the edge records are the
		// details of the hops of the returned path, so each must join two consecutive path nodes
		// (the list may be partial: the engine documents "at least the first half").
		onPath := false
		for i := 0; i+1 < len(p); i++ {
			if p[i] == e.Source && p[i+1] == e.Target {
				onPath = true
			}
		}
		if !onPath {
			g.fail("FindPath", t, "%s->%s rels=%v at=%d: reported edge %s-[%s]->%s is not a hop of the returned path %v", src, dst, rels, t, e.Source, e.Relation, e.Target, p)
		}
	}
	hops := len(p) - 1
	if want < 0 || hops != want {
		g.fail("FindPath", t, "%s->%s rels=%v maxDepth=%d at=%d: path %v has %d hops, the shortest path has %d", src, dst, rels, maxDepth, t, p, hops, want)
	}
	if hops >= 2 {
		g.multiHop = true
	}
	if hops > maxDepth {
		g.ctx.Count("findpath.found_beyond_maxdepth", 1)
	}
	g.ctx.Count(fmt.Sprintf("findpath.found_hops_%d", min(hops, 7)), 1)
	if hops >= 9 {
		g.ctx.Count("findpath.found_hops_9_or_more", 1)
	}
}

// VExtractSubgraph: nodes == undirected neighbourhood within the (clamped) depth; every
// reported edge is an active edge of an allowed relation.
func (g *c11G) checkSubgraph(root string, rels []string, depth int, t int64) {
	g.cs.Op("VExtractSubgraph(%s,%v,depth=%d,at=%d)", root, rels, depth, t)
	g.nqueries++
	g.noteTime(t)
	res, err := g.x.E.VExtractSubgraph(g.ix, root, rels, depth, t, nil, 0)
	g.ctx.Count("subgraph.calls", 1)
	if err != nil || res == nil {
		g.fail("VExtractSubgraph", t, "root=%s rels=%v depth=%d at=%d returned err=%v result=%v", root, rels, depth, t, err, res)
	}
	rs := c11RelSet(rels)
	adj := g.ref.adj(rs, t, "both")
	var got []string
	for _, n := range res.Nodes {
		got = append(got, n.ID)
	}
	sort.Strings(got)
	if depth >= 1 {
		eff := depth
		if eff > 5 {
			eff = 5 // documented cap
			g.ctx.Count("subgraph.depth_above_cap", 1)
		}
		want := c11Keys(c11BFS(adj, root, eff))
		if !c11Same(got, want) {
			g.fail("VExtractSubgraph", t, "root=%s rels=%v depth=%d (effective %d) at=%d: nodes %v, reference neighbourhood (either direction) %v", root, rels, depth, eff, t, got, want)
		}
		if len(want) > 1 {
			g.ctx.Count("subgraph.nontrivial", 1)
		}
	} else {
		// depth <= 0 selects an API default the property does not fix: soundness only
		reach := c11BFS(adj, root, 5)
		seenRoot := false
		for _, n := range got {
			if _, ok := reach[n]; !ok {
				g.fail("VExtractSubgraph", t, "root=%s rels=%v depth=%d at=%d: node %s is not reachable from the root at all", root, rels, depth, t, n)
			}
			if n == root {
				seenRoot = true
			}
		}
		if !seenRoot {
			g.fail("VExtractSubgraph", t, "root=%s depth=%d: root missing from node list %v", root, depth, got)
		}
		g.ctx.Count("subgraph.default_depth_soundness_only", 1)
	}
	if res.RootID != root {
		g.fail("VExtractSubgraph", t, "root=%s: result names root %q", root, res.RootID)
	}
	for _, e := range res.Edges {
		if !rs[e.Relation] || !g.ref.hasEdge(e.Source, e.Target, map[string]bool{e.Relation: true}, t) {
			g.fail("VExtractSubgraph", t, "root=%s rels=%v depth=%d at=%d: reported edge %s-[%s]->%s (%s) is not an active edge of an allowed relation", root, rels, depth, t, e.Source, e.Relation, e.Target, e.Dir)
		}
	}
	// size cap: an extraction that expands every node once lists an edge at most once per
	// requested relation entry and per end point (as "out" of its source, as "in" of its
	// target). More records than that means nodes were expanded repeatedly (blow-up on cycles).
	bound := 0
	for _, rel := range rels {
		for _, e := range g.ref.edges {
			if e.Rel == rel && vexec.ActiveAt(e.C, e.D, t) {
				bound += 2
			}
		}
	}
	if len(res.Edges) > bound {
		g.fail("VExtractSubgraph", t, "root=%s rels=%v depth=%d at=%d: edge list has %d records but only %d active edges of the requested relations exist (at most %d records if every node is expanded once)", root, rels, depth, t, len(res.Edges), bound/2, bound)
	}
	if g.cs.R.Chance(0.25) {
		g.checkGuidedSubgraph(root, rels, depth, t)
	}
}

// refDist: distance between node n's stored vector and q as the index defines it (squared
// Euclidean, or 1 - cosine), computed in float64 from the model's copy of the vector.
func (g *c11G) refDist(n string, q []float32) float64 {
	v := g.ref.vecs[n]
	if g.x.M.Idx[g.ix].Cfg.Metric == distance.Cosine {
		var dot, nv, nq float64
		for i := range q {
			dot += float64(v[i]) * float64(q[i])
			nv += float64(v[i]) * float64(v[i])
			nq += float64(q[i]) * float64(q[i])
		}
		if nv == 0 || nq == 0 {
			return math.NaN()
		}
		return 1 - dot/math.Sqrt(nv*nq)
	}
	var s float64
	for i := range q {
		d := float64(v[i]) - float64(q[i])
		s += d * d
	}
	return s
}

// c11GatedBFS: nodes within maxDepth hops of root when a neighbour is entered only if pass(nb).
func c11GatedBFS(adj map[string][]string, root string, maxDepth int, pass func(string) bool) map[string]int {
	dist := map[string]int{root: 0}
	q := []string{root}
	for len(q) > 0 {
		c := q[0]
		q = q[1:]
		if dist[c] >= maxDepth {
			continue
		}
		for _, nb := range adj[c] {
			if _, ok := dist[nb]; !ok && pass(nb) {
				dist[nb] = dist[c] + 1
				q = append(q, nb)
			}
		}
	}
	return dist
}

// Guided extraction (guide vector + threshold): the walk additionally refuses neighbours whose
// stored vector is farther from the guide than the threshold. What the property fixes:
//   - upper bound: whatever the gate does, every returned node lies in the un-gated
//     neighbourhood ("cover exactly the nodes reachable ... within the depth limit through the
//     allowed relations"), every edge is an active edge of an allowed relation;
//   - lower bound: the nodes reachable through neighbours that certainly pass the gate (stored
//     vector, distance below the threshold by a float margin) must be covered.
//
// Neighbours that are not stored vectors (distance undefined) and distances within the margin
// of the threshold may go either way, and so may everything behind them.
func (g *c11G) checkGuidedSubgraph(root string, rels []string, depth int, t int64) {
	q := g.query()
	live := vexec.SortedKeys(g.ref.live)
	dist := map[string]float64{}
	var ds []float64
	for _, n := range live {
		d := g.refDist(n, q)
		dist[n] = d
		if !math.IsNaN(d) {
			ds = append(ds, d)
		}
	}
	sort.Float64s(ds)
	var thr float64
	switch k := g.cs.R.Intn(8); {
	case k == 0:
		thr = -1 // nothing passes
	case k == 1:
		thr = 1e9 // every stored vector passes
	case k == 2 && len(ds) > 0:
		thr = vkit.Pick(g.cs.R, ds) // on a distance: that node is inside the margin
	case len(ds) > 0:
		i := g.cs.R.Intn(len(ds))
		if i+1 < len(ds) {
			thr = (ds[i] + ds[i+1]) / 2
		} else {
			thr = ds[i] + 1
		}
	default:
		thr = 1
	}
	g.cs.Op("VExtractSubgraph(%s,%s,%v,depth=%d,at=%d,guide=%v,threshold=%v)", g.ix, root, rels, depth, t, q, thr)
	g.nqueries++
	res, err := g.x.E.VExtractSubgraph(g.ix, root, rels, depth, t, q, thr)
	g.ctx.Count("subgraph.guided_calls", 1)
	if err != nil || res == nil {
		g.fail("VExtractSubgraph(guided)", t, "root=%s rels=%v depth=%d at=%d guide=%v threshold=%v returned err=%v result=%v", root, rels, depth, t, q, thr, err, res)
	}
	margin := func(d float64) float64 { return 1e-3 * (1 + math.Abs(d)) }
	sure := func(n string) bool {
		d, ok := dist[n]
		return ok && !math.IsNaN(d) && d <= thr-margin(d)
	}
	maybe := func(n string) bool {
		d, ok := dist[n]
		return !ok || math.IsNaN(d) || d <= thr+margin(d)
	}
	rs := c11RelSet(rels)
	adj := g.ref.adj(rs, t, "both")
	effLo, effHi := depth, depth
	if depth > 5 {
		effLo, effHi = 5, 5 // documented cap
	}
	if depth <= 0 {
		effLo, effHi = 0, 5 // API default not fixed by the property
	}
	lower := c11GatedBFS(adj, root, effLo, sure)
	upper := c11GatedBFS(adj, root, effHi, maybe)
	got := map[string]bool{}
	for _, n := range res.Nodes {
		if got[n.ID] {
			g.fail("VExtractSubgraph(guided)", t, "root=%s: node %s listed twice", root, n.ID)
		}
		got[n.ID] = true
		if _, ok := upper[n.ID]; !ok {
			g.fail("VExtractSubgraph(guided)", t, "root=%s rels=%v depth=%d at=%d guide=%v threshold=%v: node %s is not reachable within the depth limit through neighbours that can pass the gate (distances %v); reference upper set %v", root, rels, depth, t, q, thr, n.ID, dist, c11Keys(upper))
		}
	}
	for _, n := range c11Keys(lower) {
		if !got[n] {
			g.fail("VExtractSubgraph(guided)", t, "root=%s rels=%v depth=%d at=%d guide=%v threshold=%v: node %s is reachable within the depth limit through stored vectors whose distance is below the threshold (distances %v) but is missing from %v", root, rels, depth, t, q, thr, n, dist, vexec.SortedKeys(got))
		}
	}
	for _, e := range res.Edges {
		if !rs[e.Relation] || !g.ref.hasEdge(e.Source, e.Target, map[string]bool{e.Relation: true}, t) {
			g.fail("VExtractSubgraph(guided)", t, "root=%s rels=%v depth=%d at=%d: reported edge %s-[%s]->%s (%s) is not an active edge of an allowed relation", root, rels, depth, t, e.Source, e.Relation, e.Target, e.Dir)
		}
	}
	if len(lower) > 1 && len(lower) < len(c11BFS(adj, root, effHi)) {
		g.ctx.Count("subgraph.guided_gate_cuts_and_keeps", 1)
	}
	if len(upper) == len(lower) {
		g.ctx.Count("subgraph.guided_exact", 1)
	}
}

func (g *c11G) query() []float32 {
	q := []float32{g.cs.R.F32() * 8, g.cs.R.F32() * 4, 1}
	return q
}

func (g *c11G) wantScoped(root string, rels []string, dir string, depth int) (want []string, exact bool) {
	d := dir
	if d == "" {
		d = "out" // documented default
	}
	adj := g.ref.adj(c11RelSet(rels), 0, d)
	eff, exact := depth, true
	if depth > 5 {
		eff = 5 // documented cap
	}
	if depth <= 0 {
		eff, exact = 5, false // default not fixed by the property: soundness only
	}
	for n := range c11BFS(adj, root, eff) {
		if g.ref.live[n] {
			want = append(want, n)
		}
	}
	sort.Strings(want)
	return want, exact
}

// VSearch with a GraphQuery in the exact regime (k >= number of vectors): result set ==
// nodes reachable from the root (root included) within the depth limit ∩ live vectors.
func (g *c11G) checkScopedSearch(root string, rels []string, dir string, depth int) []string {
	gq := &engine.GraphQuery{RootID: root, Relations: rels, Direction: dir, MaxDepth: depth}
	k := len(g.nodes) + g.cs.R.Intn(3)
	ef := vkit.Pick(g.cs.R, []int{0, 0, 50, 200})
	q := g.query()
	g.cs.Op("VSearch(%s,q=%v,k=%d,ef=%d,graph=%s)", g.ix, q, k, ef, vkit.JSON(gq))
	g.nqueries++
	ids, err := g.x.E.VSearch(g.ix, q, k, "", "", ef, 1.0, gq)
	g.ctx.Count("scoped_search.calls", 1)
	if err != nil {
		g.fail("VSearch+GraphQuery", 0, "root=%s rels=%v dir=%q depth=%d returned error %v", root, rels, dir, depth, err)
	}
	g.compareScoped("VSearch+GraphQuery", ids, root, rels, dir, depth)
	// the same scope with a text part: every vector's text contains "alpha", so a hybrid
	// search (explicit text or CONTAINS) and a text-only search (all-zero query vector) must
	// return exactly the live vectors of the scope as well - in particular nothing when the scope
	// holds no vector
	if g.cs.R.Chance(0.5) {
		mode := vkit.Pick(g.cs.R, []string{"hybrid-explicit", "hybrid-contains", "text-only", "text-only-contains"})
		qt, filter, text, alpha := q, "", "alpha", 0.5
		if strings.HasPrefix(mode, "text-only") {
			qt, alpha = make([]float32, len(q)), 0
		}
		if strings.HasSuffix(mode, "contains") {
			filter, text = "CONTAINS(content, 'alpha')", ""
		}
		g.cs.Op("VSearch(%s,q=%v,k=%d,filter=%q,text=%q,alpha=%v,graph=%s) [%s]", g.ix, qt, k, filter, text, alpha, vkit.JSON(gq), mode)
		g.nqueries++
		idsT, err := g.x.E.VSearch(g.ix, qt, k, filter, text, ef, alpha, gq)
		g.ctx.Count("scoped_search.calls_with_text."+mode, 1)
		if err != nil {
			g.fail("VSearch+GraphQuery("+mode+")", 0, "root=%s rels=%v dir=%q depth=%d returned error %v", root, rels, dir, depth, err)
		}
		g.compareScoped("VSearch+GraphQuery("+mode+")", idsT, root, rels, dir, depth)
	}
	// k smaller than the scope: whatever the ranking picks, every hit must lie in the scope
	// ("graph-scoped search covers exactly the nodes reachable ..."), no id twice, at most k
	// hits, and at least one hit when the scope holds a live vector.
	if want, exact := g.wantScoped(root, rels, dir, depth); exact && len(want) >= 2 && g.cs.R.Chance(0.3) {
		k2 := g.cs.R.Range(1, len(want)-1)
		q2 := g.query()
		g.cs.Op("VSearch(%s,q=%v,k=%d,ef=%d,graph=%s)", g.ix, q2, k2, ef, vkit.JSON(gq))
		g.nqueries++
		ids2, err := g.x.E.VSearch(g.ix, q2, k2, "", "", ef, 1.0, gq)
		g.ctx.Count("scoped_search.calls_small_k", 1)
		if err != nil {
			g.fail("VSearch+GraphQuery", 0, "root=%s rels=%v dir=%q depth=%d k=%d returned error %v", root, rels, dir, depth, k2, err)
		}
		ws := c11RelSet(want)
		seen := map[string]bool{}
		for _, id := range ids2 {
			if seen[id] {
				g.fail("VSearch+GraphQuery", 0, "root=%s k=%d: id %s returned twice: %v", root, k2, id, ids2)
			}
			seen[id] = true
			if !ws[id] {
				g.fail("VSearch+GraphQuery", 0, "root=%s rels=%v dir=%q depth=%d k=%d: returned %s which is outside the reference scope %v", root, rels, dir, depth, k2, id, want)
			}
		}
		if len(ids2) > k2 || len(ids2) == 0 {
			g.fail("VSearch+GraphQuery", 0, "root=%s rels=%v dir=%q depth=%d k=%d: %d hits %v although the scope holds %d live vectors %v", root, rels, dir, depth, k2, len(ids2), ids2, len(want), want)
		}
		if len(ids2) < k2 {
			g.ctx.Count("scoped_search.small_k_short_answer_not_judged", 1)
		}
	}
	return ids
}

func (g *c11G) compareScoped(api string, ids []string, root string, rels []string, dir string, depth int) {
	want, exact := g.wantScoped(root, rels, dir, depth)
	got := c11SortedCopy(ids)
	for i := 1; i < len(got); i++ {
		if got[i] == got[i-1] {
			g.fail(api, 0, "root=%s: id %s returned twice: %v", root, got[i], ids)
		}
	}
	if exact {
		if !c11Same(got, want) {
			g.fail(api, 0, "root=%s rels=%v dir=%q depth=%d: returned %v, reference reachable set ∩ live vectors = %v (live vectors %v)", root, rels, dir, depth, got, want, vexec.SortedKeys(g.ref.live))
		}
		if len(want) > 1 {
			g.ctx.Count("scoped_search.nontrivial", 1)
		}
		if len(want) == 0 {
			g.ctx.Count("scoped_search.empty_scope", 1)
		}
		return
	}
	ws := c11RelSet(want)
	for _, id := range got {
		if !ws[id] {
			g.fail(api, 0, "root=%s rels=%v dir=%q depth=%d: returned %s which is not reachable from the root / not a live vector", root, rels, dir, depth, id)
		}
	}
	if g.ref.live[root] && !c11RelSet(got)[root] {
		g.fail(api, 0, "root=%s rels=%v dir=%q depth=%d: live root missing from %v", root, rels, dir, depth, got)
	}
	g.ctx.Count("scoped_search.default_depth_soundness_only", 1)
}

// ---- relation-path expansion (VTraverse / VSearchGraph) ---------------------------------

// expSize: number of nodes in the model's expansion tree of path from cur (capped).
func (g *c11G) expSize(cur string, path []string, cap int) int {
	// sizes[i][n] = size of subtree below node n when path[i:] remains
	names := map[string]bool{cur: true}
	for _, e := range g.ref.edges {
		names[e.Src], names[e.Tgt] = true, true
	}
	next := map[string]int{}
	for i := len(path) - 1; i >= 0; i-- {
		adj := g.ref.adj(map[string]bool{path[i]: true}, 0, "out")
		curSz := map[string]int{}
		for n := range names {
			s := 0
			for _, t := range adj[n] {
				s += 1 + next[t]
				if s > cap {
					s = cap + 1
					break
				}
			}
			curSz[n] = s
		}
		next = curSz
	}
	return next[cur]
}

// cmpTree compares one level of a traversal result with the model expansion.
// hydrate=true: targets that are not live vectors may be omitted (documented: ids that are
// not found are omitted on hydration), so T∩live ⊆ got ⊆ T; hydrate=false: got == T.
// Levels at or beyond the recursion cap (10) may be cut: got ⊆ T only.
// truncated=true (the traversal spent its whole node budget, see c11TraversalCap): any level
// may have been cut, so only got ⊆ T and "no node twice below one parent" are demanded.
func (g *c11G) cmpTree(api, where, cur string, path []string, level int, got []engine.GraphNode, hydrate, truncated bool) {
	want := g.ref.adj(map[string]bool{path[0]: true}, 0, "out")[cur]
	ws := c11RelSet(want)
	gs := map[string]bool{}
	for _, n := range got {
		if gs[n.ID] {
			g.fail(api, 0, "%s: node %s appears twice below %s via %q", where, n.ID, cur, path[0])
		}
		gs[n.ID] = true
		if !ws[n.ID] {
			g.fail(api, 0, "%s: level %d below %s via relation %q contains %s; the active out-neighbours are %v", where, level, cur, path[0], n.ID, want)
		}
	}
	if truncated {
		g.ctx.Count("traverse.levels_in_truncated_result", 1)
	} else if level < 10 {
		for _, w := range want {
			if !gs[w] && (!hydrate || g.ref.live[w]) {
				g.fail(api, 0, "%s: level %d below %s via relation %q lacks %s; got %v, active out-neighbours %v", where, level, cur, path[0], w, vexec.SortedKeys(gs), want)
			}
		}
	} else {
		g.ctx.Count("traverse.levels_beyond_cap", 1)
	}
	rest := path[1:]
	for _, n := range got {
		key := strings.Join(rest, ".")
		for k, v := range n.Connections {
			if (len(rest) == 0 || k != key) && len(v) > 0 {
				g.fail(api, 0, "%s: node %s carries connections under %q that the requested path does not contain", where, n.ID, k)
			}
		}
		if len(rest) > 0 {
			g.cmpTree(api, where, n.ID, rest, level+1, n.Connections[key], hydrate, truncated)
		}
	}
	g.ctx.Count("traverse.levels_compared", 1)
}

// genPaths draws 1-3 distinct relation paths whose model expansion from every start stays small.
// overCap=true: no truncation, so on dense cyclic graphs the model expansion may exceed the
// engine's size cap (the oracle then checks the cap and the subset relation only).
func (g *c11G) genPaths(starts []string, allowLong, overCap bool) []string {
	n := g.cs.R.Range(1, 3)
	seen := map[string]bool{}
	var out []string
	for len(out) < n {
		l := vkit.Pick(g.cs.R, []int{1, 1, 2, 2, 3, 4})
		if allowLong && g.cs.R.Chance(0.25) {
			l = g.cs.R.Range(5, 13)
		}
		segs := make([]string, l)
		for i := range segs {
			segs[i] = vkit.Pick(g.cs.R, g.rels)
			if g.cs.R.Chance(0.03) {
				segs[i] = "nope"
			}
			if g.cs.R.Chance(0.015) {
				segs[i] = "" // "r..s" / "": no edge carries the empty relation, the walk ends there
			}
		}
		for len(segs) > 1 && !overCap {
			big := false
			for _, s := range starts {
				if g.expSize(s, segs, c11ExpansionLimit(g.ctx)) > c11ExpansionLimit(g.ctx) {
					big = true
					break
				}
			}
			if !big {
				break
			}
			segs = segs[:len(segs)-1]
		}
		p := strings.Join(segs, ".")
		if seen[p] {
			n--
			continue
		}
		seen[p] = true
		out = append(out, p)
	}
	return out
}

func (g *c11G) checkTraverse(start string) {
	// ~4 % of the calls on a graph with a cycle skip the truncation that keeps expansions
	// small: the size-cap branch of the engine is then reached and judged (not while D-C11-1,
	// the missing cap, is an open finding: such a call would exhaust memory).
	overCap := !g.ctx.IsKnown("D-C11-1") && g.cs.R.Chance(0.04)
	paths := g.genPaths([]string{start}, true, overCap)
	if g.cs.R.Chance(0.03) {
		paths = []string{} // no path: the start node alone, no connections
	}
	if overCap {
		g.ctx.Count("traverse.calls_without_size_truncation", 1)
	}
	g.checkTraverseWith(start, paths)
}

func (g *c11G) checkTraverseWith(start string, paths []string) {
	g.cs.Op("VTraverse(%s,%s,%q)", g.ix, start, paths)
	g.nqueries++
	res, err := g.x.E.VTraverse(g.ix, start, paths)
	g.ctx.Count("traverse.calls", 1)
	if !g.ref.live[start] {
		// the start must be a stored vector; nothing is demanded otherwise
		g.ctx.Count("traverse.start_not_a_vector", 1)
		if err == nil && res != nil && res.ID != start {
			g.fail("VTraverse", 0, "start=%s: result names %q", start, res.ID)
		}
		return
	}
	if err != nil || res == nil {
		g.fail("VTraverse", 0, "start=%s paths=%v returned err=%v", start, paths, err)
	}
	if res.ID != start {
		g.fail("VTraverse", 0, "start=%s: result names %q", start, res.ID)
	}
	g.cmpConnections("VTraverse", start, paths, res.Connections, true)
}

func (g *c11G) cmpConnections(api, start string, paths []string, conns map[string][]engine.GraphNode, hydrate bool) {
	ps := c11RelSet(paths)
	for k, v := range conns {
		if !ps[k] && len(v) > 0 {
			g.fail(api, 0, "start=%s: connections under %q were not requested (paths %v)", start, k, paths)
		}
	}
	for _, p := range paths {
		segs := strings.Split(p, ".")
		if len(segs) > 10 {
			g.ctx.Count("traverse.paths_longer_than_cap", 1)
		}
		// size cap: one relation-path expansion materialises at most c11TraversalCap nodes
		// ("every traversal terminates ... within its depth and size caps"); a result below
		// the cap cannot have been cut by it and is compared exactly.
		n := c11CountNodes(conns[p])
		if n > c11TraversalCap {
			g.fail(api, 0, "start=%s path=%s: the expansion materialised %d nodes, the size cap is %d", start, p, n, c11TraversalCap)
		}
		truncated := n == c11TraversalCap
		if truncated {
			g.ctx.Count("traverse.results_at_size_cap", 1)
		}
		g.cmpTree(api, fmt.Sprintf("start=%s path=%s", start, p), start, segs, 0, conns[p], hydrate, truncated)
	}
}

// VSearchGraph = graph-scoped search + relation-path expansion from every hit.
func (g *c11G) checkSearchGraph(root string, rels []string, dir string, depth int) {
	gq := &engine.GraphQuery{RootID: root, Relations: rels, Direction: dir, MaxDepth: depth}
	want, _ := g.wantScoped(root, rels, dir, depth)
	starts := want
	if len(starts) == 0 {
		starts = []string{root}
	}
	paths := g.genPaths(starts, false, false)
	hydrate := g.cs.R.Chance(0.5)
	k := len(g.nodes) + 1
	q := g.query()
	g.cs.Op("VSearchGraph(%s,q=%v,k=%d,paths=%q,hydrate=%v,graph=%s)", g.ix, q, k, paths, hydrate, vkit.JSON(gq))
	g.nqueries++
	res, err := g.x.E.VSearchGraph(g.ix, q, k, "", "", 0, 1.0, paths, hydrate, gq)
	g.ctx.Count("search_graph.calls", 1)
	if err != nil {
		g.fail("VSearchGraph", 0, "root=%s returned error %v", root, err)
	}
	var ids []string
	for _, r := range res {
		ids = append(ids, r.ID)
	}
	g.compareScoped("VSearchGraph", ids, root, rels, dir, depth)
	for _, r := range res {
		if r.Node.ID != r.ID {
			g.fail("VSearchGraph", 0, "hit %s carries node id %q", r.ID, r.Node.ID)
		}
		g.cmpConnections("VSearchGraph", r.ID, paths, r.Node.Connections, hydrate)
	}
}

// ---- query generators -------------------------------------------------------------------

func (g *c11G) pickTime() int64 {
	st := g.ref.stamps
	if len(st) == 0 || g.cs.R.Chance(0.35) {
		return 0
	}
	i := g.cs.R.Intn(len(st))
	switch g.cs.R.Intn(10) {
	case 0, 1, 2:
		return st[i]
	case 3:
		if g.cs.R.Chance(0.3) {
			return -1 - int64(g.cs.R.Intn(3)) // a negative instant: nothing was created at or before it
		}
		return st[i]
	case 4:
		return st[i] - 1
	case 5:
		return st[i] + 1
	case 6, 7:
		if i+1 < len(st) {
			return st[i] + (st[i+1]-st[i])/2
		}
		return st[i] + 1000
	case 8:
		return 1 // before every edge
	default:
		return st[len(st)-1] + 1_000_000_000 // after every recorded stamp
	}
}

func (g *c11G) pickRels() []string {
	var out []string
	for _, r := range g.rels {
		if g.cs.R.Chance(0.6) {
			out = append(out, r)
		}
	}
	if len(out) == 0 {
		out = []string{vkit.Pick(g.cs.R, g.rels)}
	}
	if g.cs.R.Chance(0.05) {
		out = append(out, "nope") // a relation nobody uses
	}
	if g.cs.R.Chance(0.05) {
		out = append(out, out[0]) // duplicate
	}
	if g.cs.R.Chance(0.03) {
		// a long list with repeats and unused names (bookkeeping of the per-relation loops)
		for i, k := 0, g.cs.R.Range(3, 6); i < k; i++ {
			out = append(out, vkit.Pick(g.cs.R, append([]string{"nope", "v"}, g.rels...)))
		}
	}
	return out
}

func (g *c11G) pickNode() string {
	if g.cs.R.Chance(0.02) {
		return "ghost" // never linked, never added
	}
	return vkit.Pick(g.cs.R, g.nodes)
}

// c11Depths: maxDepth values of random FindPath calls. The property quantifies over every
// depth; the huge ones decide "terminates within its depth cap" for a bound that is no bound.
var c11Depths = []int{1, 1, 2, 2, 3, 3, 4, 5, 6, 10, 0, -1, 100, 1000, 1 << 20, 1 << 31, math.MaxInt}

func (g *c11G) randomQuery() {
	if g.twin != nil && g.cs.R.Chance(0.5) {
		g.twin.randomQuery1()
		return
	}
	g.randomQuery1()
}

func (g *c11G) randomQuery1() {
	switch g.cs.R.Intn(20) {
	case 0, 1, 2, 3, 4, 5, 6, 7:
		md := vkit.Pick(g.cs.R, c11Depths)
		g.checkFindPath(g.pickNode(), g.pickNode(), g.pickRels(), md, g.pickTime())
	case 8, 9, 10, 11:
		d := vkit.Pick(g.cs.R, []int{1, 1, 2, 2, 3, 4, 5, 6, 9, 0, -1})
		g.checkSubgraph(g.pickNode(), g.pickRels(), d, g.pickTime())
	case 12, 13, 14, 15:
		d := vkit.Pick(g.cs.R, []int{1, 1, 2, 2, 3, 4, 5, 6, 9, 0, -1})
		g.checkScopedSearch(g.pickNode(), g.pickRels(), vkit.Pick(g.cs.R, []string{"out", "in", "both", ""}), d)
	case 16, 17:
		g.checkTraverse(g.pickNode())
	default:
		d := vkit.Pick(g.cs.R, []int{1, 2, 3, 5, 7})
		g.checkSearchGraph(g.pickNode(), g.pickRels(), vkit.Pick(g.cs.R, []string{"out", "in", "both", ""}), d)
	}
}

// sweep: every (src,dst) pair at one instant and one relation subset, every maxDepth 1..7.
func (g *c11G) sweepPaths(rels []string, t int64) {
	for _, s := range g.nodes {
		for _, d := range g.nodes {
			for md := 1; md <= 7; md++ {
				g.checkFindPath(s, d, rels, md, t)
			}
			// and one bound that is no bound (every pair, reachable or not)
			g.checkFindPath(s, d, rels, vkit.Pick(g.cs.R, []int{100, 1 << 20, 1 << 31, math.MaxInt}), t)
		}
	}
}

func (g *c11G) sweepNeighbourhoods(rels []string, t int64) {
	for _, root := range g.nodes {
		for d := 1; d <= 7; d++ {
			g.checkSubgraph(root, rels, d, t)
		}
	}
	if t == 0 {
		for _, root := range g.nodes {
			for _, dir := range []string{"out", "in", "both"} {
				for d := 1; d <= 6; d++ {
					g.checkScopedSearch(root, rels, dir, d)
				}
			}
			// scope + relation-path expansion from every hit (the only call that compares the
			// un-hydrated expansion through nodes without a vector exactly)
			g.checkSearchGraph(root, rels, vkit.Pick(g.cs.R, []string{"out", "in", "both", ""}), g.cs.R.Range(1, 6))
		}
	}
}

func (g *c11G) finish(kind string) {
	if t := g.twin; t != nil {
		g.nqueries += t.nqueries
		g.ctx.Count("queries.on_twin_index", int64(t.nqueries))
		g.histDiff = g.histDiff || t.histDiff
	}
	g.ctx.Eval(1)
	g.ctx.Count("graphs."+kind, 1)
	g.ctx.Count("queries", int64(g.nqueries))
	cyc, hist := g.ref.hasCycleOrHistory(g.rels)
	if cyc {
		g.ctx.Count("graphs.with_cycle_or_self_loop", 1)
	}
	if hist {
		g.ctx.Count("graphs.with_deleted_versions", 1)
	}
	if g.histDiff {
		g.ctx.Count("graphs.queried_at_instant_differing_from_now", 1)
	}
	if (cyc || hist) && g.multiHop {
		g.ctx.Distinct(kind + "|" + g.ref.signature())
	}
	g.ctx.Sample(kind, 2, map[string]any{"edge_versions": g.ref.history(), "live_vectors": vexec.SortedKeys(g.ref.live), "ops_tail": g.cs.Ops()[max(0, len(g.cs.Ops())-6):]})
}

// ---- random multigraphs -----------------------------------------------------------------

func c11Random(ctx *vkit.Ctx, cs *vkit.Case) {
	r := cs.R
	n := r.Range(2, 6)
	nodes := make([]string, n)
	colon := cs.Idx%4 == 3 // node ids containing the "::" separator of the internal graph ids
	for i := range nodes {
		nodes[i] = fmt.Sprintf("n%d", i)
		if colon && i%2 == 1 {
			nodes[i] = fmt.Sprintf("s::n%d::x", i)
		}
	}
	rels := []string{"r", "s", "u"}[:r.Range(1, 3)]
	noVec := map[string]bool{}
	for _, nd := range nodes[1:] { // n0 always is a vector (the index needs a dimension)
		if r.Chance(0.12) {
			noVec[nd] = true
		}
	}
	g := c11Open(ctx, cs, nodes, rels, noVec)
	defer g.close()
	// name-space isolation: in a fifth of the cases a second index "h" lives on the same
	// engine, its graph uses the same node ids with its own edges and vectors, both graphs are
	// built interleaved and queried alternately; each is compared with its own reference.
	if r.Chance(0.2) {
		noVec2 := map[string]bool{}
		for _, nd := range nodes[1:] {
			if r.Chance(0.3) {
				noVec2[nd] = true
			}
		}
		g.openTwin("h", noVec2)
		ctx.Count("graphs.with_twin_index", 1)
	}

	mutate := func(steps int) {
		for i := 0; i < steps; i++ {
			tg := g
			if g.twin != nil && r.Chance(0.5) {
				tg = g.twin
			}
			a, b, rel := vkit.Pick(r, nodes), vkit.Pick(r, nodes), vkit.Pick(r, rels)
			switch p := r.Intn(100); {
			case p < 60:
				inv := ""
				if r.Chance(0.15) {
					inv = vkit.Pick(r, rels)
				}
				w := vkit.Pick(r, []float32{1, 1, 1, 2})
				var props map[string]any
				if r.Chance(0.1) {
					props = map[string]any{"k": vkit.Pick(r, []string{"a", "b"})}
				}
				if err := g.x.VLink(tg.ix, a, b, rel, inv, w, props); err != nil {
					cs.Fail("VLink failed: %v", err)
				}
				ctx.Count("build.link", 1)
			case p < 84:
				// prefer an edge that is currently active
				if r.Chance(0.75) {
					var act [][3]string
					pre := vexec.GraphID(tg.ix, "")
					for k, vs := range g.x.M.Edges {
						if !strings.HasPrefix(k.Src, pre) {
							continue
						}
						for _, v := range vs {
							if v.Deleted == 0 && v.DHi == 0 {
								act = append(act, [3]string{vexec.NodeOf(k.Src), vexec.NodeOf(v.Target), k.Rel})
							}
						}
					}
					if len(act) > 0 {
						sort.Slice(act, func(i, j int) bool { return fmt.Sprint(act[i]) < fmt.Sprint(act[j]) })
						e := vkit.Pick(r, act)
						a, b, rel = e[0], e[1], e[2]
					}
				}
				inv := ""
				if r.Chance(0.1) {
					inv = vkit.Pick(r, rels)
				}
				if err := g.x.VUnlink(tg.ix, a, b, rel, inv, false); err != nil {
					cs.Fail("VUnlink failed: %v", err)
				}
				ctx.Count("build.soft_unlink", 1)
			case p < 88:
				if err := g.x.VUnlink(tg.ix, a, b, rel, "", true); err != nil {
					cs.Fail("VUnlink(hard) failed: %v", err)
				}
				ctx.Count("build.hard_unlink", 1)
			case p < 92:
				// delete a vector (its edges are soft-unlinked by the cascade); keep one alive
				mi := g.x.M.Idx[tg.ix]
				if len(mi.Recs) > 1 && mi.Recs[a] != nil {
					if err := g.x.VDelete(tg.ix, a); err != nil {
						cs.Fail("VDelete failed: %v", err)
					}
					ctx.Count("build.vdelete", 1)
				}
			case p < 95:
				// (re-)add the vector of a node that has none
				mi := g.x.M.Idx[tg.ix]
				if mi.Recs[a] == nil {
					for i, nd := range nodes {
						if nd == a {
							tg.addVec(i, a)
						}
					}
					ctx.Count("build.vadd_later", 1)
				}
			default:
				// prune history at a recorded instant
				g.x.Settle()
				if msg := g.x.BindGraph(); msg != "" {
					cs.Fail("precondition of the C11 oracle failed — edge store and history model disagree (C10/C12 territory): %s", msg)
				}
				if st := g.x.M.Stamps(); len(st) > 0 {
					g.x.GraphVacuumAt(vkit.Pick(r, st))
					g.vacuumed = true
					ctx.Count("build.graph_vacuum", 1)
				}
			}
		}
	}

	mutate(r.Range(3, 26))
	g.bind()
	nq := r.Range(ctx.N(30, 45), ctx.N(50, 75))
	phase2 := r.Chance(0.5)
	first := nq
	if phase2 {
		first = nq / 2
	}
	for i := 0; i < first; i++ {
		g.randomQuery()
	}
	if r.Chance(0.15) {
		sg := g
		if g.twin != nil && r.Chance(0.5) {
			sg = g.twin
		}
		sg.sweepPaths(sg.pickRels(), sg.pickTime())
		ctx.Count("sweeps.all_pairs", 1)
	}
	if phase2 {
		// histories: the same graph after a restart (journal replay) or after snapshot + restart.
		// Not after DB.VacuumGraph with an explicit cutoff: the harness calls the core directly
		// there, the prune is not journaled and pruned versions legitimately come back.
		if !g.vacuumed && r.Chance(0.2) {
			if r.Chance(0.5) {
				if err := g.x.SaveSnapshot(); err != nil {
					cs.Fail("SaveSnapshot failed: %v", err)
				}
				ctx.Count("build.snapshot", 1)
			}
			g.x.Settle()
			g.x.Restart()
			ctx.Count("build.restart", 1)
			g.bind()
			for i := 0; i < 8; i++ {
				g.randomQuery()
			}
		}
		mutate(r.Range(2, 10))
		g.bind()
		for i := first; i < nq; i++ {
			g.randomQuery()
		}
	}
	g.finish("random")
}

// ---- hand-shaped families ---------------------------------------------------------------

var c11ShapeNames = []string{
	"chain", "diamond_unequal_arms", "meet_in_middle", "cycle_with_tail", "fan", "history_diamond",
	"dense_cyclic", "two_way_chain", "parallel_relations", "lollipop",
}

// c11ColonIDs: in a third of the cases every second node id contains the "::" separator of the
// internal graph ids (the product creates such ids itself: session::..., _profile::..., summary::...).
// Set per case from the case PRNG (cases of a shard run one after the other).
var c11ColonIDs bool

func c11Names(n int) []string {
	out := make([]string, n)
	for i := range out {
		out[i] = string(rune('a' + i))
		if c11ColonIDs {
			switch i % 3 {
			case 1:
				out[i] = "s::" + out[i]
			case 2:
				out[i] = out[i] + "::x::y"
			}
		}
	}
	return out
}

func c11Shape(ctx *vkit.Ctx, cs *vkit.Case) {
	r := cs.R
	c11ColonIDs = cs.Idx%3 == 2
	defer func() { c11ColonIDs = false }()
	kind := c11ShapeNames[cs.Idx%len(c11ShapeNames)]
	variant := cs.Idx / len(c11ShapeNames)
	var nodes []string
	rels := []string{"r", "s"}
	type ed struct{ a, b, rel string }
	var edges []ed
	add := func(a, b, rel string) { edges = append(edges, ed{a, b, rel}) }
	chain := func(ns []string, rel string) {
		for i := 0; i+1 < len(ns); i++ {
			add(ns[i], ns[i+1], rel)
		}
	}
	switch kind {
	case "chain": // a single path of L edges, every odd and even length up to 7
		l := 1 + variant%7
		nodes = c11Names(l + 1)
		chain(nodes, "r")
	case "diamond_unequal_arms": // src -> ... -> dst by two arms of different length
		p := 1 + variant%3
		q := p + 1 + (variant/3)%3
		if p+q > 7 {
			q = 7 - p
		}
		nodes = c11Names(p + q) // src, dst, p-1 + q-1 inner nodes
		src, dst := nodes[0], nodes[1]
		armA := append(append([]string{src}, nodes[2:2+p-1]...), dst)
		armB := append(append([]string{src}, nodes[2+p-1:]...), dst)
		relB := "r"
		if variant%2 == 1 {
			relB = "s"
		}
		chain(armA, "r")
		chain(armB, relB)
	case "meet_in_middle": // several ways into a middle node and several ways out of it
		nodes = c11Names(8)
		src, m, dst := nodes[0], nodes[1], nodes[2]
		in1 := 1 + variant%3      // hops src -> m on the short way
		out1 := 1 + (variant/3)%3 // hops m -> dst on the short way
		inner := nodes[3:]
		use := 0
		take := func(k int) []string { s := inner[use : use+k]; use += k; return s }
		if in1+out1-2 <= 3 {
			chain(append(append([]string{src}, take(in1-1)...), m), "r")
			chain(append(append([]string{m}, take(out1-1)...), dst), "r")
		} else {
			chain([]string{src, m, dst}, "r")
		}
		// a longer detour around the middle
		rest := inner[use:]
		if len(rest) > 0 {
			chain(append(append([]string{src}, rest...), dst), "r")
		}
	case "cycle_with_tail": // tail -> cycle of length c, self-loops, one chord
		c := 2 + variant%5
		nodes = c11Names(c + 2)
		cyc := nodes[:c]
		chain(append(append([]string{}, cyc...), cyc[0]), "r")
		add(nodes[c], cyc[0], "r")       // tail in
		add(cyc[c/2], nodes[c+1], "r")   // tail out
		add(cyc[0], cyc[0], "r")         // self-loop
		add(nodes[c+1], nodes[c+1], "r") // self-loop on the sink
		if c >= 4 {
			add(cyc[0], cyc[c/2], "s") // chord in another relation
		}
	case "fan": // wide frontier on one side, narrow on the other
		nodes = c11Names(8)
		src, dst := nodes[0], nodes[7]
		if variant%2 == 0 {
			for _, mid := range nodes[1:5] {
				add(src, mid, "r")
			}
			add(nodes[3], nodes[5], "r")
			add(nodes[5], nodes[6], "r")
			add(nodes[6], dst, "r")
			add(nodes[1], nodes[1], "r")
		} else {
			for _, mid := range nodes[3:7] {
				add(mid, dst, "r")
			}
			add(src, nodes[1], "r")
			add(nodes[1], nodes[2], "r")
			add(nodes[2], nodes[4], "r")
		}
	case "history_diamond", "dense_cyclic", "two_way_chain", "parallel_relations", "lollipop":
		// built below (need the executor for unlink / relink)
	}
	switch kind {
	case "history_diamond":
		nodes = c11Names(6)
	case "dense_cyclic":
		nodes = c11Names(4 + variant%2)
	case "two_way_chain":
		nodes = c11Names(8)
	case "parallel_relations":
		nodes = c11Names(5)
	case "lollipop":
		nodes = c11Names(7)
	}
	noVec := map[string]bool{}
	if r.Chance(0.4) {
		noVec[vkit.Pick(r, nodes[1:])] = true
	}
	g := c11Open(ctx, cs, nodes, rels, noVec)
	defer g.close()
	for _, e := range edges {
		g.link(e.a, e.b, e.rel)
	}
	switch kind {
	case "history_diamond":
		// short arm a->b->f, long arm a->c->d->e->f; the short arm is cut and later restored
		a, b, c, d, e, f := nodes[0], nodes[1], nodes[2], nodes[3], nodes[4], nodes[5]
		g.link(a, b, "r")
		g.link(b, f, "r")
		g.link(a, c, "r")
		g.link(c, d, "r")
		g.link(d, e, "r")
		g.link(e, f, "r")
		g.unlink(b, f, "r")
		if variant%2 == 0 {
			g.link(b, f, "r") // restored: a second version of the same edge
			g.unlink(a, b, "r")
		}
		if variant%3 == 0 {
			if err := g.x.VLink(g.ix, c, d, "r", "", 2, nil); err != nil { // weight change = supersede
				cs.Fail("VLink failed: %v", err)
			}
		}
	case "dense_cyclic":
		for _, a := range nodes {
			for _, b := range nodes {
				g.link(a, b, "r")
			}
		}
		g.link(nodes[0], nodes[1], "s")
		g.link(nodes[1], nodes[0], "s")
		g.unlink(nodes[0], nodes[len(nodes)-1], "r")
	case "two_way_chain":
		for i := 0; i+1 < len(nodes); i++ {
			if err := g.x.VLink(g.ix, nodes[i], nodes[i+1], "r", "s", 1, nil); err != nil {
				cs.Fail("VLink failed: %v", err)
			}
		}
		if variant%2 == 1 {
			g.unlink(nodes[3], nodes[4], "r")
		}
	case "parallel_relations":
		a, b, c, d, e := nodes[0], nodes[1], nodes[2], nodes[3], nodes[4]
		g.link(a, b, "r")
		g.link(a, b, "s")
		g.link(b, c, "s")
		g.link(c, d, "r")
		g.link(a, d, "s")
		g.link(d, e, "r")
		g.link(e, a, "s")
		g.unlink(a, b, "r")
		g.link(b, b, "r")
	case "lollipop":
		a, b, c, d, e, f, h := nodes[0], nodes[1], nodes[2], nodes[3], nodes[4], nodes[5], nodes[6]
		g.link(a, b, "r")
		g.link(b, c, "r")
		g.link(c, d, "r")
		g.link(d, e, "r")
		g.link(e, c, "r") // cycle c->d->e->c
		g.link(e, f, "r")
		g.link(f, h, "r")
		g.link(h, f, "r") // 2-cycle at the end
		g.unlink(d, e, "r")
		g.link(d, e, "r")
	}
	// seed-dependent decoration: a few extra edges and cuts so that seeds differ
	for i, k := 0, r.Intn(4); i < k; i++ {
		a, b := vkit.Pick(r, nodes), vkit.Pick(r, nodes)
		if kind == "dense_cyclic" && r.Chance(0.5) {
			g.unlink(a, b, "r")
		} else if r.Chance(0.75) {
			g.link(a, b, vkit.Pick(r, rels))
		} else {
			g.unlink(a, b, vkit.Pick(r, rels))
		}
	}
	g.bind()

	// systematic part: all pairs × maxDepth 1..7 at now and at each of (up to 4) recorded instants
	times := []int64{0}
	st := g.ref.stamps
	for i := 0; i < 4 && len(st) > 0; i++ {
		times = append(times, vkit.Pick(r, st))
	}
	relSets := [][]string{{"r"}, {"r", "s"}}
	if kind == "parallel_relations" || kind == "two_way_chain" {
		relSets = append(relSets, []string{"s"})
	}
	for ti, t := range times {
		for ri, rs := range relSets {
			if ti > 0 && ri > 0 && !r.Chance(0.5) {
				continue
			}
			g.sweepPaths(rs, t)
			ctx.Count("sweeps.all_pairs", 1)
			if ti < 2 {
				g.sweepNeighbourhoods(rs, t)
				ctx.Count("sweeps.neighbourhoods", 1)
			}
		}
	}
	if kind != "dense_cyclic" || len(nodes) <= 4 {
		for _, s := range nodes {
			g.checkTraverse(s)
		}
	} else {
		g.checkTraverse(nodes[0])
	}
	if kind == "dense_cyclic" && !ctx.IsKnown("D-C11-1") {
		// the size-cap region: degree^segments far beyond the cap from a 4-5 node graph
		if s := vkit.Pick(r, nodes); g.ref.live[s] {
			long := strings.TrimSuffix(strings.Repeat("r.", r.Range(8, 12)), ".")
			g.checkTraverseWith(s, []string{long, "r.s.r"})
			ctx.Count("traverse.calls_without_size_truncation", 1)
		}
	}
	for i := 0; i < 20; i++ {
		g.randomQuery()
	}
	g.finish("shape." + kind)
}

// ---- larger sparse graphs ---------------------------------------------------------------

// c11Sparse: 20-40 nodes, out-degree about 1.5, 1-2 relations, most nodes without a vector (so
// graph-scoped search stays in the exact regime), some cut and restored edges. Reaches what
// the <= 8-node graphs cannot: the depth-5 clamp with real branching, the default FindPath
// depth with distances 5-9, frontiers of very different size, queues with dozens of entries.
func c11Sparse(ctx *vkit.Ctx, cs *vkit.Case) {
	r := cs.R
	n := r.Range(20, 40)
	nodes := make([]string, n)
	for i := range nodes {
		nodes[i] = fmt.Sprintf("m%02d", i)
	}
	rels := []string{"r", "s"}[:r.Range(1, 2)]
	noVec := map[string]bool{}
	for _, nd := range nodes[1:] {
		noVec[nd] = true
	}
	for i, k := 0, r.Intn(6); i < k; i++ {
		delete(noVec, vkit.Pick(r, nodes)) // <= 6 vectors in all
	}
	g := c11Open(ctx, cs, nodes, rels, noVec)
	defer g.close()
	type ed struct{ a, b, rel string }
	var made []ed
	put := func(e ed) {
		if r.Chance(0.08) && len(rels) > 1 {
			if err := g.x.VLink(g.ix, e.a, e.b, e.rel, rels[1], 1, nil); err != nil {
				cs.Fail("VLink failed: %v", err)
			}
		} else {
			g.link(e.a, e.b, e.rel)
		}
		made = append(made, e)
	}
	// backbone: the nodes in a random order, cut into chains of 3-15 nodes joined end to end
	// with probability 1/2 (long shortest paths); then n/3 .. n/2 random cross edges
	order := append([]string(nil), nodes...)
	for i := len(order) - 1; i > 0; i-- {
		j := r.Intn(i + 1)
		order[i], order[j] = order[j], order[i]
	}
	for i := 0; i+1 < len(order); {
		l := r.Range(3, 15)
		rel := vkit.Pick(r, rels)
		for k := 0; k < l-1 && i+1 < len(order); k++ {
			put(ed{order[i], order[i+1], rel})
			i++
		}
		if i+1 < len(order) && r.Chance(0.5) {
			put(ed{order[i], order[i+1], vkit.Pick(r, rels)})
		}
		i++
	}
	for i, k := 0, n/3+r.Intn(n/6+1); i < k; i++ {
		put(ed{vkit.Pick(r, nodes), vkit.Pick(r, nodes), vkit.Pick(r, rels)})
	}
	m := len(made)
	for i, k := 0, r.Intn(m/6+1); i < k; i++ {
		e := vkit.Pick(r, made)
		g.unlink(e.a, e.b, e.rel)
		if r.Chance(0.3) {
			g.link(e.a, e.b, e.rel)
		}
	}
	g.bind()
	times := []int64{0}
	if st := g.ref.stamps; len(st) > 0 {
		times = append(times, vkit.Pick(r, st))
	}
	for _, t := range times {
		rs := g.pickRels()
		for i := 0; i < 6; i++ {
			src := vkit.Pick(r, nodes)
			for _, dst := range nodes {
				for _, md := range []int{1, 3, 4, 5, 8, 12, 0, 1 << 20, math.MaxInt} {
					g.checkFindPath(src, dst, rs, md, t)
				}
			}
		}
		for i := 0; i < 6; i++ {
			root := vkit.Pick(r, nodes)
			for d := 1; d <= 6; d++ {
				g.checkSubgraph(root, rs, d, t)
			}
			if t == 0 {
				for _, dir := range []string{"out", "in", "both"} {
					for _, d := range []int{1, 2, 3, 5, 7} {
						g.checkScopedSearch(root, rs, dir, d)
					}
				}
			}
		}
	}
	for i := 0; i < 30; i++ {
		g.randomQuery()
	}
	g.finish("sparse")
}

func TestVerifC11(t *testing.T) {
	vkit.Run(t, "C11", func(ctx *vkit.Ctx) {
		ctx.Assume("FindPath is called with a non-empty relation list (the API rejects an empty one) and non-empty node ids without '::'")
		ctx.Assume("an edge is active at T>0 iff created <= T and (never deleted or deleted > T); T=0 means now (C10's reading)")
		ctx.Assume("VExtractSubgraph follows relations in either direction (documented behaviour); depth > 5 means 5 (documented cap); depth/MaxDepth <= 0 selects an API default the property does not fix — only soundness is checked there")
		ctx.Assume("graph-scoped search is exact because the index holds <= 8 vectors with M=16, efConstruction=200 and k >= number of vectors")
		ctx.Assume("hydrated traversal (VTraverse, VSearchGraph hydrate=true) may omit neighbours that are not stored vectors; levels at/after the recursion cap 10 may be cut")
		ctx.Assume("the size cap of one relation-path expansion (one start node, one path) is 10000 materialised nodes (engine constant maxTraversalNodes); a result of exactly 10000 nodes may have been cut anywhere (subset + no duplicates only), a smaller one is compared exactly")
		ctx.Assume("guided extraction (guide vector + threshold): a neighbour that is a stored vector is followed iff its distance to the guide (squared Euclidean / 1-cosine, as the index defines it) is <= threshold; the root is never gated; neighbours without a stored vector and distances within 1e-3*(1+d) of the threshold may go either way")
		ctx.Assume("a negative query time means 'before everything': no edge is active (created <= T fails for every edge)")
		ctx.Assume("FindPath's edge records describe hops of the returned path (possibly only the first half)")
		ctx.Assume("graphs of different indexes are separate name spaces even when node ids coincide")
		c11Probes(ctx)
		ctx.Group("shapes", ctx.N(200, 2500), func(cs *vkit.Case) { c11Shape(ctx, cs) })
		ctx.Group("random", ctx.N(2400, 60000), func(cs *vkit.Case) { c11Random(ctx, cs) })
		ctx.Group("sparse", ctx.N(32, 640), func(cs *vkit.Case) { c11Sparse(ctx, cs) })
	})
}

// c11ExpansionLimit bounds the size of the relation-path expansions the random cases ask for.
// While D-C11-1 (no size cap on path expansion) is a known finding the generator stays far
// away from expansions that exhaust memory; the exact-tree oracle is unaffected.
func c11ExpansionLimit(ctx *vkit.Ctx) int {
	if ctx.IsKnown("D-C11-1") {
		return 1500
	}
	return 6000
}

// c11TraversalCap: the size cap of one relation-path expansion (engine: maxTraversalNodes,
// introduced by the repair of D-C11-1).
const c11TraversalCap = 10000

func c11CountNodes(ns []engine.GraphNode) int {
	c := 0
	for _, n := range ns {
		c++
		for _, v := range n.Connections {
			c += c11CountNodes(v)
		}
	}
	return c
}

func c11Probes(ctx *vkit.Ctx) {
	// D-C11-2: FindPath's search loop (`for depth := 0; depth < maxDepth; depth++`) has no exit
	// for "both frontiers are empty": when the target cannot be reached the call performs
	// maxDepth rounds of nothing. maxDepth is passed through unchecked by the HTTP and MCP
	// entry points, so an unreachable target with maxDepth = 2^31 costs seconds of CPU and with
	// MaxInt64 the call never returns ("every traversal terminates ... within its depth and size
	// caps" - the depth cap here is the caller's number, and the graph has two nodes).
	// Fixed scenario: a-[r]->b, FindPath(a, ghost, [r], 2^33). A correct search stops when the
	// frontiers run dry (microseconds); the loop as written needs 2^33 rounds (5-10 s). The
	// call runs in a goroutine with a bounded wait: 2 s or 5000x the time of the same question
	// with maxDepth 64, whichever is longer. (2^33 rather than MaxInt64 so that the abandoned
	// goroutine ends by itself.)
	ctx.Probe("D-C11-2", func(cs *vkit.Case) string {
		x := vexec.NewExec(cs, cs.SubDir("data"))
		defer func() {
			if x.E != nil {
				x.E.Close()
			}
		}()
		if err := x.VCreate(vexec.IndexCfg{Name: c11Index, Metric: distance.Euclidean, Prec: distance.Float32, M: 16, EfC: 200}); err != nil {
			return "setup: " + err.Error()
		}
		if err := x.VAdd(c11Index, "a", []float32{1, 1, 2}, nil); err != nil {
			return "setup: " + err.Error()
		}
		if err := x.VLink(c11Index, "a", "b", "r", "", 1, nil); err != nil {
			return "setup: " + err.Error()
		}
		e := x.E
		t0 := time.Now()
		if res, err := e.FindPath(c11Index, "a", "ghost", []string{"r"}, 64, 0); err != nil || res != nil {
			return fmt.Sprintf("FindPath(a,ghost,[r],64) = %v, %v; want no path", res, err)
		}
		small := time.Since(t0)
		wait := 2 * time.Second
		if w := 5000 * small; w > wait {
			wait = w
		}
		const huge = 1 << 33
		cs.Op("FindPath(a,ghost,[r],maxDepth=%d) with a bounded wait of %v", huge, wait)
		type answer struct {
			res *engine.PathResult
			err error
		}
		done := make(chan answer, 1)
		go func() {
			res, err := e.FindPath(c11Index, "a", "ghost", []string{"r"}, huge, 0)
			done <- answer{res, err}
		}()
		select {
		case a := <-done:
			if a.err != nil || a.res != nil {
				return fmt.Sprintf("FindPath(a,ghost,[r],%d) = %v, %v; want no path", huge, a.res, a.err)
			}
			return ""
		case <-time.After(wait):
			return fmt.Sprintf("FindPath(a, ghost, [r], maxDepth=2^33) on the graph a-[r]->b (target unreachable) had not returned after %v; the same question with maxDepth=64 took %v. The search loop runs maxDepth rounds after both frontiers are empty (pkg/engine/pathfinding.go:38): time grows linearly with maxDepth, and with maxDepth=MaxInt64 the call never returns", wait, small)
		}
	})

	// D-C11-1: relation-path expansion (traversePath, used by VTraverse and VSearchGraph) has a
	// depth cap (10) but neither a size cap nor a visited set, so on a cyclic graph the work
	// and the result grow as degree^segments. Fixed scenario: complete digraph with self-loops
	// on 4 nodes, one path of 9 segments -> (4^10-4)/3 = 349 524 materialised nodes from a
	// 4-node graph. (11 segments: 5.6 M nodes / 1.2 GB; on 6 nodes the call cannot complete.)
	ctx.Probe("D-C11-1", func(cs *vkit.Case) string {
		x := vexec.NewExec(cs, cs.SubDir("data"))
		defer func() {
			if x.E != nil {
				x.E.Close()
			}
		}()
		if err := x.VCreate(vexec.IndexCfg{Name: c11Index, Metric: distance.Euclidean, Prec: distance.Float32, M: 16, EfC: 200}); err != nil {
			return "setup: " + err.Error()
		}
		ids := []string{"a", "b", "c", "d"}
		for i, id := range ids {
			if err := x.VAdd(c11Index, id, []float32{float32(i + 1), 1, 2}, nil); err != nil {
				return "setup: " + err.Error()
			}
		}
		for _, a := range ids {
			for _, b := range ids {
				if err := x.VLink(c11Index, a, b, "r", "", 1, nil); err != nil {
					return "setup: " + err.Error()
				}
			}
		}
		path := strings.TrimSuffix(strings.Repeat("r.", 9), ".")
		cs.Op("VTraverse(a,[%s])", path)
		res, err := x.E.VTraverse(c11Index, "a", []string{path})
		if err != nil || res == nil {
			return "" // refusing the request is one way of capping it
		}
		n := 0
		for _, v := range res.Connections {
			n += c11CountNodes(v)
		}
		ctx.Count("probe.D-C11-1.nodes_materialised", int64(n))
		if n > c11TraversalCap {
			return fmt.Sprintf("VTraverse(a, %q) on a 4-node complete digraph with self-loops materialised %d nodes, more than the size cap of %d (without a cap: degree^segments growth up to 11 levels, 349 524 nodes here)", path, n, c11TraversalCap)
		}
		return ""
	})
}

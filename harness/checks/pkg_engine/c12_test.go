package engine_test

import (
	"fmt"
	"os"
	"runtime"
	"sync"
	"sync/atomic"
	"testing"
	"time"

	"github.com/sanonone/kektordb/internal/zzverif/vexec"
	"github.com/sanonone/kektordb/internal/zzverif/vkit"
	"github.com/sanonone/kektordb/pkg/core/distance"
	"github.com/sanonone/kektordb/pkg/verifhook"
)

var c12Nodes = []string{"v", "a", "b", "c", "d", "t::e"} // "t::e": ids may contain the separator of graph ids (the product creates session::<n>, _profile::<user> itself)
var c12Rels = []string{"r", "s", "ri"}

// c12Absent checks every current graph query for traces of the deleted node `victim`
// (dead == true) and that paths / subgraphs / hydration never route through it. Equality of
// all remaining edges with the model is checked separately by CheckFull.
func c12Absent(cs *vkit.Case, x *vexec.Exec, ix, victim, where string) {
	relinked := false // the victim may appear again only through edges the history added after the delete
	gv := vexec.GraphID(ix, victim)
	for k, vs := range x.M.Edges {
		for _, v := range vs {
			if v.Deleted == 0 && v.DHi == 0 && (k.Src == gv || v.Target == gv) {
				relinked = true
			}
		}
	}
	if relinked {
		return
	}
	for _, n := range c12Nodes {
		for _, rel := range c12Rels {
			if l, _ := x.E.VGetLinks(ix, n, rel); contains(l, victim) || (n == victim && len(l) > 0) {
				cs.Fail("%s: VGetLinks(%s,%s)=%v still involves deleted node %s", where, n, rel, l, victim)
			}
			if l, _ := x.E.VGetIncoming(ix, n, rel); contains(l, victim) || (n == victim && len(l) > 0) {
				cs.Fail("%s: VGetIncoming(%s,%s)=%v still involves deleted node %s", where, n, rel, l, victim)
			}
			conns, err := x.E.VGetConnections(ix, n, rel)
			if err != nil {
				cs.Fail("%s: VGetConnections(%s,%s): %v", where, n, rel, err)
			}
			for _, c := range conns {
				if c.ID == victim {
					cs.Fail("%s: VGetConnections(%s,%s) hydrates deleted node %s", where, n, rel, victim)
				}
			}
		}
		for rel, l := range x.E.VGetRelations(ix, n) {
			if contains(l, victim) || (n == victim && len(l) > 0) {
				cs.Fail("%s: VGetRelations(%s)[%s]=%v involves deleted node", where, n, rel, l)
			}
		}
		for rel, l := range x.E.VGetIncomingRelations(ix, n) {
			if contains(l, victim) || (n == victim && len(l) > 0) {
				cs.Fail("%s: VGetIncomingRelations(%s)[%s]=%v involves deleted node", where, n, rel, l)
			}
		}
		if n == victim {
			continue
		}
		for _, m := range c12Nodes {
			if m == victim || m == n {
				continue
			}
			if p, err := x.E.FindPath(ix, n, m, c12Rels, 5, 0); err == nil && p != nil && contains(p.Path, victim) {
				cs.Fail("%s: FindPath(%s,%s)=%v runs through deleted node %s", where, n, m, p.Path, victim)
			}
		}
		if sg, err := x.E.VExtractSubgraph(ix, n, c12Rels, 4, 0, nil, 0); err == nil && sg != nil {
			for _, sn := range sg.Nodes {
				if sn.ID == victim {
					cs.Fail("%s: VExtractSubgraph(root=%s) contains deleted node %s", where, n, victim)
				}
			}
			for _, e := range sg.Edges {
				if e.Source == victim || e.Target == victim {
					cs.Fail("%s: VExtractSubgraph(root=%s) has edge %v touching deleted node", where, n, e)
				}
			}
		}
	}
}

func contains(l []string, s string) bool {
	for _, v := range l {
		if v == s {
			return true
		}
	}
	return false
}

func c12Build(cs *vkit.Case, x *vexec.Exec, ix string) {
	r := cs.R
	x.VCreate(vexec.IndexCfg{Name: ix, Metric: distance.Euclidean, Prec: distance.Float32, M: 4, EfC: 8})
	for i, n := range c12Nodes {
		x.VAdd(ix, n, []float32{float32(i), 1}, map[string]any{"name": n})
	}
	// the shape of the victim's neighbourhood: edges in both directions (incoming, outgoing,
	// inverse, self), only outgoing, only incoming, only a self loop, or whatever the random
	// edges give
	shape := (cs.Idx / 6) % 5
	pool := c12Nodes
	switch shape {
	case 0:
		x.VLink(ix, "a", "v", "r", "", 1, nil)
		x.VLink(ix, "v", "b", "r", "ri", 1, map[string]any{"k": "v"})
		if r.Chance(0.5) { // the same relation name in both directions
			x.VLink(ix, vkit.Pick(r, []string{"c", "d", "t::e"}), "v", "s", "s", 1, nil)
		}
		if r.Chance(0.5) {
			x.VLink(ix, "t::e", "v", "r", "", 1, nil)
			x.VLink(ix, "v", "t::e", "s", "", 1, nil)
		}
		if r.Chance(0.7) {
			x.VLink(ix, "v", "v", "s", "", 1, nil)
		}
	case 1:
		pool = c12Nodes[1:]
		x.VLink(ix, "v", "b", "r", "", 1, map[string]any{"k": "v"})
		if r.Chance(0.6) {
			x.VLink(ix, "v", vkit.Pick(r, pool), vkit.Pick(r, []string{"r", "s"}), "", 1, nil)
		}
	case 2:
		pool = c12Nodes[1:]
		x.VLink(ix, "a", "v", "r", "", 1, nil)
		if r.Chance(0.6) {
			x.VLink(ix, vkit.Pick(r, pool), "v", vkit.Pick(r, []string{"r", "s"}), "", 1, nil)
		}
	case 3:
		pool = c12Nodes[1:]
		x.VLink(ix, "v", "v", "s", "", 1, nil)
	}
	cs.Op("victim shape %d", shape)
	for i := 0; i < r.Range(3, 10); i++ {
		src, tgt := vkit.Pick(r, pool), vkit.Pick(r, pool)
		inv := ""
		if r.Chance(0.3) {
			inv = "ri"
		}
		if r.Chance(0.8) {
			x.VLink(ix, src, tgt, vkit.Pick(r, []string{"r", "s"}), inv, float32(r.Intn(2)), nil)
		} else {
			x.VUnlink(ix, src, tgt, vkit.Pick(r, []string{"r", "s"}), inv, r.Chance(0.3))
		}
	}
	if r.Chance(0.3) {
		x.SaveSnapshot()
	}
}

// C12 — deleting a node leaves no live edge to or from it.
func TestVerifC12(t *testing.T) {
	vkit.Run(t, "C12", func(ctx *vkit.Ctx) {
		modes := []string{"settled", "close_at_start", "close_at_step", "crash_journaled", "crash_step", "crash_done_then_relink"}
		ctx.Group("cascade", ctx.N(1500, 24000), func(cs *vkit.Case) {
			defer verifhook.Reset()
			mode := modes[cs.Idx%len(modes)]
			ix := "g"
			x := vexec.NewExec(cs, cs.SubDir("data"))
			defer func() {
				if x.E != nil {
					x.E.Close()
				}
			}()
			c12Build(cs, x, ix)
			if msg := x.CheckFull(); msg != "" {
				cs.Fail("before delete: %s", msg)
			}
			cs.Op("mode %s", mode)
			switch mode {
			case "settled":
				x.VDelete(ix, "v")
				if msg := x.CheckFull(); msg != "" {
					cs.Fail("after settled cascade: %s", msg)
				}
				c12Absent(cs, x, ix, "v", "after settled cascade")
				// deletion interleaved with further links among other nodes
				x.VLink(ix, "a", "c", "r", "", 1, nil)
				if cs.R.Chance(0.5) {
					x.RewriteAOF() // the compacted log carries no VDEL record: nothing repairs what it gets wrong
				}
				c01Restart(ctx, cs, x, "restart after cascade")
				c12Absent(cs, x, ix, "v", "after restart")
				// explicit re-link of the dead id is allowed and must survive
				x.VLink(ix, "d", "v", "r", "", 2, nil)
				c01Restart(ctx, cs, x, "restart after explicit re-link")

			case "close_at_start", "close_at_step":
				// hold the cascade goroutine, shut the engine down, reopen
				gate := make(chan struct{})
				var held atomic.Int32
				point := "cascade.start"
				skip := int32(0)
				if mode == "close_at_step" {
					point = "cascade.step"
					skip = int32(cs.R.Intn(3))
				}
				var steps atomic.Int32
				verifhook.Set(point, func(string, any) {
					if steps.Add(1) <= skip {
						return
					}
					if held.CompareAndSwap(0, 1) {
						<-gate
					}
				})
				lo := x.Now()
				cs.Op("VDelete(%s,v) with cascade held at %s (after %d passes)", ix, point, skip)
				base := verifhook.Hits()["cascade.done"]
				if err := x.E.VDelete(ix, "v"); err != nil {
					cs.Fail("VDelete failed: %v", err)
				}
				// wait until the goroutine is parked (or finished without reaching the gate)
				for i := 0; held.Load() == 0 && verifhook.Hits()["cascade.done"] == base; i++ {
					if i > 4000000 {
						cs.Fail("cascade goroutine neither reached %s nor finished", point)
					}
					runtime.Gosched()
					time.Sleep(5 * time.Microsecond)
				}
				ctx.Count("held."+mode, int64(held.Load()))
				var wg sync.WaitGroup
				wg.Add(1)
				var cerr error
				go func() { defer wg.Done(); cerr = x.CloseRaw() }()
				time.Sleep(time.Duration(cs.R.Range(0, 300)) * time.Microsecond)
				close(gate) // Close waits for the goroutine; let it observe the cancelled context
				wg.Wait()
				verifhook.Reset()
				if cerr != nil {
					cs.Fail("Close during cascade returned error: %v", cerr)
				}
				x.Reopen()
				hi := x.Now()
				x.M.DeleteWithCascade(ix, "v", lo, hi)
				if msg := x.CheckFull(); msg != "" {
					cs.Fail("after shutdown during cascade + reopen: %s", msg)
				}
				c12Absent(cs, x, ix, "v", "after shutdown during cascade + reopen")
				c01Restart(ctx, cs, x, "second restart (repair must be stable)")
				c12Absent(cs, x, ix, "v", "after second restart")

			case "crash_journaled", "crash_step", "crash_done_then_relink":
				point := map[string]string{"crash_journaled": "op.VDelete.journaled", "crash_step": "cascade.step", "crash_done_then_relink": "cascade.done"}[mode]
				img := cs.SubDir("img")
				pre := x.M.Clone()
				var took atomic.Int32
				skip := int32(0)
				if mode == "crash_step" {
					skip = int32(cs.R.Intn(3))
				}
				var passes atomic.Int32
				imgDone := make(chan struct{})
				verifhook.Set(point, func(string, any) {
					if passes.Add(1) <= skip {
						return
					}
					if took.CompareAndSwap(0, 1) {
						defer close(imgDone)
						x.E.AOF.Flush()
						if err := vexec.ImageDir(x.Dir, img); err != nil {
							panic(err)
						}
					}
				})
				lo := x.Now()
				x.VDelete(ix, "v") // settles in the live engine
				// The hit counter that Settle watches moves BEFORE the handler runs. Handlers at
				// points inside the cascade have returned by the time cascade.done is counted
				// (same goroutine), but the cascade.done handler itself may not even have
				// started: that point is always reached, so wait for its image unconditionally.
				if took.Load() == 1 || point == "cascade.done" {
					select {
					case <-imgDone:
					case <-time.After(60 * time.Second):
						ctx.Inconclusive("image handler at " + point + " did not complete")
						return
					}
				}
				verifhook.Reset()
				if took.Load() == 0 {
					ctx.Count("image_not_taken."+mode, 1)
					break
				}
				// evaluate the crash image against the history as of the crash
				y := vexec.OpenOn(cs, img, pre)
				defer func() {
					if y.E != nil {
						y.E.Close()
					}
				}()
				if _, err := y.E.VGet(ix, "v"); err == nil {
					// the VDEL did not reach the image: the node is simply not deleted there
					ctx.Count("vdel_not_in_image", 1)
					break
				}
				hi := y.Now()
				y.M.DeleteWithCascade(ix, "v", lo, hi)
				if msg := y.CheckFull(); msg != "" {
					cs.Fail("crash image at %s: %s", point, msg)
				}
				c12Absent(cs, y, ix, "v", "crash image at "+point)
				ctx.Count("crash_images_checked", 1)
				if mode == "crash_done_then_relink" {
					y.VLink(ix, "c", "v", "s", "", 1, nil)
					y.VAdd(ix, "v", []float32{9, 9}, nil)
				}
				c01Restart(ctx, cs, y, "restart of recovered image (fixed point)")
				if mode != "crash_done_then_relink" {
					c12Absent(cs, y, ix, "v", "recovered image after restart")
				}
				y.Close()
				os.RemoveAll(img)
			}
			ctx.Eval(1)
			ctx.Count("mode."+mode, 1)
			ctx.Distinct(fmt.Sprintf("%s|shape%d|%s", mode, (cs.Idx/6)%5, x.KindKey()))
			ctx.Sample("case", 3, map[string]any{"mode": mode, "ops": cs.Ops()})
		})
	})
}

package engine_test

import (
	"fmt"
	"os"
	"runtime"
	"strings"
	"sync"
	"sync/atomic"
	"testing"
	"time"

	"github.com/sanonone/kektordb/internal/zzverif/vexec"
	"github.com/sanonone/kektordb/internal/zzverif/vkit"
	"github.com/sanonone/kektordb/pkg/core/distance"
	"github.com/sanonone/kektordb/pkg/core/hnsw"
	"github.com/sanonone/kektordb/pkg/engine"
	"github.com/sanonone/kektordb/pkg/verifhook"
)

var c12Nodes = []string{"v", "a", "b", "c", "d", "t::e"} // "t::e": ids may contain the separator of graph ids (the product creates session::<n>, _profile::<user> itself)
var c12Rels = []string{"r", "s", "ri"}
var c12Paths = []string{"r", "s", "ri", "r.s", "s.r", "ri.r", "r.r"}

// c12Ghost is a graph-only neighbour of the victim: it is linked but never added as a vector.
// It only ever points AT the victim or is pointed at BY the victim (an edge other -> ghost
// would be "repaired" away by VGetConnections' self-repair, which this check calls).
const c12Ghost = "ghost"

// c12WalkHas reports whether a traversal result tree names `victim` anywhere.
func c12WalkHas(conns map[string][]engine.GraphNode, victim string) bool {
	for _, l := range conns {
		for _, n := range l {
			if n.ID == victim || c12WalkHas(n.Connections, victim) {
				return true
			}
		}
	}
	return false
}

// c12Absent checks every current graph query for traces of the deleted node `victim`
// and that paths / subgraphs / hydration never route through it. Equality of all remaining
// edges with the model is checked separately by CheckFull.
//
// It must only be called when the cascade has settled (or recovery completed it): it calls
// VGetConnections, whose self-repair un-links dangling edges in the background. For the same
// reason it returns early while the history holds an explicit re-link of the dead id (the
// property allows that edge; hydrating its source would start a self-repair that removes the
// re-link asynchronously and make the model comparison nondeterministic).
func c12Absent(cs *vkit.Case, x *vexec.Exec, ix, victim, where string) {
	relinked := false // the victim may appear again only through edges the history added after the delete
	gv := vexec.GraphID(ix, victim)
	for k, vs := range x.M.Edges {
		for _, v := range vs {
			if v.Deleted == 0 && v.DHi == 0 && (k.Src == gv || v.Target == gv) {
				relinked = true
			}
		}
	}
	if relinked {
		return
	}
	readded := x.M.Idx[ix] != nil && x.M.Idx[ix].Recs[victim] != nil
	nodes := append(append([]string{}, c12Nodes...), c12Ghost)
	for _, n := range nodes {
		for _, rel := range c12Rels {
			// clause "no current graph query returns the deleted node as a neighbour, source or target"
			if l, _ := x.E.VGetLinks(ix, n, rel); contains(l, victim) || (n == victim && len(l) > 0) {
				cs.Fail("%s: VGetLinks(%s,%s)=%v still involves deleted node %s", where, n, rel, l, victim)
			}
			if l, _ := x.E.VGetIncoming(ix, n, rel); contains(l, victim) || (n == victim && len(l) > 0) {
				cs.Fail("%s: VGetIncoming(%s,%s)=%v still involves deleted node %s", where, n, rel, l, victim)
			}
			if n == c12Ghost {
				continue
			}
			// clause "connection hydration never returns it"
			conns, err := x.E.VGetConnections(ix, n, rel)
			if err != nil {
				cs.Fail("%s: VGetConnections(%s,%s): %v", where, n, rel, err)
			}
			for _, c := range conns {
				if c.ID == victim {
					cs.Fail("%s: VGetConnections(%s,%s) hydrates deleted node %s", where, n, rel, victim)
				}
			}
		}
		for rel, l := range x.E.VGetRelations(ix, n) {
			if contains(l, victim) || (n == victim && len(l) > 0) {
				cs.Fail("%s: VGetRelations(%s)[%s]=%v involves deleted node", where, n, rel, l)
			}
		}
		for rel, l := range x.E.VGetIncomingRelations(ix, n) {
			if contains(l, victim) || (n == victim && len(l) > 0) {
				cs.Fail("%s: VGetIncomingRelations(%s)[%s]=%v involves deleted node", where, n, rel, l)
			}
		}
		if n == victim {
			// clause "no ... subgraph runs through it": the neighbourhood of the dead node is empty
			if sg, err := x.E.VExtractSubgraph(ix, n, c12Rels, 4, 0, nil, 0); err == nil && sg != nil {
				if len(sg.Edges) > 0 {
					cs.Fail("%s: VExtractSubgraph(root=%s, the deleted node) has edges %v", where, n, sg.Edges)
				}
				for _, sn := range sg.Nodes {
					if sn.ID != victim {
						cs.Fail("%s: VExtractSubgraph(root=%s, the deleted node) reaches %s", where, n, sn.ID)
					}
				}
			}
			continue
		}
		// clause "no path ... runs through it": neither as an inner node nor as an end point
		// (a path of length >= 1 to / from the node needs a live edge to / from it)
		for _, m := range nodes {
			if m == n {
				continue
			}
			p, err := x.E.FindPath(ix, n, m, c12Rels, 5, 0)
			if err != nil || p == nil {
				continue
			}
			if m == victim {
				cs.Fail("%s: FindPath(%s,%s)=%v reaches the deleted node", where, n, m, p.Path)
			}
			if contains(p.Path, victim) {
				cs.Fail("%s: FindPath(%s,%s)=%v runs through deleted node %s", where, n, m, p.Path, victim)
			}
		}
		if p, err := x.E.FindPath(ix, victim, n, c12Rels, 5, 0); err == nil && p != nil {
			cs.Fail("%s: FindPath(%s,%s)=%v starts at the deleted node", where, victim, n, p.Path)
		}
		if sg, err := x.E.VExtractSubgraph(ix, n, c12Rels, 4, 0, nil, 0); err == nil && sg != nil {
			for _, sn := range sg.Nodes {
				if sn.ID == victim {
					cs.Fail("%s: VExtractSubgraph(root=%s) contains deleted node %s", where, n, victim)
				}
			}
			for _, e := range sg.Edges {
				if e.Source == victim || e.Target == victim {
					cs.Fail("%s: VExtractSubgraph(root=%s) has edge %v touching deleted node", where, n, e)
				}
			}
		}
		if n == c12Ghost {
			continue
		}
		// the other neighbour-returning reads ("no current graph query returns the deleted node
		// as a neighbour"): relation-path traversal (hydrating) and the graph-restricted search
		if gn, err := x.E.VTraverse(ix, n, c12Paths); err == nil && gn != nil && c12WalkHas(gn.Connections, victim) {
			cs.Fail("%s: VTraverse(%s) returns deleted node %s among the connections", where, n, victim)
		}
		if !readded {
			gq := &engine.GraphQuery{RootID: n, Relations: c12Rels, Direction: "both", MaxDepth: 3}
			if ids, err := x.E.VSearch(ix, []float32{1, 1}, 8, "", "", 0, 1.0, gq); err == nil && contains(ids, victim) {
				cs.Fail("%s: VSearch restricted to the graph neighbourhood of %s returns deleted node %s", where, n, victim)
			}
		}
	}
	for _, hydrate := range []bool{false, true} {
		res, err := x.E.VSearchGraph(ix, []float32{1, 1}, 8, "", "", 0, 1.0, c12Paths, hydrate, nil)
		if err != nil {
			continue
		}
		for _, r := range res {
			if r.ID != victim && c12WalkHas(r.Node.Connections, victim) {
				cs.Fail("%s: VSearchGraph(hydrate=%v) result %s lists deleted node %s among its connections", where, hydrate, r.ID, victim)
			}
		}
	}
}

func contains(l []string, s string) bool {
	for _, v := range l {
		if v == s {
			return true
		}
	}
	return false
}

// c12Build creates the index, the six vector nodes (in random order, so that the victim is
// not always the first internal id) and the edges around the victim "v".
func c12Build(cs *vkit.Case, x *vexec.Exec, ix string, shape int) {
	r := cs.R
	x.VCreate(vexec.IndexCfg{Name: ix, Metric: distance.Euclidean, Prec: distance.Float32, M: 4, EfC: 8})
	for _, i := range r.Perm(len(c12Nodes)) {
		x.VAdd(ix, c12Nodes[i], []float32{float32(i), 1}, map[string]any{"name": c12Nodes[i]})
	}
	// the shape of the victim's neighbourhood: edges in both directions (incoming, outgoing,
	// inverse, self), only outgoing, only incoming, only a self loop, or whatever the random
	// edges give
	pool := c12Nodes
	switch shape {
	case 0:
		x.VLink(ix, "a", "v", "r", "", 1, nil)
		x.VLink(ix, "v", "b", "r", "ri", 1, map[string]any{"k": "v"})
		if r.Chance(0.5) { // the same relation name in both directions
			x.VLink(ix, vkit.Pick(r, []string{"c", "d", "t::e"}), "v", "s", "s", 1, nil)
		}
		if r.Chance(0.5) {
			x.VLink(ix, "t::e", "v", "r", "", 1, nil)
			x.VLink(ix, "v", "t::e", "s", "", 1, nil)
		}
		if r.Chance(0.7) {
			x.VLink(ix, "v", "v", "s", "", 1, nil)
		}
		if r.Chance(0.3) { // a neighbour that exists in the graph only
			x.VLink(ix, c12Ghost, "v", "r", "", 1, nil)
			x.VLink(ix, "v", c12Ghost, "s", "", 1, nil)
		}
	case 1:
		pool = c12Nodes[1:]
		x.VLink(ix, "v", "b", "r", "", 1, map[string]any{"k": "v"})
		if r.Chance(0.6) {
			x.VLink(ix, "v", vkit.Pick(r, pool), vkit.Pick(r, []string{"r", "s"}), "", 1, nil)
		}
	case 2:
		pool = c12Nodes[1:]
		x.VLink(ix, "a", "v", "r", "", 1, nil)
		if r.Chance(0.6) {
			x.VLink(ix, vkit.Pick(r, pool), "v", vkit.Pick(r, []string{"r", "s"}), "", 1, nil)
		}
	case 3:
		pool = c12Nodes[1:]
		x.VLink(ix, "v", "v", "s", "", 1, nil)
	}
	cs.Op("victim shape %d", shape)
	for i := 0; i < r.Range(3, 10); i++ {
		src, tgt := vkit.Pick(r, pool), vkit.Pick(r, pool)
		inv := ""
		if r.Chance(0.3) {
			inv = "ri"
		}
		if r.Chance(0.8) {
			x.VLink(ix, src, tgt, vkit.Pick(r, []string{"r", "s"}), inv, float32(r.Intn(2)), nil)
		} else {
			x.VUnlink(ix, src, tgt, vkit.Pick(r, []string{"r", "s"}), inv, r.Chance(0.3))
		}
	}
	if r.Chance(0.2) {
		// a second index with the same ids: its edges are "edges among other nodes"
		h := ix + "2"
		x.VCreate(vexec.IndexCfg{Name: h, Metric: distance.Euclidean, Prec: distance.Float32, M: 4, EfC: 8})
		x.VAdd(h, "v", []float32{0, 1}, nil)
		x.VAdd(h, "a", []float32{1, 1}, nil)
		x.VLink(h, "a", "v", "r", "ri", 1, nil)
		x.VLink(h, "v", "v", "s", "", 1, nil)
	}
	if r.Chance(0.3) {
		x.SaveSnapshot()
	}
}

type c12Edge struct{ src, tgt, rel string } // node ids (not graph ids)

// c12Incident lists the model's active edges into or out of node `id`.
func c12Incident(x *vexec.Exec, ix, id string) []c12Edge {
	g := vexec.GraphID(ix, id)
	var out []c12Edge
	for _, k := range sortedEdgeKeys(x.M) {
		for _, v := range x.M.Edges[k] {
			if v.Deleted == 0 && v.DHi == 0 && (k.Src == g || v.Target == g) && strings.HasPrefix(k.Src, ix+"::") {
				out = append(out, c12Edge{vexec.NodeOf(k.Src), vexec.NodeOf(v.Target), k.Rel})
			}
		}
	}
	return out
}

func sortedEdgeKeys(m *vexec.Model) []vexec.EdgeKey {
	keys := make([]vexec.EdgeKey, 0, len(m.Edges))
	for k := range m.Edges {
		keys = append(keys, k)
	}
	for i := 1; i < len(keys); i++ { // insertion sort: a handful of keys
		for j := i; j > 0 && (keys[j].Src < keys[j-1].Src || (keys[j].Src == keys[j-1].Src && keys[j].Rel < keys[j-1].Rel)); j-- {
			keys[j], keys[j-1] = keys[j-1], keys[j]
		}
	}
	return keys
}

// c12Gate parks the cascade goroutine at hook point `point` once it has passed it `skip`
// times. wait() blocks until it is parked or some cascade finished without reaching the
// gate; release() lets it go on.
type c12Gate struct {
	gate  chan struct{}
	held  atomic.Int32
	steps atomic.Int32
	base  int64
	once  sync.Once
}

func c12Hold(point string, skip int32) *c12Gate {
	g := &c12Gate{gate: make(chan struct{}), base: verifhook.Hits()["cascade.done"]}
	verifhook.Set(point, func(string, any) {
		if g.steps.Add(1) <= skip {
			return
		}
		if g.held.CompareAndSwap(0, 1) {
			<-g.gate
		}
	})
	return g
}

func (g *c12Gate) wait(cs *vkit.Case, point string) bool {
	for i := 0; g.held.Load() == 0; i++ {
		if i%32 == 0 && verifhook.Hits()["cascade.done"] != g.base {
			break
		}
		if i > 4000000 {
			cs.Fail("cascade goroutine neither reached %s nor finished", point)
		}
		runtime.Gosched()
		time.Sleep(5 * time.Microsecond)
	}
	return g.held.Load() == 1
}

func (g *c12Gate) release() { g.once.Do(func() { close(g.gate) }) }

// c12AwaitCascades waits until n cascade goroutines have finished since `base`.
func c12AwaitCascades(ctx *vkit.Ctx, cs *vkit.Case, base int64, n int64) {
	for i := 0; verifhook.Hits()["cascade.done"]-base < n; i++ {
		if i > 4000000 {
			cs.Attach("goroutines", strings.Split(vkit.DumpGoroutines(), "\n"))
			cs.Fail("delete cascade did not finish (%d of %d)", verifhook.Hits()["cascade.done"]-base, n)
		}
		if i%1000 == 0 {
			ctx.Touch()
		}
		time.Sleep(20 * time.Microsecond)
	}
}

// c12InFlight issues operations while the cascade of "v" is parked ("deletion interleaved with
// further link operations"). Every write has an exact model: link / unlink among nodes other
// than the victim; a user's own unlink of an edge of the victim that the cascade has not
// reached yet (only when the cascade is parked at its start); a second VDelete of a neighbour
// (overlapping cascades). Reads: connection hydration of every source, which finds the dangling
// links and starts the lazy self-repair. It returns the second victim ("" if none) and the
// lower end of its bracket.
func c12InFlight(ctx *vkit.Ctx, cs *vkit.Case, x *vexec.Exec, ix string, atStart bool) (string, int64) {
	r := cs.R
	others := c12Nodes[1:]
	for i := r.Intn(3); i > 0; i-- {
		src, tgt := vkit.Pick(r, others), vkit.Pick(r, others)
		inv := ""
		if r.Chance(0.3) {
			inv = "ri"
		}
		if r.Chance(0.7) {
			x.VLink(ix, src, tgt, vkit.Pick(r, []string{"r", "s"}), inv, float32(r.Intn(3)), nil)
		} else {
			x.VUnlink(ix, src, tgt, vkit.Pick(r, []string{"r", "s"}), inv, r.Chance(0.3))
		}
		ctx.Count("inflight.link_ops", 1)
	}
	if inc := c12Incident(x, ix, "v"); atStart && len(inc) > 0 && r.Chance(0.4) {
		// nothing is unlinked yet: the user's stamp is the one that must stay
		e := vkit.Pick(r, inc)
		x.VUnlink(ix, e.src, e.tgt, e.rel, "", r.Chance(0.25))
		ctx.Count("inflight.user_unlink_of_victim_edge", 1)
	}
	if r.Chance(0.6) {
		// Hydration while links to the dead node still stand: the dead-link branch of
		// VGetConnections (lazy self-repair). No verdict here (the property speaks about the
		// settled state); what the repair does to the graph is judged after the settle: only
		// the dangling edge may go, softly, with a stamp inside the bracket.
		var dangling []c12Edge
		for _, e := range c12Incident(x, ix, "v") {
			if e.tgt == "v" && e.src != "v" && e.src != c12Ghost {
				dangling = append(dangling, e)
			}
		}
		for _, n := range others {
			for _, rel := range c12Rels {
				x.E.VGetConnections(ix, n, rel)
			}
		}
		ctx.Count("inflight.hydrations_with_dangling_link", int64(len(dangling)))
		if len(dangling) > 0 && r.Chance(0.5) {
			// let the self-repair get there first (otherwise it races with the cascade)
			seen := 0
			for _, e := range dangling {
				for i := 0; i < 200000; i++ {
					if l, _ := x.E.VGetLinks(ix, e.src, e.rel); !contains(l, "v") {
						seen++
						break
					}
					runtime.Gosched()
				}
			}
			ctx.Count("inflight.selfrepair_observed", int64(seen))
			ctx.Count("inflight.selfrepair_not_observed", int64(len(dangling)-seen))
		}
	}
	if r.Chance(0.3) {
		w := vkit.Pick(r, []string{"a", "b"})
		lo := x.Now()
		cs.Op("VDelete(%s,%s) while the cascade of v is parked", ix, w)
		if err := x.E.VDelete(ix, w); err != nil {
			cs.Fail("VDelete(%s,%s) failed: %v", ix, w, err)
		}
		ctx.Count("inflight.second_victim", 1)
		return w, lo
	}
	return "", 0
}

// c12Repaired counts the cascade-unlinked versions that were stamped at or after t (i.e. by
// recovery, not by the goroutine that was cut short). Evidence only.
func c12Repaired(x *vexec.Exec, t int64) int64 {
	var n int64
	for _, vs := range x.M.Edges {
		for _, v := range vs {
			if v.Casc && v.Deleted >= t {
				n++
			}
		}
	}
	return n
}

// c12AdminRaw runs a snapshot / compaction WITHOUT waiting for cascades (the Exec wrappers
// settle first). It returns false when the operation had not completed after `patience`: an
// implementation may make the admin operation wait for the cascade in flight; the caller then
// releases the cascade and collects the result from the channel. (The patience only selects
// which of two legal schedules is exercised, never a verdict.)
func c12AdminRaw(cs *vkit.Case, x *vexec.Exec, admin string, patience time.Duration) (chan error, bool) {
	cs.Op("%s while the cascade is in flight", admin)
	done := make(chan error, 1)
	e := x.E
	go func() {
		if admin == "snapshot" {
			done <- e.SaveSnapshot()
		} else {
			done <- e.RewriteAOF()
		}
	}()
	select {
	case err := <-done:
		done <- err
		return done, true
	case <-time.After(patience):
		return done, false
	}
}

// c12AdminInFlight: the fixed scenario of D-C12-1. A snapshot / compaction taken while the
// delete cascade is in flight drops the VDEL record from the log; the process then stops
// (orderly Close, or crash image) before the cascade has journaled its unlinks.
func c12AdminInFlight(cs *vkit.Case, admin, stop string) string {
	defer verifhook.Reset()
	ix := "g"
	x := vexec.NewExec(cs, cs.SubDir("data-"+admin+"-"+stop))
	defer func() {
		if x.E != nil {
			x.E.Close()
		}
	}()
	x.VCreate(vexec.IndexCfg{Name: ix, Metric: distance.Euclidean, Prec: distance.Float32, M: 4, EfC: 8})
	for i, n := range []string{"a", "v", "b"} {
		x.VAdd(ix, n, []float32{float32(i), 1}, nil)
	}
	x.VLink(ix, "a", "v", "r", "", 1, nil)
	x.VLink(ix, "v", "b", "r", "", 1, nil)
	x.VLink(ix, "a", "b", "s", "", 1, nil)
	if msg := x.CheckFull(); msg != "" {
		return "before delete: " + msg
	}
	base := verifhook.Hits()["cascade.done"]
	g := c12Hold("cascade.start", 0)
	defer g.release()
	lo := x.Now()
	cs.Op("VDelete(%s,v) with the cascade held at its start", ix)
	if err := x.E.VDelete(ix, "v"); err != nil {
		return "VDelete: " + err.Error()
	}
	if !g.wait(cs, "cascade.start") {
		return "harness: cascade was not held"
	}
	done, finished := c12AdminRaw(cs, x, admin, 300*time.Millisecond)
	if !finished {
		g.release() // the admin operation waits for the cascade: let both complete
	}
	if err := <-done; err != nil {
		return admin + ": " + err.Error()
	}
	y := x
	if stop == "close" {
		cl := make(chan error, 1)
		go func() { cl <- x.CloseRaw() }()
		time.Sleep(200 * time.Microsecond)
		g.release()
		if err := <-cl; err != nil {
			return "Close: " + err.Error()
		}
		verifhook.Reset()
		x.Reopen()
	} else {
		img := cs.SubDir("img-" + admin)
		x.E.AOF.Flush()
		if err := vexec.ImageDir(x.Dir, img); err != nil {
			return "harness: image: " + err.Error()
		}
		g.release()
		c12AwaitCascades(cs.C, cs, base, 1)
		verifhook.Reset()
		y = vexec.OpenOn(cs, img, x.M.Clone())
		defer func() {
			if y.E != nil {
				y.E.Close()
			}
		}()
	}
	hi := y.Now()
	y.M.DeleteWithCascade(ix, "v", lo, hi)
	if l, _ := y.E.VGetLinks(ix, "a", "r"); contains(l, "v") {
		return fmt.Sprintf("%s during the cascade, then %s, reopen: VGetLinks(a,r)=%v still names the deleted node v", admin, stop, l)
	}
	if msg := y.CheckFull(); msg != "" {
		return fmt.Sprintf("%s during the cascade, then %s, reopen: %s", admin, stop, msg)
	}
	return ""
}

// C12 — deleting a node leaves no live edge to or from it.
func TestVerifC12(t *testing.T) {
	vkit.Run(t, "C12", func(ctx *vkit.Ctx) {
		ctx.Probe("D-C12-1", func(cs *vkit.Case) string {
			var msgs []string
			for _, admin := range []string{"snapshot", "rewrite"} {
				for _, stop := range []string{"close", "crash"} {
					if m := c12AdminInFlight(cs, admin, stop); m != "" {
						msgs = append(msgs, m)
					}
				}
			}
			return strings.Join(msgs, " || ")
		})
		modes := []string{"settled", "close_at_start", "close_at_step", "crash_journaled", "crash_step", "crash_done_then_relink", "inflight_settle", "admin_in_flight"}
		ctx.Group("cascade", ctx.N(1600, 25600), func(cs *vkit.Case) {
			defer verifhook.Reset()
			mode := modes[cs.Idx%len(modes)]
			shape := (cs.Idx / len(modes)) % 5
			// the index name moves every graph id to other shards of the graph store
			ix := "g" + string(rune('a'+cs.R.Intn(8)))
			x := vexec.NewExec(cs, cs.SubDir("data"))
			defer func() {
				if x.E != nil {
					x.E.Close()
				}
			}()
			c12Build(cs, x, ix, shape)
			if msg := x.CheckFull(); msg != "" {
				cs.Fail("before delete: %s", msg)
			}
			nInc := len(c12Incident(x, ix, "v"))
			cs.Op("mode %s (%d edges at the victim)", mode, nInc)
			// an admin operation between recovery and the next restart (the log is rebuilt from
			// the repaired state)
			adminAfter := func(y *vexec.Exec) {
				switch cs.R.Intn(4) {
				case 0:
					y.RewriteAOF()
				case 1:
					y.SaveSnapshot()
				}
			}
			// anyStep: a pass count anywhere in the cascade (incoming steps, the boundary to the
			// outgoing ones, the last step)
			anyStep := func() int32 {
				if nInc <= 1 {
					return 0
				}
				return int32(cs.R.Intn(nInc))
			}
			switch mode {
			case "settled":
				x.VDelete(ix, "v")
				if msg := x.CheckFull(); msg != "" {
					cs.Fail("after settled cascade: %s", msg)
				}
				c12Absent(cs, x, ix, "v", "after settled cascade")
				// deletion interleaved with further links among other nodes
				x.VLink(ix, "a", "c", "r", "", 1, nil)
				switch cs.R.Intn(4) {
				case 0:
					x.RewriteAOF() // the compacted log carries no VDEL record: nothing repairs what it gets wrong
				case 1:
					x.SaveSnapshot() // nor does the truncated one
				case 2:
					mc := hnsw.DefaultMaintenanceConfig()
					mc.GraphRetention = 1
					x.VUpdateIndexConfig(ix, mc)
					x.GraphVacuumNow() // prunes the unlinked versions (and the edge-less node) before the old records are replayed
				}
				c01Restart(ctx, cs, x, "restart after cascade")
				c12Absent(cs, x, ix, "v", "after restart")
				// explicit re-link of the dead id is allowed and must survive
				x.VLink(ix, "d", "v", "r", "", 2, nil)
				c01Restart(ctx, cs, x, "restart after explicit re-link")
				// LAST step of the case (it starts a self-repair that removes the re-link):
				// "connection hydration never returns it", also when the id is linked again
				conns, err := x.E.VGetConnections(ix, "d", "r")
				if err != nil {
					cs.Fail("VGetConnections(d,r) with a link to the deleted id: %v", err)
				}
				for _, c := range conns {
					if c.ID == "v" {
						cs.Fail("VGetConnections(d,r) hydrates the deleted node v (re-linked as a bare id): %v", c)
					}
				}
				ctx.Count("hydration_over_relinked_dead_id", 1)

			case "close_at_start", "close_at_step", "inflight_settle":
				// hold the cascade goroutine; optionally run operations meanwhile; then either
				// shut the engine down and reopen, or let the cascade finish
				point := "cascade.start"
				skip := int32(0)
				if mode == "close_at_step" || (mode == "inflight_settle" && cs.R.Chance(0.5)) {
					point = "cascade.step"
					skip = anyStep()
				}
				base := verifhook.Hits()["cascade.done"]
				g := c12Hold(point, skip)
				defer g.release()
				lo := x.Now()
				cs.Op("VDelete(%s,v) with cascade held at %s (after %d passes)", ix, point, skip)
				if err := x.E.VDelete(ix, "v"); err != nil {
					cs.Fail("VDelete failed: %v", err)
				}
				held := g.wait(cs, point) // parked, or finished without reaching the gate
				ctx.Count("held."+mode, int64(g.held.Load()))
				w, loW := "", int64(0)
				if held && (mode == "inflight_settle" || cs.R.Chance(0.5)) {
					w, loW = c12InFlight(ctx, cs, x, ix, point == "cascade.start")
				}
				var loR int64
				if mode == "inflight_settle" {
					g.release()
					n := int64(1)
					if w != "" {
						n = 2
					}
					c12AwaitCascades(ctx, cs, base, n)
					verifhook.Reset()
					x.ForeignCascades(n) // started behind the executor's back
					loR = 1 << 62
				} else {
					var wg sync.WaitGroup
					wg.Add(1)
					var cerr error
					go func() { defer wg.Done(); cerr = x.CloseRaw() }()
					time.Sleep(time.Duration(cs.R.Range(0, 300)) * time.Microsecond)
					g.release() // Close waits for the goroutine; let it observe the cancelled context
					wg.Wait()
					verifhook.Reset()
					if cerr != nil {
						cs.Fail("Close during cascade returned error: %v", cerr)
					}
					loR = x.Now()
					x.Reopen()
				}
				hi := x.Now()
				x.M.DeleteWithCascade(ix, "v", lo, hi)
				if w != "" {
					x.M.DeleteWithCascade(ix, w, loW, hi)
				}
				where := "after shutdown during cascade + reopen"
				if mode == "inflight_settle" {
					where = "after operations during the cascade, settled"
				}
				if msg := x.CheckFull(); msg != "" {
					cs.Fail("%s: %s", where, msg)
				}
				c12Absent(cs, x, ix, "v", where)
				if w != "" {
					c12Absent(cs, x, ix, w, where+" (second victim)")
				}
				if n := c12Repaired(x, loR); n > 0 {
					ctx.Count("cut_short."+mode, 1)
					ctx.Count("edges_repaired_by_recovery", n)
				}
				adminAfter(x)
				c01Restart(ctx, cs, x, "second restart (repair must be stable)")
				c12Absent(cs, x, ix, "v", "after second restart")
				if w != "" {
					c12Absent(cs, x, ix, w, "after second restart (second victim)")
				}

			case "admin_in_flight":
				// A snapshot / compaction while the cascade is parked, then stop. While D-C12-1 is
				// open the admin operation is issued after the cascade has finished instead
				// (restart from a snapshot / compacted log taken after the delete).
				known := ctx.IsKnown("D-C12-1")
				admin := vkit.Pick(cs.R, []string{"snapshot", "rewrite"})
				stop := vkit.Pick(cs.R, []string{"close", "crash"})
				point := "cascade.start"
				skip := int32(0)
				if cs.R.Chance(0.5) {
					point = "cascade.step"
					skip = anyStep()
				}
				base := verifhook.Hits()["cascade.done"]
				g := c12Hold(point, skip)
				defer g.release()
				lo := x.Now()
				cs.Op("VDelete(%s,v) with cascade held at %s (after %d passes); then %s, then %s", ix, point, skip, admin, stop)
				if err := x.E.VDelete(ix, "v"); err != nil {
					cs.Fail("VDelete failed: %v", err)
				}
				held := g.wait(cs, point)
				settled := false
				settle := func() {
					if !settled {
						settled = true
						g.release()
						c12AwaitCascades(ctx, cs, base, 1)
						x.ForeignCascades(1)
					}
				}
				if known || !held {
					settle()
				}
				done, finished := c12AdminRaw(cs, x, admin, 100*time.Millisecond)
				closedEarly := false
				if !finished {
					ctx.Count("admin_waited_for_cascade", 1)
					if stop == "close" && held && cs.R.Chance(0.5) {
						// The shutdown arrives while the snapshot / compaction still waits behind
						// the parked cascade: Close cuts the cascade short, and whatever the waiting
						// operation then does (give up, or complete), the VDEL record must not be
						// dropped from the log before the unlinks are in it.
						closedEarly = true
						cs.Op("Close while %s waits behind the parked cascade", admin)
						cl := make(chan error, 1)
						go func() { cl <- x.CloseRaw() }()
						time.Sleep(time.Duration(cs.R.Range(0, 300)) * time.Microsecond)
						g.release()
						adminErr := <-done
						if err := <-cl; err != nil {
							cs.Fail("Close while %s waited for the cascade returned error: %v", admin, err)
						}
						if adminErr != nil {
							ctx.Count("close_while_admin_waits.admin_gave_up", 1)
						} else {
							ctx.Count("close_while_admin_waits.admin_completed", 1)
						}
					} else {
						settle()
					}
				}
				if !closedEarly {
					if err := <-done; err != nil {
						cs.Fail("%s during the cascade: %v", admin, err)
					}
				}
				if !settled && !closedEarly {
					ctx.Count("admin_completed_with_cascade_parked."+admin+"."+stop, 1)
				}
				y := x
				var loR int64
				if closedEarly {
					verifhook.Reset()
					loR = x.Now()
					x.Reopen()
				} else if stop == "close" {
					cl := make(chan error, 1)
					go func() { cl <- x.CloseRaw() }()
					time.Sleep(time.Duration(cs.R.Range(0, 300)) * time.Microsecond)
					g.release()
					if err := <-cl; err != nil {
						cs.Fail("Close after %s during cascade returned error: %v", admin, err)
					}
					verifhook.Reset()
					loR = x.Now()
					x.Reopen()
				} else {
					img := cs.SubDir("img")
					x.E.AOF.Flush()
					if err := vexec.ImageDir(x.Dir, img); err != nil {
						ctx.Inconclusive("crash image could not be taken: " + err.Error())
						return
					}
					settle()
					verifhook.Reset()
					loR = x.Now()
					y = vexec.OpenOn(cs, img, x.M.Clone())
					defer func() {
						if y.E != nil {
							y.E.Close()
						}
					}()
				}
				hi := y.Now()
				y.M.DeleteWithCascade(ix, "v", lo, hi)
				where := fmt.Sprintf("%s during the cascade, %s, reopen", admin, stop)
				if msg := y.CheckFull(); msg != "" {
					cs.Fail("%s: %s", where, msg)
				}
				c12Absent(cs, y, ix, "v", where)
				if n := c12Repaired(y, loR); n > 0 {
					ctx.Count("cut_short."+mode, 1)
					ctx.Count("edges_repaired_by_recovery", n)
				}
				c01Restart(ctx, cs, y, "restart after "+where)
				c12Absent(cs, y, ix, "v", "second restart after "+where)
				if y != x {
					y.Close()
				}

			case "crash_journaled", "crash_step", "crash_done_then_relink":
				point := map[string]string{"crash_journaled": "op.VDelete.journaled", "crash_step": "cascade.step", "crash_done_then_relink": "cascade.done"}[mode]
				img := cs.SubDir("img")
				pre := x.M.Clone()
				var took atomic.Int32
				skip := int32(0)
				if mode == "crash_step" {
					skip = anyStep()
				}
				var passes atomic.Int32
				imgDone := make(chan struct{})
				var imgErr error
				verifhook.Set(point, func(string, any) {
					if passes.Add(1) <= skip {
						return
					}
					if took.CompareAndSwap(0, 1) {
						defer close(imgDone)
						x.E.AOF.Flush()
						imgErr = vexec.ImageDir(x.Dir, img)
					}
				})
				lo := x.Now()
				x.VDelete(ix, "v") // settles in the live engine
				// The hit counter that Settle watches moves BEFORE the handler runs. Handlers at
				// points inside the cascade have returned by the time cascade.done is counted
				// (same goroutine), but the cascade.done handler itself may not even have
				// started: that point is always reached, so wait for its image unconditionally.
				if took.Load() == 1 || point == "cascade.done" {
					select {
					case <-imgDone:
					case <-time.After(60 * time.Second):
						ctx.Inconclusive("image handler at " + point + " did not complete")
						return
					}
				}
				verifhook.Reset()
				if took.Load() == 0 {
					ctx.Count("image_not_taken."+mode, 1)
					break
				}
				if imgErr != nil {
					ctx.Inconclusive("crash image could not be taken: " + imgErr.Error())
					return
				}
				// evaluate the crash image against the history as of the crash
				loR := x.Now()
				y := vexec.OpenOn(cs, img, pre)
				defer func() {
					if y.E != nil {
						y.E.Close()
					}
				}()
				if _, err := y.E.VGet(ix, "v"); err == nil {
					// the VDEL did not reach the image: the node is simply not deleted there
					ctx.Count("vdel_not_in_image", 1)
					break
				}
				// a second crash right after recovery: its repairs may or may not have left the
				// journal buffer (no flush here); the VDEL record is still in the log either way
				img2 := ""
				var pre2 *vexec.Model
				if cs.R.Chance(0.3) {
					img2 = cs.SubDir("img2")
					pre2 = pre.Clone()
					if err := vexec.ImageDir(y.Dir, img2); err != nil {
						ctx.Inconclusive("second crash image could not be taken: " + err.Error())
						return
					}
				}
				hi := y.Now()
				y.M.DeleteWithCascade(ix, "v", lo, hi)
				if msg := y.CheckFull(); msg != "" {
					cs.Fail("crash image at %s: %s", point, msg)
				}
				c12Absent(cs, y, ix, "v", "crash image at "+point)
				ctx.Count("crash_images_checked", 1)
				if n := c12Repaired(y, loR); n > 0 {
					ctx.Count("cut_short."+mode, 1)
					ctx.Count("edges_repaired_by_recovery", n)
				}
				if mode == "crash_done_then_relink" {
					y.VLink(ix, "c", "v", "s", "", 1, nil)
					y.VAdd(ix, "v", []float32{9, 9}, nil)
				} else {
					adminAfter(y)
				}
				c01Restart(ctx, cs, y, "restart of recovered image (fixed point)")
				if mode != "crash_done_then_relink" {
					c12Absent(cs, y, ix, "v", "recovered image after restart")
				}
				y.Close()
				os.RemoveAll(img)
				if img2 != "" {
					z := vexec.OpenOn(cs, img2, pre2)
					defer func() {
						if z.E != nil {
							z.E.Close()
						}
					}()
					z.M.DeleteWithCascade(ix, "v", lo, z.Now())
					if msg := z.CheckFull(); msg != "" {
						cs.Fail("second crash right after the recovery of the image at %s: %s", point, msg)
					}
					c12Absent(cs, z, ix, "v", "second crash right after recovery")
					ctx.Count("second_crash_images_checked", 1)
					z.Close()
					os.RemoveAll(img2)
				}
			}
			ctx.Eval(1)
			ctx.Count("mode."+mode, 1)
			ctx.Distinct(fmt.Sprintf("%s|shape%d|%s", mode, shape, x.KindKey()))
			ctx.Sample("case", 3, map[string]any{"mode": mode, "ops": cs.Ops()})
		})
	})
}

package engine_test

import (
	"bufio"
	"bytes"
	"encoding/json"
	"fmt"
	"os"
	"path/filepath"
	"runtime"
	"runtime/debug"
	"sort"
	"strings"
	"sync"
	"sync/atomic"
	"testing"
	"time"

	"github.com/anishathalye/porcupine"
	"github.com/sanonone/kektordb/internal/zzverif/vexec"
	"github.com/sanonone/kektordb/internal/zzverif/vkit"
	"github.com/sanonone/kektordb/pkg/core/distance"
	"github.com/sanonone/kektordb/pkg/core/hnsw"
	"github.com/sanonone/kektordb/pkg/core/types"
	"github.com/sanonone/kektordb/pkg/engine"
	"github.com/sanonone/kektordb/pkg/persistence"
	"github.com/sanonone/kektordb/pkg/verifhook"
)

type c13KVIn struct {
	Op  string // set | get | del
	Key string
	Val string
}
type c13KVOut struct {
	Val   string
	Found bool
}

var c13KVModel = porcupine.Model{
	Partition: func(h []porcupine.Operation) [][]porcupine.Operation {
		by := map[string][]porcupine.Operation{}
		for _, o := range h {
			k := o.Input.(c13KVIn).Key
			by[k] = append(by[k], o)
		}
		keys := make([]string, 0, len(by))
		for k := range by {
			keys = append(keys, k)
		}
		sort.Strings(keys)
		out := make([][]porcupine.Operation, 0, len(by))
		for _, k := range keys {
			out = append(out, by[k])
		}
		return out
	},
	Init: func() any { return c13KVOut{} },
	Step: func(st, in, out any) (bool, any) {
		i, s := in.(c13KVIn), st.(c13KVOut)
		switch i.Op {
		case "set":
			return true, c13KVOut{Val: i.Val, Found: true}
		case "del":
			return true, c13KVOut{}
		default:
			o := out.(c13KVOut)
			return o.Found == s.Found && (!o.Found || o.Val == s.Val), s
		}
	},
	DescribeOperation: func(in, out any) string { return fmt.Sprintf("%+v -> %+v", in, out) },
}

// C13 — concurrent use is free of races, deadlocks and lost updates. Built with -race.
func TestVerifC13(t *testing.T) {
	vkit.Run(t, "C13", func(ctx *vkit.Ctx) {
		workloads := []string{"W1_mix", "W2_admin", "W3_indexes_subscribers", "W4_close"}
		ctx.Group("workload", ctx.N(48, 640), func(cs *vkit.Case) {
			defer verifhook.Reset()
			wl := workloads[cs.Idx%len(workloads)]
			procs := vkit.Pick(cs.R, []int{2, 4, 16})
			prev := runtime.GOMAXPROCS(procs)
			defer runtime.GOMAXPROCS(prev)
			dir := cs.SubDir("data")
			e, err := engine.Open(vexec.Options(dir))
			if err != nil {
				cs.Fail("open: %v", err)
			}
			closed := false
			defer func() {
				if !closed {
					e.Close()
				}
			}()
			// "ia" carries an auto-link rule: every add with a "cat" field issues a nested VLink
			e.VCreate("ia", distance.Euclidean, 4, 8, distance.Float32, "english", nil, []hnsw.AutoLinkRule{{MetadataField: "cat", RelationType: "in_cat"}}, nil)
			mem := hnsw.MemoryConfig{Enabled: true, DecayModel: hnsw.DecayExponential, DecayHalfLife: hnsw.Duration(time.Hour)}
			e.VCreate("ib", distance.Cosine, 8, 16, distance.Float32, "", nil, nil, &mem)
			for _, ix := range []string{"ia", "ib"} {
				e.VAdd(ix, "keep", []float32{1, 2, 3}, map[string]any{"cat": "keep"})
				for i := 0; i < 4; i++ {
					e.VAdd(ix, fmt.Sprintf("s%d", i), []float32{float32(i), 1, 0.5}, map[string]any{"cat": "x", "n": float64(i)})
				}
			}
			nClients := cs.R.Range(4, ctx.N(12, 24))
			// every client also owns one EXISTING key of ia/keep and overwrites it with increasing
			// numbers: a merge of one client must never bring back an older value of another's key
			{
				own := map[string]any{}
				for c := 0; c < nClients; c++ {
					own[fmt.Sprintf("own%d", c)] = float64(-1)
				}
				e.VSetMetadata("ia", "keep", own)
			}
			lastOwn := make([]float64, nClients)
			for c := range lastOwn {
				lastOwn[c] = -1
			}
			perClient := cs.R.Range(150, ctx.N(500, 1500))
			cs.Op("workload=%s clients=%d ops/client=%d GOMAXPROCS=%d", wl, nClients, perClient, procs)

			// seed-determined yields at hook points
			salt := uint32(cs.R.Intn(1 << 30))
			var hits atomic.Uint32
			var pairMu sync.Mutex
			lastPoint, lastG := "", int64(0)
			pairs := map[string]bool{}
			verifhook.SetGlobal(func(name string, _ any) {
				h := hits.Add(1)
				g := goid()
				pairMu.Lock()
				if lastG != 0 && lastG != g && len(pairs) < 4000 {
					pairs[lastPoint+">"+name] = true
				}
				lastPoint, lastG = name, g
				pairMu.Unlock()
				switch (h*2654435761 + salt) % 11 {
				case 0:
					time.Sleep(time.Duration((h*40503+salt)%200) * time.Microsecond)
				case 1, 2:
					runtime.Gosched()
				}
			})

			// never-read subscriber (buffer 1), a draining one, and one that unsubscribes mid-run
			stuck := e.EventBus.Subscribe(1)
			_ = stuck
			drain := e.EventBus.Subscribe(64)
			var drained atomic.Int64
			go func() {
				for range drain {
					drained.Add(1)
				}
			}()
			var unsubOnce sync.Once
			var stalledSubs atomic.Int64
			var freshIndexes atomic.Int64
			tmpSub := e.EventBus.Subscribe(4)

			var clock atomic.Int64 // porcupine timestamps
			var histMu sync.Mutex
			var history []porcupine.Operation
			var reinforceAcked [2]atomic.Int64
			mergeKeys := make([][]string, nClients)
			var panics atomic.Int64
			var firstPanic atomic.Value
			var opsDone atomic.Int64
			var closeReturned, closeStarted atomic.Bool
			var ackedDeletes atomic.Int64 // every acknowledged VDelete starts one cascade goroutine
			cascadeBase := verifhook.Hits()["cascade.done"]
			var afterCloseAcked sync.Map // key -> value for writes acknowledged after Close returned
			var taintedKeys sync.Map     // KV keys with a failed set/delete (it may or may not have taken effect)
			closeAt := int64(-1)
			if wl == "W4_close" {
				closeAt = int64(nClients*perClient) * int64(cs.R.Range(30, 70)) / 100
			}
			var wg sync.WaitGroup
			var closeOnce sync.Once
			doClose := func() {
				closeOnce.Do(func() {
					closeStarted.Store(true)
					if err := e.Close(); err != nil {
						firstPanic.CompareAndSwap(nil, fmt.Sprintf("Close returned error: %v", err))
						panics.Add(1)
					}
					closeReturned.Store(true)
				})
			}
			for c := 0; c < nClients; c++ {
				wg.Add(1)
				r := vkit.NewRand(uint64(cs.R.Intn(1<<30)), uint64(c))
				go func(c int, r *vkit.Rand) {
					defer wg.Done()
					defer func() {
						if p := recover(); p != nil {
							panics.Add(1)
							firstPanic.CompareAndSwap(nil, fmt.Sprintf("client %d panicked: %v\n%s", c, p, debug.Stack()))
						}
					}()
					ids := []string{"s0", "s1", "s2", "s3", "t0", "t1"}
					for i := 0; i < perClient; i++ {
						n := opsDone.Add(1)
						if closeAt >= 0 && n == closeAt {
							doClose()
						}
						ctx.Touch()
						ix := vkit.Pick(r, []string{"ia", "ib"})
						id := vkit.Pick(r, ids)
						wasClosed := closeReturned.Load()
						// now and then a client writes into / reads from the third index, which the
						// administration goroutines create, fill, compress and drop meanwhile
						if i%17 == (c*5)%17 {
							e.VAdd("ic", fmt.Sprintf("c%d_%d", c, i), []float32{r.F32(), r.F32(), r.F32()}, map[string]any{"cat": "x"})
							e.VSetMetadata("ic", "a", map[string]any{fmt.Sprintf("k%d", c): float64(i)})
							e.VGet("ic", "b")
							e.VSearch("ic", []float32{1, 2, 3}, 2, "cat='x'", "", 0, 1.0, nil)
						}
						// now and then a client creates an index of its own and puts the first
						// vector(s) into it while the others (and the admin goroutine) go on:
						// the index's lazily initialised parts come to life under load
						if i%61 == (c*7)%61 {
							fresh := fmt.Sprintf("fresh_%d_%d", c, i)
							prec := vkit.Pick(r, []distance.PrecisionType{distance.Float32, distance.Float16})
							if e.VCreate(fresh, distance.Euclidean, 4, 8, prec, "", nil, nil, nil) == nil {
								freshIndexes.Add(1)
								if r.Chance(0.5) {
									e.VAdd(fresh, "first", []float32{r.F32(), 1, 2}, map[string]any{"cat": "x"})
								} else {
									e.VAddBatch(fresh, []types.BatchObject{{Id: "first", Vector: []float32{1, r.F32(), 2}}, {Id: "second", Vector: []float32{2, 1, r.F32()}}})
								}
								e.VSearch(fresh, []float32{1, 1, 1}, 2, "", "", 0, 1.0, nil)
							}
						}
						switch p := r.Intn(100); {
						case p < 12:
							e.VAdd(ix, id, []float32{r.F32(), r.F32(), r.F32()}, map[string]any{"cat": vkit.Pick(r, []string{"x", "y"}), "n": float64(r.Intn(5))})
						case p < 20:
							if e.VDelete(ix, id) == nil {
								ackedDeletes.Add(1)
							}
						case p < 28:
							// a client uses what it reads: the records are serialised (as the HTTP
							// layer does) while other clients go on updating the same ids
							// (the metadata only: the vector of a returned record is a view into the
							// index's arena, which a concurrent Close / drop / compression unmaps - see
							// DESIGN.md section 13; the harness must not touch it after such an event)
							if d, err := e.VGet(ix, id); err == nil {
								json.Marshal(d.Metadata)
							}
							if ds, err := e.VGetMany(ix, ids); err == nil {
								for _, d := range ds {
									json.Marshal(d.Metadata)
								}
							}
							if r.Chance(0.3) {
								if conns, err := e.VGetConnections(ix, id, "r"); err == nil {
									for _, d := range conns {
										json.Marshal(d.Metadata)
									}
								}
							}
						case p < 40:
							res, err := e.VSearch(ix, []float32{r.F32(), r.F32(), r.F32()}, 3, "cat='x'", "", 0, 1.0, nil)
							if err == nil {
								seen := map[string]bool{}
								for _, x := range res {
									if seen[x] {
										firstPanic.CompareAndSwap(nil, fmt.Sprintf("VSearch returned %v with a duplicate", res))
										panics.Add(1)
									}
									seen[x] = true
								}
							}
						case p < 48:
							k := fmt.Sprintf("c%d_%d", c, i)
							if i%2 == 0 {
								if e.VSetMetadata(ix, "keep", map[string]any{k: float64(i)}) == nil && ix == "ia" {
									mergeKeys[c] = append(mergeKeys[c], k)
								}
							} else if !wasClosed && !closeStarted.Load() {
								if e.VSetMetadata("ia", "keep", map[string]any{fmt.Sprintf("own%d", c): float64(i)}) == nil {
									lastOwn[c] = float64(i)
								}
							}
						case p < 56:
							if e.VReinforce(ix, []string{"keep", id}) == nil && !wasClosed {
								if ix == "ia" {
									reinforceAcked[0].Add(1)
								} else {
									reinforceAcked[1].Add(1)
								}
							}
						case p < 64:
							e.VLink(ix, id, vkit.Pick(r, ids), "r", "", float32(r.Intn(3)), nil)
						case p < 68:
							e.VUnlink(ix, id, vkit.Pick(r, ids), "r", "", r.Chance(0.3))
						case p < 72:
							e.VAddBatch(ix, []types.BatchObject{{Id: fmt.Sprintf("b%d_%d", c, i), Vector: []float32{r.F32(), 1, 1}}, {Id: fmt.Sprintf("b%d_%dx", c, i), Vector: []float32{1, r.F32(), 1}, Metadata: map[string]any{"cat": "x"}}})
						case p < 76:
							e.VGetLinks(ix, id, "r")
							e.VGetIncoming(ix, id, "r")
							e.FindPath(ix, id, vkit.Pick(r, ids), []string{"r"}, 3, 0)
						default: // KV register operations recorded for the linearizability check
							key := vkit.Pick(r, []string{"k0", "k1", "k2"})
							in := c13KVIn{Key: key}
							var out c13KVOut
							call := clock.Add(1)
							var opErr error
							switch r.Intn(5) {
							case 0, 1:
								in.Op, in.Val = "set", fmt.Sprintf("%d.%d", c, i)
								opErr = e.KVSet(key, []byte(in.Val))
							case 2:
								in.Op = "del"
								opErr = e.KVDelete(key)
							default:
								in.Op = "get"
								v, ok := e.KVGet(key)
								out = c13KVOut{Val: string(v), Found: ok}
							}
							ret := clock.Add(1)
							if opErr != nil {
								taintedKeys.Store(key, true)
							}
							// Only operations that completed before Close was even started are part of
							// the history: an operation overlapping the shutdown may fail after it took
							// effect in memory, which the register model cannot express.
							if opErr == nil && !wasClosed && !closeStarted.Load() {
								histMu.Lock()
								history = append(history, porcupine.Operation{ClientId: c, Input: in, Output: out, Call: call, Return: ret})
								histMu.Unlock()
							}
							if wasClosed && in.Op == "set" && opErr == nil {
								afterCloseAcked.Store(key+"|"+in.Val, true)
							}
						}
						if i == perClient/2 && c == 0 {
							unsubOnce.Do(func() { e.EventBus.Unsubscribe(tmpSub) })
						}
						// fresh subscribers that never read: each one's small buffer fills while the
						// other clients are emitting, and must never hold a writer back
						if i%8 == c%8 {
							e.EventBus.Subscribe(1 + (i/8)%2)
							stalledSubs.Add(1)
						}
					}
				}(c, r)
			}
			// admin goroutine
			adminStop := make(chan struct{})
			var adminWg sync.WaitGroup
			var adminOps atomic.Int64
			// W3 / W4 run two administration goroutines (the second one starts at another
			// position of the cycle), so that a snapshot, a compaction, a compression and an
			// index drop also overlap EACH OTHER, not only the clients.
			nAdmins := 0
			if wl != "W1_mix" {
				nAdmins = 1
				if wl != "W2_admin" && cs.Idx%8 >= 4 {
					nAdmins = 2
				}
			}
			for a := 0; a < nAdmins; a++ {
				adminWg.Add(1)
				go func(offset int) {
					defer adminWg.Done()
					defer func() {
						if p := recover(); p != nil {
							panics.Add(1)
							firstPanic.CompareAndSwap(nil, fmt.Sprintf("admin goroutine panicked: %v\n%s", p, debug.Stack()))
						}
					}()
					for i := offset; ; i++ {
						select {
						case <-adminStop:
							return
						default:
						}
						switch i % 8 {
						case 0:
							e.SaveSnapshot()
						case 1:
							e.RewriteAOF()
						case 2:
							e.VTriggerMaintenance("ia", "vacuum")
						case 3:
							e.VTriggerMaintenance("ib", "refine")
						case 4:
							e.RunGraphVacuum()
						case 5:
							if wl != "W2_admin" { // index create / fill / compress / drop of a third index
								e.VCreate("ic", distance.Euclidean, 4, 8, distance.Float32, "", nil, nil, nil)
								e.VAdd("ic", "a", []float32{1, 2, 3}, nil)
								e.VAdd("ic", "b", []float32{3, 2, 1}, map[string]any{"cat": "x"})
							}
						case 6:
							if wl != "W2_admin" {
								e.VImport("ic", []types.BatchObject{{Id: fmt.Sprintf("imp%d", i), Vector: []float32{1, 1, 1}}})
								e.VImportCommit("ic")
								e.VCompress("ic", distance.Float16)
							}
						case 7:
							if wl != "W2_admin" {
								e.VDeleteIndex("ic")
							}
						}
						adminOps.Add(1)
						ctx.Touch()
						time.Sleep(100 * time.Microsecond)
					}
				}(a * 3)
			}
			wg.Wait()
			close(adminStop)
			adminWg.Wait()
			verifhook.SetGlobal(nil)
			pairMu.Lock()
			nPairs := len(pairs) // a cascade goroutine may still be inside the handler
			pairMu.Unlock()
			if v := firstPanic.Load(); v != nil {
				cs.Fail("%s", v.(string))
			}
			ctx.Count("client_ops", opsDone.Load())
			ctx.Count("admin_ops", adminOps.Load())
			ctx.Count("hook_hits", int64(hits.Load()))
			ctx.Count("distinct_cross_goroutine_hook_pairs", int64(nPairs))
			ctx.Count("events_drained", drained.Load())
			ctx.Count("stalled_subscribers", stalledSubs.Load())
			ctx.Count("fresh_indexes_under_load", freshIndexes.Load())

			if wl == "W4_close" {
				doClose()
				closed = true
				// calls after Close must fail cleanly (no panic) or take effect durably
				if err := e.KVSet("after_close", []byte("x")); err == nil {
					afterCloseAcked.Store("after_close|x", true)
				}
				e.VGet("ia", "keep")
				e.VSearch("ia", []float32{1, 2, 3}, 2, "", "", 0, 1.0, nil)
				e.VAdd("ia", "late", []float32{1, 1, 1}, nil)
				// subscribers that outlive the engine: unsubscribing (and subscribing) after Close
				// must not panic nor block (a streaming client still connected at shutdown)
				busDone := make(chan string, 1)
				go func() {
					defer func() {
						if p := recover(); p != nil {
							busDone <- fmt.Sprintf("EventBus call after Close panicked: %v", p)
						}
					}()
					e.EventBus.Unsubscribe(drain)
					e.EventBus.Unsubscribe(stuck)
					if late := e.EventBus.Subscribe(1); late != nil {
						e.EventBus.Unsubscribe(late)
					}
					busDone <- ""
				}()
				select {
				case msg := <-busDone:
					if msg != "" {
						cs.Fail("%s", msg)
					}
				case <-time.After(30 * time.Second):
					// a stall is a violation only with a witness: a goroutine parked on the bus mutex
					dump := vkit.DumpGoroutines()
					if strings.Contains(dump, "EventBus") && (strings.Contains(dump, "sync.(*Mutex).Lock") || strings.Contains(dump, "sync.(*RWMutex)")) {
						cs.Attach("goroutines", dump[:min(len(dump), 6000)])
						cs.Fail("Unsubscribe / Subscribe after Close did not return: a goroutine is parked on the event bus mutex")
					}
					ctx.Inconclusive("EventBus calls after Close did not return within 30 s and no goroutine is parked on the bus")
				}
				e2, err := engine.Open(vexec.Options(dir))
				if err != nil {
					cs.Fail("reopen after Close under load: %v", err)
				}
				lost := ""
				// for each key only the last acknowledged post-Close set can be demanded
				afterCloseAcked.Range(func(k, _ any) bool {
					parts := strings.SplitN(k.(string), "|", 2)
					if parts[0] == "after_close" {
						if v, ok := e2.KVGet("after_close"); !ok || string(v) != "x" {
							lost = "KVSet(after_close) issued after Close returned nil but is not there after reopen"
						}
					}
					return true
				})
				e2.Close()
				if lost != "" {
					cs.Fail("%s", lost)
				}
				ctx.Count("close_under_load", 1)
			} else {
				// quiescent checks on the live engine
				for w, ix := range []string{"ia", "ib"} {
					d, err := e.VGet(ix, "keep")
					if err != nil {
						cs.Fail("the never-deleted vector %s/keep is gone: %v", ix, err)
					}
					got, _ := d.Metadata["_access_count"].(float64)
					if int64(got) != reinforceAcked[w].Load() {
						cs.Fail("%s/keep: _access_count=%v but %d VReinforce calls listing it were acknowledged (lost update)", ix, d.Metadata["_access_count"], reinforceAcked[w].Load())
					}
				}
				d, _ := e.VGet("ia", "keep")
				for c := range lastOwn {
					if got, _ := d.Metadata[fmt.Sprintf("own%d", c)].(float64); got != lastOwn[c] {
						cs.Fail("ia/keep: key own%d is %v, the last acknowledged VSetMetadata of its only writer set %v (a concurrent merge of another client brought an older value back)", c, d.Metadata[fmt.Sprintf("own%d", c)], lastOwn[c])
					}
				}
				for c := range mergeKeys {
					for _, k := range mergeKeys[c] {
						if _, ok := d.Metadata[k]; !ok {
							cs.Fail("ia/keep lost metadata key %s written by an acknowledged concurrent VSetMetadata", k)
						}
					}
				}
				for _, ix := range e.ListIndexes() {
					x := &vexec.Exec{CS: cs, E: e, M: vexec.NewModel()}
					if msg := x.CheckStructure(ix); msg != "" {
						cs.Fail("after the workload: %s", msg)
					}
				}
				// state must survive a restart exactly
				u := vexec.Universe{Indexes: []string{"ia", "ib", "ic"}, IDs: []string{"keep", "s0", "s1", "s2", "s3", "t0", "t1", "a", "b"}, Keys: []string{"k0", "k1", "k2"}, Rels: []string{"r"}}
				for _, ix := range u.Indexes {
					for _, id := range u.IDs {
						u.Nodes = append(u.Nodes, vexec.GraphID(ix, id))
					}
				}
				// wait for the delete cascades started by the clients (hook counters, no timing)
				for i := 0; verifhook.Hits()["cascade.done"]-cascadeBase < ackedDeletes.Load(); i++ {
					if i > 4000000 {
						cs.Fail("delete cascades did not finish")
					}
					time.Sleep(20 * time.Microsecond)
				}
				before := vexec.Observe(e, u)
				if err := e.Close(); err != nil {
					cs.Fail("Close: %v", err)
				}
				closed = true
				e2, err := engine.Open(vexec.Options(dir))
				if err != nil {
					cs.Fail("reopen: %v", err)
				}
				after := vexec.Observe(e2, u)
				e2.Close()
				if diff := vexec.Diff(before, after); len(diff) > 0 {
					cs.Attach("diff", diff)
					cs.Attach("log_records", c13DumpLog(dir))
					cs.Fail("state after the concurrent workload did not survive a restart: %s", diff[0])
				}
				ctx.Count("merge_keys_checked", int64(func() int {
					n := 0
					for _, m := range mergeKeys {
						n += len(m)
					}
					return n
				}()))
				ctx.Count("reinforcements_counted", reinforceAcked[0].Load()+reinforceAcked[1].Load())
			}
			// KV linearizability (per key) of the operations that completed before Close
			histMu.Lock()
			var h []porcupine.Operation
			for _, op := range history {
				// a key on which some mutation returned an error (shutdown in progress) is left
				// out: the failed call may have taken effect in memory, and the register model
				// has no way to say "maybe"
				if _, bad := taintedKeys.Load(op.Input.(c13KVIn).Key); !bad {
					h = append(h, op)
				}
			}
			histMu.Unlock()
			if len(h) > 0 {
				res, _ := porcupine.CheckOperationsVerbose(c13KVModel, h, 60*time.Second)
				switch res {
				case porcupine.Illegal:
					cs.Attach("kv_history_len", len(h))
					cs.Fail("the recorded KVSet/KVGet/KVDelete history (%d operations) is not linearizable", len(h))
				case porcupine.Unknown:
					ctx.Inconclusive("porcupine timed out on a KV history")
				}
				ctx.Count("kv_ops_checked_linearizable", int64(len(h)))
			}
			ctx.Eval(1)
			ctx.Distinct(fmt.Sprintf("%s/%d/%d/%d/a%d", wl, nClients, procs, nPairs/50, nAdmins))
			ctx.Sample("workload", 4, map[string]any{"workload": wl, "clients": nClients, "ops_per_client": perClient, "gomaxprocs": procs, "hook_pairs": nPairs})
		})
	})
}

// c13DumpLog decodes the append-only log (debugging aid attached to restart witnesses).
func c13DumpLog(dir string) []string {
	f, err := os.Open(filepath.Join(dir, "kektordb.aof"))
	if err != nil {
		return []string{err.Error()}
	}
	defer f.Close()
	r := bufio.NewReader(f)
	var out []string
	for len(out) < 6000 {
		payload, _, err := persistence.ReadFrame(r)
		if err != nil {
			break
		}
		cmd, err := persistence.ParseCommand(bufio.NewReader(bytes.NewReader(payload)))
		if err != nil {
			out = append(out, "unparseable frame")
			continue
		}
		line := cmd.Name
		for _, a := range cmd.Args {
			s := string(a)
			if len(s) > 40 {
				s = s[:40] + "…"
			}
			line += " " + s
		}
		out = append(out, line)
	}
	_, serr := os.Stat(filepath.Join(dir, "kektordb.kdb"))
	out = append(out, fmt.Sprintf("snapshot file present: %v", serr == nil))
	return out
}

func goid() int64 {
	var buf [64]byte
	n := runtime.Stack(buf[:], false)
	s := strings.TrimPrefix(string(buf[:n]), "goroutine ")
	var id int64
	fmt.Sscan(s, &id)
	return id
}

package engine_test

import (
	"fmt"
	"reflect"
	"sort"
	"strings"

	"github.com/sanonone/kektordb/internal/zzverif/vexec"
	"github.com/sanonone/kektordb/internal/zzverif/vkit"
	"github.com/sanonone/kektordb/pkg/core/distance"
	"github.com/sanonone/kektordb/pkg/engine"
)

// Lenient classes of C08: inputs whose meaning the property does not settle. Nothing here
// can fail the check. Every evaluation is classified as agree / differ / error against the
// same reference evaluator (applied to the JSON-normalised metadata) and counted per
// class and provenance; the counts are a function of seed and tier only, so a behavioural
// change of the product in these classes shows up as a changed count in the evidence.

type c08LClass struct {
	name string
	key  string
	vals []any    // values stored under key
	lits []string // literals as written (quotes included)
	ops  []string
}

var c08LClasses = []c08LClass{
	{"numstr", "ns", []any{"10", "3.5", "1e3", "007", "-2", "10.0"}, []string{"10", "'10'", "10.0", "3.5", "1000", "7", "'007'", "-2", "5"}, []string{"=", "!=", ">", "<="}},
	{"goint", "gi", []any{int(3), int64(-2), int32(7), uint8(1), float32(2.5), int(0)}, []string{"3", "-2", "7", "1", "2.5", "0", "2"}, []string{"=", "!=", ">=", "<"}},
	{"quotednum", "n", []any{3.0, -2.0, 2.5, 1e15}, []string{"'3'", "\"-2\"", "'2.5'", "'1e15'", "'4'"}, []string{"=", "!=", ">=", "<"}},
	{"unquotedstr", "s", []any{"red", "blue", "Red"}, []string{"red", "blue", "Red", "green"}, []string{"=", "!="}},
	{"boolstr", "bs", []any{"true", "false", true, false}, []string{"true", "'true'", "false", "\"false\""}, []string{"=", "!="}},
	{"numlist", "nl", []any{[]any{1.0, 2.5}, []any{"10", 3.0}, []any{true, "x"}, []any{1e21}}, []string{"1", "2.5", "'10'", "10", "3", "true", "1e+21", "1e21"}, []string{"=", "!="}},
	{"opquoted", "os", []any{"a<=b", "x=1", "p!=q", "k>v", "plain"}, []string{"'a<=b'", "\"x=1\"", "'p!=q'", "'k>v'", "'plain'"}, []string{"=", "!="}},
	{"kwquoted", "ks", []any{"salt and pepper", "this or that", "AND", "plain"}, []string{"'salt and pepper'", "\"this or that\"", "'AND'", "'plain'"}, []string{"=", "!="}},
	{"quoteinside", "qs", []any{"it's", "say \"hi\"", "plain"}, []string{"\"it's\"", "'say \"hi\"'", "'plain'"}, []string{"=", "!="}},
	{"mixed", "mx", []any{5.0, "5", []any{"5", "x"}, []any{5.0}, "red", 6.0, "6", true, "true", nil, map[string]any{"a": 1.0}}, []string{"5", "'5'", "6", "'6'", "'red'", "true", "7"}, []string{"=", "!="}},
	{"emptystr", "es", []any{"", "plain"}, []string{"''", "\"\"", "'plain'"}, []string{"=", "!="}},
	// Go-typed collections as an embedding caller passes them (sibling of goint / D60;
	// repaired in /repo c57f435: the value is brought to its JSON shape when it is stored). float32
	// elements are exactly representable on purpose (float32(0.1) is another number than the
	// 0.1 its JSON text reads back as - a genuine difference, not an index matter).
	{"golist", "gl", []any{[]string{"red", "blue"}, []string{"green"}, []any{"red"}, []int{1, 2}, []float64{2.5}, []float32{2.5, 1}, []string{}, [2]string{"red", "k"}, map[string]string{"k": "v"}, []bool{true}},
		[]string{"'red'", "'green'", "'blue'", "1", "2", "2.5", "'k'", "'v'", "true"}, []string{"=", "!="}},
}

func c08Lenient(ctx *vkit.Ctx, cs *vkit.Case) {
	r := cs.R
	dir := cs.SubDir("data")
	open := func() *engine.Engine {
		cs.Op("Open")
		e, err := engine.Open(vexec.Options(dir))
		if err != nil {
			cs.Fail("engine.Open: %v", err)
		}
		return e
	}
	e := open()
	defer func() { e.Close() }()
	setupErr := func(what string, err error) {
		// not a C08 matter (C04 decides acknowledgements): count and stop this case
		ctx.Count("lenient.setup_error", 1)
		ctx.Sample("lenient.setup_error", 2, map[string]any{"op": what, "error": fmt.Sprint(err)})
	}
	if err := e.VCreate("f", distance.Euclidean, 16, 200, distance.Float32, "", nil, nil, nil); err != nil {
		setupErr("VCreate", err)
		return
	}
	model := map[string]map[string]any{}
	n := r.Range(5, 8)
	for i := 0; i < n; i++ {
		id := fmt.Sprintf("v%d", i)
		m := map[string]any{}
		for _, c := range c08LClasses {
			if r.Chance(0.6) {
				m[c.key] = vkit.Pick(r, c.vals)
			}
		}
		cs.Op("VAdd(f,%s,%s) go-types=%s", id, vkit.JSON(m), c08GoTypes(m))
		if err := e.VAdd("f", id, []float32{r.F32(), r.F32() + 2}, m); err != nil {
			setupErr("VAdd "+vkit.JSON(m), err)
			return
		}
		model[id] = vexec.NormMeta(m)
	}
	// a later overwrite of a Go-int field with another Go int / float (old entry removal)
	for i := 0; i < 4; i++ {
		id := fmt.Sprintf("v%d", r.Intn(n))
		c := vkit.Pick(r, c08LClasses)
		props := map[string]any{c.key: vkit.Pick(r, c.vals)}
		cs.Op("VSetMetadata(f,%s,%s) go-types=%s", id, vkit.JSON(props), c08GoTypes(props))
		if err := e.VSetMetadata("f", id, props); err != nil {
			setupErr("VSetMetadata "+vkit.JSON(props), err)
			return
		}
		for k, v := range vexec.NormMeta(props) {
			model[id][k] = v
		}
	}
	type q struct {
		class string
		c     c08Clause
		text  string
	}
	var qs []q
	for _, c := range c08LClasses {
		for k := 0; k < 6; k++ {
			shown := vkit.Pick(r, c.lits)
			lit := shown
			if len(lit) >= 2 && (lit[0] == '\'' || lit[0] == '"') && lit[len(lit)-1] == lit[0] {
				lit = lit[1 : len(lit)-1]
			}
			cl := c08Clause{Key: c.key, Op: vkit.Pick(r, c.ops), Lit: lit, Shown: shown}
			qs = append(qs, q{c.name, cl, cl.Key + " " + cl.Op + " " + cl.Shown})
		}
	}
	liveAnswer := map[string]string{}
	eval := func(prov string) {
		for _, qq := range qs {
			var want []string
			for id, m := range model {
				if qq.c.Match(m) {
					want = append(want, id)
				}
			}
			sort.Strings(want)
			cs.Op("[%s] VFilter(f,%q)", prov, qq.text)
			got, err := e.VFilter("f", qq.text, 1000)
			sort.Strings(got)
			outcome := "agree"
			switch {
			case err != nil:
				outcome = "error"
			case !(len(got) == 0 && len(want) == 0) && !reflect.DeepEqual(got, want):
				outcome = "differ"
			}
			ctx.Count("lenient."+qq.class+"."+prov+"."+outcome, 1)
			// Asserted whatever the values mean: the answer depends only on the current
			// metadata, not on how the state was reached (live, log replay, snapshot
			// restore, compression).
			if err == nil {
				ans := strings.Join(got, ",")
				if prov == "live" {
					liveAnswer[qq.text] = ans
				} else if la, ok := liveAnswer[qq.text]; ok && la != ans {
					cs.Fail("VFilter(%q) answered [%s] on the live state and [%s] after %s of the same state (%s values: %v)", qq.text, la, ans, prov, qq.c.Key, c08ValsOf(model, qq.c.Key))
				} else if ok {
					ctx.Count("lenient.provenance_agreement_checked", 1)
				}
			}
			// Asserted whatever equality means for these values: `k != lit` is the negation
			// of `k = lit` (it also matches ids lacking the field), so the two answers
			// partition the live ids.
			if err == nil && (qq.c.Op == "=" || qq.c.Op == "!=") {
				opp := "="
				if qq.c.Op == "=" {
					opp = "!="
				}
				otext := qq.c.Key + " " + opp + " " + qq.c.Shown
				cs.Op("[%s] VFilter(f,%q)", prov, otext)
				other, oerr := e.VFilter("f", otext, 1000)
				if oerr != nil {
					ctx.Count("lenient.complement.error", 1)
				} else {
					seen := map[string]int{}
					for _, id := range got {
						seen[id]++
					}
					for _, id := range other {
						seen[id] += 2
					}
					for id := range model {
						switch seen[id] {
						case 0:
							cs.Fail("[%s] id %s (%s=%s) is returned neither by %q nor by %q", prov, id, qq.c.Key, vkit.JSON(model[id][qq.c.Key]), qq.text, otext)
						case 3:
							cs.Fail("[%s] id %s (%s=%s) is returned both by %q and by %q", prov, id, qq.c.Key, vkit.JSON(model[id][qq.c.Key]), qq.text, otext)
						}
					}
					ctx.Count("lenient.complement.checked", 1)
				}
			}
			if outcome != "agree" {
				vals := map[string]any{}
				for id, m := range model {
					if v, ok := m[qq.c.Key]; ok {
						vals[id] = v
					}
				}
				ctx.Sample("lenient."+qq.class+"."+prov+"."+outcome, 1, map[string]any{
					"expr": qq.text, "reference": want, "observed": got, "error": fmt.Sprint(err), "values_of_" + qq.c.Key: vals})
			}
		}
	}
	eval("live")
	cs.Op("Close")
	if err := e.Close(); err != nil {
		setupErr("Close", err)
	}
	e = open()
	eval("replay")
	cs.Op("SaveSnapshot + Close + Open")
	if err := e.SaveSnapshot(); err != nil {
		setupErr("SaveSnapshot", err)
		return
	}
	if err := e.Close(); err != nil {
		setupErr("Close", err)
	}
	e = open()
	eval("snapshot restore")
	cs.Op("VCompress(f,float16)")
	if err := e.VCompress("f", distance.Float16); err != nil {
		setupErr("VCompress", err)
		return
	}
	eval("compression")
	ctx.Count("lenient.cases", 1)
}

func c08GoTypes(m map[string]any) string {
	var parts []string
	for _, k := range vexec.SortedKeys(m) {
		parts = append(parts, fmt.Sprintf("%s:%T", k, m[k]))
	}
	return strings.Join(parts, ",")
}

func c08ValsOf(model map[string]map[string]any, key string) map[string]any {
	out := map[string]any{}
	for id, m := range model {
		if v, ok := m[key]; ok {
			out[id] = v
		}
	}
	return out
}

package engine_test

import (
	"fmt"
	"sort"
	"strings"
	"sync"
	"sync/atomic"
	"testing"
	"time"

	"github.com/sanonone/kektordb/internal/zzverif/vexec"
	"github.com/sanonone/kektordb/internal/zzverif/vkit"
	"github.com/sanonone/kektordb/pkg/core/distance"
	"github.com/sanonone/kektordb/pkg/core/hnsw"
	"github.com/sanonone/kektordb/pkg/core/types"
	"github.com/sanonone/kektordb/pkg/engine"
	"github.com/sanonone/kektordb/pkg/verifhook"
)

// The write operations of the forced-schedule table. Each runs through the executor, so
// the reference model records the acknowledged effect.
type c14Write struct {
	name  string // the first operation of the name gives the hook op.<X>.journaled, unless c14Hook names another
	setup func(x *vexec.Exec)
	do    func(x *vexec.Exec) error
}

// hookOp: the operation whose journaled point parks the writer (the first one of a compound write)
func (w c14Write) hookOp() string {
	if i := strings.IndexAny(w.name, "(+|"); i > 0 {
		return w.name[:i]
	}
	return w.name
}

func c14Seq(steps ...func() error) error {
	for _, st := range steps {
		if err := st(); err != nil {
			return err
		}
	}
	return nil
}

var c14Writes = []c14Write{
	{"KVSet", nil, func(x *vexec.Exec) error { return x.KVSet("wk", []byte("acked")) }},
	{"KVDelete", func(x *vexec.Exec) { x.KVSet("dk", []byte("old")) }, func(x *vexec.Exec) error { return x.KVDelete("dk") }},
	{"VAdd", nil, func(x *vexec.Exec) error { return x.VAdd("ix", "wnew", []float32{3, 3}, map[string]any{"seq": 7.0}) }},
	{"VAddBatch", nil, func(x *vexec.Exec) error {
		return x.VAddBatch("ix", []types.BatchObject{{Id: "wb1", Vector: []float32{4, 1}, Metadata: map[string]any{"seq": 1.0}}, {Id: "wb2", Vector: []float32{4, 2}}})
	}},
	{"VDelete", nil, func(x *vexec.Exec) error { return x.VDelete("ix", "p1") }},
	{"VSetMetadata", nil, func(x *vexec.Exec) error { return x.VSetMetadata("ix", "p0", map[string]any{"seq": 9.0}) }},
	{"VReinforce", nil, func(x *vexec.Exec) error { return x.VReinforce("ix", []string{"p0"}) }},
	{"VLink", nil, func(x *vexec.Exec) error { return x.VLink("ix", "p0", "p2", "r", "ri", 2, map[string]any{"k": "v"}) }},
	{"VUnlink", nil, func(x *vexec.Exec) error { return x.VUnlink("ix", "p2", "p0", "r", "", false) }},
	{"VUpdateIndexConfig", nil, func(x *vexec.Exec) error {
		mc := hnsw.DefaultMaintenanceConfig()
		mc.DeleteThreshold = 0.33
		return x.VUpdateIndexConfig("ix", mc)
	}},
	{"VCreate", nil, func(x *vexec.Exec) error {
		return x.VCreate(vexec.IndexCfg{Name: "wix", Metric: distance.Cosine, Prec: distance.Float32, M: 4, EfC: 8})
	}},
	// compound writes on one item: when the admin operation captures its state between or
	// after them, records of the sequence are both in the captured state and among the
	// writes journaled again afterwards; replaying them must be neutral
	{"VLink(same)+VUnlink", nil, func(x *vexec.Exec) error {
		return c14Seq(func() error { return x.VLink("ix", "p2", "p0", "r", "", 1, nil) },
			func() error { return x.VUnlink("ix", "p2", "p0", "r", "", false) })
	}},
	{"VUnlink+VLink+VUnlink", nil, func(x *vexec.Exec) error {
		return c14Seq(func() error { return x.VUnlink("ix", "p2", "p0", "r", "", false) },
			func() error { return x.VLink("ix", "p2", "p0", "r", "", 1, nil) },
			func() error { return x.VUnlink("ix", "p2", "p0", "r", "", false) })
	}},
	{"VLink(evolve)+VUnlink+VLink", nil, func(x *vexec.Exec) error {
		return c14Seq(func() error { return x.VLink("ix", "p2", "p0", "r", "ri", 3, nil) },
			func() error { return x.VUnlink("ix", "p2", "p0", "r", "ri", false) },
			func() error { return x.VLink("ix", "p2", "p0", "r", "ri", 3, nil) })
	}},
	{"VUnlink(hard)+VLink", nil, func(x *vexec.Exec) error {
		return c14Seq(func() error { return x.VUnlink("ix", "p2", "p0", "r", "", true) },
			func() error { return x.VLink("ix", "p2", "p0", "r", "", 1, nil) })
	}},
	{"VLink(evolve)+VUnlink(hard)+VLink(other weight)", nil, func(x *vexec.Exec) error {
		return c14Seq(func() error { return x.VLink("ix", "p2", "p0", "r", "ri", 3, nil) },
			func() error { return x.VUnlink("ix", "p2", "p0", "r", "ri", true) },
			func() error { return x.VLink("ix", "p2", "p0", "r", "ri", 5, map[string]any{"k": "v"}) })
	}},
	{"VUnlink+VLink(other weight)+VUnlink+VLink", nil, func(x *vexec.Exec) error {
		return c14Seq(func() error { return x.VUnlink("ix", "p2", "p0", "r", "", false) },
			func() error { return x.VLink("ix", "p2", "p0", "r", "", 4, nil) },
			func() error { return x.VUnlink("ix", "p2", "p0", "r", "", false) },
			func() error { return x.VLink("ix", "p2", "p0", "r", "", 6, nil) })
	}},
	// writes that straddle the admin operation: the first part is issued as the schedule says,
	// the second part (c14After) once the snapshot / compaction has completed
	{"VAdd|VDelete(after)", nil, func(x *vexec.Exec) error {
		return x.VAdd("ix", "straddle", []float32{7, 7}, map[string]any{"seq": 1.0})
	}},
	{"VSetMetadata|VDelete(after)", nil, func(x *vexec.Exec) error { return x.VSetMetadata("ix", "p1", map[string]any{"seq": 3.0}) }},
	{"VLink|VUnlink(after)", nil, func(x *vexec.Exec) error { return x.VLink("ix", "p1", "p0", "r", "ri", 2, nil) }},
	{"VDelete+VAdd", nil, func(x *vexec.Exec) error {
		return c14Seq(func() error { return x.VDelete("ix", "p1") },
			func() error { return x.VAdd("ix", "p1", []float32{9, 9}, map[string]any{"seq": 5.0}) })
	}},
	// a node is replaced and linked again with an inverse relation: when all three records are
	// both in the captured state and in the log that is replayed over it, replay has to take BOTH
	// directions of the new link out of the cascade it finishes for the VDEL record
	{"VDelete+VAdd+VLink(inverse)", nil, func(x *vexec.Exec) error {
		return c14Seq(func() error { return x.VDelete("ix", "p1") },
			func() error { return x.VAdd("ix", "p1", []float32{8, 8}, map[string]any{"seq": 6.0}) },
			func() error { return x.VLink("ix", "p0", "p1", "r", "ri", 2, map[string]any{"k": "v"}) })
	}},
	{"VSetMetadata+VSetMetadata", nil, func(x *vexec.Exec) error {
		return c14Seq(func() error { return x.VSetMetadata("ix", "p0", map[string]any{"seq": 9.0, "a": "x"}) },
			func() error { return x.VSetMetadata("ix", "p0", map[string]any{"seq": 10.0}) })
	}},
	// bulk import: not journaled at all; the commit's own snapshot is what makes it durable, and
	// that snapshot has to wait for (not skip past) an administrative operation that is under way
	{"VImport+VImportCommit", nil, func(x *vexec.Exec) error {
		return c14Seq(func() error {
			return x.VImport("ix", []types.BatchObject{{Id: "imp1", Vector: []float32{5, 1}, Metadata: map[string]any{"seq": 1.0}}, {Id: "imp2", Vector: []float32{5, 2}}, {Id: "imp3", Vector: []float32{5, 3}, Metadata: map[string]any{"seq": 3.0}}})
		}, func() error { return x.VImportCommit("ix") })
	}},
	// ---- write kinds the statement's "a write" also covers (each has an executor method) ----
	// drop of a second index: flushes, drops, then takes a snapshot of its own and journals VDROP again
	{"VDeleteIndex", c14SetupWother, func(x *vexec.Exec) error { return x.VDeleteIndex("wother") }},
	// applied in memory BEFORE it is journaled; the only hook is .applied (see c14Hook)
	{"VUpdateAutoLinks", nil, func(x *vexec.Exec) error {
		return x.VUpdateAutoLinks("ix", []hnsw.AutoLinkRule{{MetadataField: "parent", RelationType: "child_of"}})
	}},
	// delete of a node with an incoming edge (p2 -r-> p0): the cascade journals its VUnlink from a
	// background goroutine after the acknowledgement; parked at the VDELETE / at the cascade's GUNLINK
	{"VDelete(cascade)", nil, func(x *vexec.Exec) error { return x.VDelete("ix", "p0") }},
	{"VDelete(cascade)@VUnlink", nil, func(x *vexec.Exec) error { return x.VDelete("ix", "p0") }},
	// cosine/int8 index with an auto-link rule: VQUANT is journaled after the apply, the nested
	// VLink after the apply gate was released
	{"VAdd(int8,autolink)", c14SetupAx, func(x *vexec.Exec) error {
		return x.VAdd("ax", "c1", []float32{0.5, 2.5}, map[string]any{"parent": "a0", "seq": 1.0})
	}},
	{"VAdd(int8,autolink)@VLink", c14SetupAx, func(x *vexec.Exec) error {
		return x.VAdd("ax", "c1", []float32{0.5, 2.5}, map[string]any{"parent": "a0", "seq": 1.0})
	}},
	{"VAddBatch(int8)", c14SetupAx, func(x *vexec.Exec) error {
		return x.VAddBatch("ax", []types.BatchObject{{Id: "c2", Vector: []float32{-3, 0.25}, Metadata: map[string]any{"parent": "a0"}}, {Id: "c3", Vector: []float32{0.1, -4}}})
	}},
	// several ids: the apply gate is released and taken again between two ids
	{"VReinforce(3)", nil, func(x *vexec.Exec) error { return x.VReinforce("ix", []string{"p0", "p1", "p2"}) }},
	// VLink(s) + VAdd + VSetMetadata under one call; parked at the VADD in the middle
	{"VEvolve", nil, func(x *vexec.Exec) error {
		_, err := x.VEvolve("ix", "p0", []float32{5, 5}, map[string]any{"seq": 2.0}, "c14")
		return err
	}},
	// more writes that straddle the admin operation (second part in c14After)
	{"KVSet|KVDelete(after)", nil, func(x *vexec.Exec) error { return x.KVSet("sk", []byte("v1")) }},
	{"KVSet|KVSet(after)", nil, func(x *vexec.Exec) error { return x.KVSet("sk", []byte("v1")) }},
	{"VCreate|VDeleteIndex(after)", nil, func(x *vexec.Exec) error {
		return x.VCreate(vexec.IndexCfg{Name: "wix", Metric: distance.Euclidean, Prec: distance.Float32, M: 4, EfC: 8})
	}},
	{"VAdd|VSetMetadata(after)", nil, func(x *vexec.Exec) error {
		return x.VAdd("ix", "straddle", []float32{7, 7}, map[string]any{"seq": 1.0})
	}},
	{"VLink|VLink(other weight)(after)", nil, func(x *vexec.Exec) error { return x.VLink("ix", "p1", "p0", "r", "ri", 2, nil) }},
	{"VUnlink(hard)|VLink(after)", nil, func(x *vexec.Exec) error { return x.VUnlink("ix", "p2", "p0", "r", "", true) }},
}

// c14Hook: the hook point that parks the writer in order "journaled_before" when it is not
// op.<first operation of the name>.journaled.
var c14Hook = map[string]string{
	"VUpdateAutoLinks":          "op.VUpdateAutoLinks.applied", // applied, journaled, gate still held
	"VDelete(cascade)":          "op.VDelete.journaled",
	"VDelete(cascade)@VUnlink":  "op.VUnlink.journaled", // the cascade goroutine's nested unlink
	"VAdd(int8,autolink)":       "op.VAdd.journaled",
	"VAdd(int8,autolink)@VLink": "op.VLink.journaled", // the nested auto-link
	"VAddBatch(int8)":           "op.VAddBatch.journaled",
	"VReinforce(3)":             "op.VReinforce.journaled",
	"VEvolve":                   "op.VAdd.journaled",
	"VImport+VImportCommit":     "op.VImportCommit.saved", // nothing is journaled: parked after the commit's snapshot
}

func (w c14Write) hook() string {
	if h := c14Hook[w.name]; h != "" {
		return h
	}
	return "op." + w.hookOp() + ".journaled"
}

func c14SetupWother(x *vexec.Exec) {
	x.VCreate(vexec.IndexCfg{Name: "wother", Metric: distance.Euclidean, Prec: distance.Float32, M: 4, EfC: 8})
	x.VAdd("wother", "o0", []float32{1, 2}, map[string]any{"seq": 0.0})
}

// c14SetupAx: a cosine/int8 index with an auto-link rule and a maintenance config.
func c14SetupAx(x *vexec.Exec) {
	mc := hnsw.DefaultMaintenanceConfig()
	mc.DeleteThreshold = 0.25
	x.VCreate(vexec.IndexCfg{Name: "ax", Metric: distance.Cosine, Prec: distance.Int8, M: 4, EfC: 8, Maint: &mc,
		AutoLinks: []hnsw.AutoLinkRule{{MetadataField: "parent", RelationType: "child_of"}}})
	x.VAdd("ax", "a0", []float32{1, 1}, map[string]any{"seq": 0.0})
	x.VAdd("ax", "a1", []float32{-1, 0.5}, nil)
}

// c14After: the second part of a straddling write.
var c14After = map[string]func(x *vexec.Exec) error{
	"VAdd|VDelete(after)":         func(x *vexec.Exec) error { return x.VDelete("ix", "straddle") },
	"VSetMetadata|VDelete(after)": func(x *vexec.Exec) error { return x.VDelete("ix", "p1") },
	"VLink|VUnlink(after)":        func(x *vexec.Exec) error { return x.VUnlink("ix", "p1", "p0", "r", "ri", false) },
	"KVSet|KVDelete(after)":       func(x *vexec.Exec) error { return x.KVDelete("sk") },
	"KVSet|KVSet(after)":          func(x *vexec.Exec) error { return x.KVSet("sk", []byte("v2")) },
	"VCreate|VDeleteIndex(after)": func(x *vexec.Exec) error { return x.VDeleteIndex("wix") },
	"VAdd|VSetMetadata(after)": func(x *vexec.Exec) error {
		return x.VSetMetadata("ix", "straddle", map[string]any{"seq": 2.0, "late": "y"})
	},
	"VLink|VLink(other weight)(after)": func(x *vexec.Exec) error { return x.VLink("ix", "p1", "p0", "r", "ri", 8, map[string]any{"k": "late"}) },
	"VUnlink(hard)|VLink(after)":       func(x *vexec.Exec) error { return x.VLink("ix", "p2", "p0", "r", "", 3, nil) },
}

var c14SnapPhases = []string{"snap.begin", "snap.tmp_written", "snap.renamed", "snap.truncated", "snap.mode_ended", "snap.shadow_replayed"}
var c14RwPhases = []string{"rw.begin", "rw.captured", "rw.tmp_flushed", "rw.replaced", "rw.mode_ended", "rw.shadow_replayed"}

// c14Admin: an operation that takes a snapshot or compacts the log. Besides the two API
// calls the statement names, the other initiators of a snapshot: VCompress (swaps the index
// object, then saves) and VDeleteIndex of another index (drops, saves, journals VDROP again).
type c14Admin struct {
	name   string
	phases []string
	setup  func(x *vexec.Exec)
	run    func(x *vexec.Exec) error // engine call only: it runs beside the writer and must not touch the model
	after  func(x *vexec.Exec)       // model update, on the case goroutine, once run has returned nil
}

func c14AdminOf(name string) *c14Admin {
	switch name {
	case "snapshot":
		return &c14Admin{name: name, phases: c14SnapPhases, run: func(x *vexec.Exec) error { return x.E.SaveSnapshot() }}
	case "rewrite":
		return &c14Admin{name: name, phases: c14RwPhases, run: func(x *vexec.Exec) error { return x.E.RewriteAOF() }}
	case "compress":
		return &c14Admin{name: name,
			phases: []string{"op.VCompress.rebuilt", "snap.begin", "snap.tmp_written", "snap.truncated", "snap.mode_ended"},
			run:    func(x *vexec.Exec) error { return x.E.VCompress("ix", distance.Float16) },
			after:  func(x *vexec.Exec) { x.M.Idx["ix"].Cfg.Prec = distance.Float16 }, // euclidean: values unchanged
		}
	case "dropother":
		var removed int64
		return &c14Admin{name: name,
			phases: []string{"op.VDeleteIndex.journaled", "snap.begin", "snap.renamed", "snap.shadow_replayed"},
			setup: func(x *vexec.Exec) {
				x.VCreate(vexec.IndexCfg{Name: "other", Metric: distance.Euclidean, Prec: distance.Float32, M: 4, EfC: 8})
				x.VAdd("other", "o0", []float32{1, 2}, map[string]any{"seq": 0.0})
				removed = verifhook.Hits()["op.VDeleteIndex.remove_done"]
			},
			run: func(x *vexec.Exec) error { return x.E.VDeleteIndex("other") },
			after: func(x *vexec.Exec) {
				// the arena directory is removed by a goroutine of its own (see Exec.VDeleteIndex)
				for i := 0; verifhook.Hits()["op.VDeleteIndex.remove_done"] <= removed && i < 2000000; i++ {
					time.Sleep(20 * time.Microsecond)
				}
				delete(x.M.Idx, "other")
			},
		}
	}
	panic("unknown admin " + name)
}

func c14BaseIn(cs *vkit.Case, sub string) *vexec.Exec {
	x := vexec.NewExec(cs, cs.SubDir(sub))
	x.VCreate(vexec.IndexCfg{Name: "ix", Metric: distance.Euclidean, Prec: distance.Float32, M: 4, EfC: 8})
	for i := 0; i < 3; i++ {
		x.VAdd("ix", fmt.Sprintf("p%d", i), []float32{float32(i), 1}, map[string]any{"seq": 0.0})
	}
	x.VLink("ix", "p2", "p0", "r", "", 1, nil)
	x.KVSet("base", []byte("b"))
	return x
}

func c14Base(cs *vkit.Case) *vexec.Exec { return c14BaseIn(cs, "data") }

// gate returns a hook handler that parks the first goroutine reaching it until release.
type c14Gate struct {
	reached chan struct{}
	release chan struct{}
	once    sync.Once
	armed   atomic.Bool
}

func newGate() *c14Gate {
	g := &c14Gate{reached: make(chan struct{}), release: make(chan struct{})}
	g.armed.Store(true)
	return g
}
func (g *c14Gate) handler(string, any) {
	if !g.armed.CompareAndSwap(true, false) {
		return
	}
	close(g.reached)
	<-g.release
}
func (g *c14Gate) open() { g.once.Do(func() { close(g.release) }) }

// The three roles of a forced schedule run through these functions, so that their
// goroutines can be told apart in a goroutine dump (see c14Wait).
//
//go:noinline
func c14AdminRun(a *c14Admin, x *vexec.Exec) error { return a.run(x) }

//go:noinline
func c14OtherRun(a *c14Admin, x *vexec.Exec) error { return a.run(x) }

//go:noinline
func c14CloseRun(e *engine.Engine) error { return e.Close() }

// c14Failed carries a cs.Fail raised inside the writer goroutine (the executor's verdicts) to
// the case goroutine, which raises it again; otherwise it would take the whole child down.
type c14Failed struct{ r any }

func (c14Failed) Error() string { return "the case failed inside the writer goroutine" }

//go:noinline
func c14WriteRun(wr c14Write, x *vexec.Exec) (err error) {
	defer func() {
		if r := recover(); r != nil {
			err = c14Failed{r}
		}
	}()
	return wr.do(x)
}

const (
	c14AdminFrame = "engine_test.c14AdminRun"
	c14OtherFrame = "engine_test.c14OtherRun"
	c14CloseFrame = "engine_test.c14CloseRun"
	c14WriteFrame = "engine_test.c14WriteRun"
	// the delete cascade runs in a goroutine started by VDelete; the writer (Exec.VDelete)
	// sleeps until it is done
	c14CascadeFrame = "engine.(*Engine).VDelete.func"
)

// c14Parked: does the dump show a goroutine with this frame parked on a lock / wait group?
func c14Parked(dump, frame string) bool {
	for _, g := range strings.Split(dump, "\n\n") {
		head, rest, _ := strings.Cut(g, "\n")
		if !strings.Contains(head, "[sync.") && !strings.Contains(head, "[semacquire") {
			continue
		}
		if strings.Contains(rest, frame) {
			return true
		}
	}
	return false
}

// c14Wait waits until reached is closed ("reached"), done delivers ("done"), or a goroutine
// running one of the frames sits on a lock in two consecutive goroutine dumps ("blocked":
// it waits for the side that the harness has parked). After 3 s without any of these the
// answer is "blocked" as well. The answer only selects what the harness releases next: no
// verdict depends on it or on the timer.
func c14Wait(reached <-chan struct{}, done <-chan error, frames ...string) (string, error) {
	step := 2 * time.Millisecond
	seen := 0
	deadline := time.Now().Add(3 * time.Second)
	for {
		select {
		case <-reached:
			return "reached", nil
		case err := <-done:
			return "done", err
		case <-time.After(step):
		}
		if time.Now().After(deadline) {
			return "blocked", nil
		}
		dump := vkit.DumpGoroutines()
		hit := false
		for _, f := range frames {
			hit = hit || c14Parked(dump, f)
		}
		if hit {
			if seen++; seen >= 2 {
				return "blocked", nil
			}
		} else {
			seen = 0
		}
		if step < 64*time.Millisecond {
			step *= 2
		}
	}
}

// c14CloseWritePhase: in order close_at_phase the write is issued while the admin operation
// is parked at this phase: after the state capture when Close comes later than that (the
// write then lives only in the shadow buffer), else at the phase of the Close itself.
func c14CloseWritePhase(admin, closePhase string) string {
	phases, captured := c14SnapPhases, 1
	if admin == "rewrite" {
		phases = c14RwPhases
	}
	for i, p := range phases {
		if p == closePhase && i < captured {
			return closePhase
		}
	}
	return phases[captured]
}

type c14Sched struct {
	w     int
	admin string
	phase string
	// "journaled_before": writer parked between journal and apply while the admin op runs to the phase;
	// "arrives_during": whole write while the admin op is parked at the phase;
	// "arrives_during+overlap": the same, then the OTHER of SaveSnapshot / RewriteAOF is requested while the first is still parked;
	// "close_at_phase": write while the admin op is parked, then Engine.Close while it is parked at the phase
	order string
}

// subsets of the write table for the reduced products (by name)
var c14CompressWrites = []string{"KVSet", "VAdd", "VAddBatch", "VDelete", "VSetMetadata", "VReinforce", "VLink", "VUpdateIndexConfig", "VUpdateAutoLinks", "VDelete(cascade)", "VDelete+VAdd", "VEvolve"}
var c14DropWrites = []string{"KVSet", "VAdd", "VDelete", "VLink", "VCreate", "VDeleteIndex"}
var c14OverlapWrites = []string{"KVSet", "VAdd", "VDelete", "VLink(evolve)+VUnlink+VLink", "VImport+VImportCommit", "VDelete+VAdd+VLink(inverse)"}
var c14CloseWrites = []string{"KVSet", "KVDelete", "VAdd", "VAddBatch", "VDelete", "VSetMetadata", "VLink", "VUnlink+VLink+VUnlink"}

// c14CompressLoses: the rows that fail while finding D-C14-2 is open (generator guard): the
// writer is parked at the journaled point of an operation that afterwards touches the index
// object of "ix", which VCompress has replaced meanwhile. (VSetMetadata / VReinforce /
// VUpdateAutoLinks in the same window happen to survive and stay in.)
func c14CompressLoses(wr c14Write) bool {
	if strings.Contains(wr.name, "(int8") {
		return false // written to index "ax", which is not compressed
	}
	switch wr.hook() {
	case "op.VAdd.journaled", "op.VAddBatch.journaled", "op.VDelete.journaled", "op.VUpdateIndexConfig.journaled":
		return true
	}
	return false
}

// c14Table: the forced-schedule table. full (thorough tier): the reduced products are taken
// over every write and every phase.
func c14Table(full bool) []c14Sched {
	byName := map[string]int{}
	var all []string
	for i, w := range c14Writes {
		byName[w.name] = i
		all = append(all, w.name)
	}
	idx := func(n string) int {
		i, ok := byName[n]
		if !ok {
			panic("no write " + n)
		}
		return i
	}
	var table []c14Sched
	for w := range c14Writes {
		for _, admin := range []string{"snapshot", "rewrite"} {
			for _, ph := range c14AdminOf(admin).phases {
				for _, ord := range []string{"journaled_before", "arrives_during"} {
					table = append(table, c14Sched{w, admin, ph, ord})
				}
			}
		}
	}
	for _, sub := range []struct {
		admin  string
		writes []string
	}{{"compress", c14CompressWrites}, {"dropother", c14DropWrites}} {
		writes, phases := sub.writes, c14AdminOf(sub.admin).phases
		if full {
			writes = all
			phases = append([]string{phases[0]}, c14SnapPhases...)
		}
		for _, n := range writes {
			for _, ph := range phases {
				for _, ord := range []string{"journaled_before", "arrives_during"} {
					table = append(table, c14Sched{idx(n), sub.admin, ph, ord})
				}
			}
		}
	}
	for _, sub := range []struct {
		order  string
		writes []string
	}{{"arrives_during+overlap", c14OverlapWrites}, {"close_at_phase", c14CloseWrites}} {
		writes := sub.writes
		if full {
			writes = all
		}
		for _, n := range writes {
			for _, admin := range []string{"snapshot", "rewrite"} {
				for _, ph := range c14AdminOf(admin).phases {
					table = append(table, c14Sched{idx(n), admin, ph, sub.order})
				}
			}
		}
	}
	return table
}

// c14CloseLost: the phases at which Engine.Close beside a running SaveSnapshot / RewriteAOF
// loses acknowledged writes while finding D-C14-1 is open (generator guard).
var c14CloseLost = map[string]bool{"snap.begin": true, "snap.mode_ended": true, "rw.mode_ended": true}

// C14 — no acknowledged write is lost to a concurrent snapshot, compaction or shutdown.
func TestVerifC14(t *testing.T) {
	vkit.Run(t, "C14", func(ctx *vkit.Ctx) {
		// ---- forced schedules: the table {write op} x {admin op} x {phase} x {order} ----
		table := c14Table(!ctx.Quick())
		ctx.Count("schedule_table_size", int64(len(table)))
		known13 := ctx.IsKnown("D13")
		knownClose := ctx.IsKnown("D-C14-1")
		knownCompress := ctx.IsKnown("D-C14-2")
		ctx.Group("schedule", len(table), func(cs *vkit.Case) {
			defer verifhook.Reset()
			s := table[cs.Idx]
			wr := c14Writes[s.w]
			if known13 && s.order == "journaled_before" && (s.phase == "snap.begin" || s.phase == "rw.begin") {
				// recorded finding D13 (probe below): a write parked between journal and apply
				// while the admin op starts its snapshot mode
				ctx.Count("guard.D13_skipped", 1)
				return
			}
			if knownClose && s.order == "close_at_phase" && c14CloseLost[s.phase] {
				ctx.Count("guard.D-C14-1_skipped", 1)
				return
			}
			if knownCompress && s.admin == "compress" && s.order == "journaled_before" && c14CompressLoses(wr) {
				ctx.Count("guard.D-C14-2_skipped", 1)
				return
			}
			adm := c14AdminOf(s.admin)
			x := c14Base(cs)
			defer func() {
				if x.E != nil {
					x.E.Close()
				}
			}()
			if wr.setup != nil {
				wr.setup(x)
			}
			if adm.setup != nil {
				adm.setup(x)
			}
			cs.Op("schedule: write %s %s, %s at %s", wr.name, s.order, s.admin, s.phase)
			hits0 := verifhook.Hits()
			res := c14RunSchedule(ctx, cs, x, wr, adm, s.phase, s.order)
			cs.Op("outcome: %s", res)
			ctx.Count("sched."+res, 1)
			ctx.Count("order."+s.order, 1)
			// the hook points the schedule relies on must have been passed (a counter, not a
			// timer): a renamed or moved point would turn the row into a sequential run
			hits1 := verifhook.Hits()
			if hits1[s.phase] == hits0[s.phase] {
				ctx.Inconclusive(fmt.Sprintf("schedule %s / %s: hook point %s was never passed (renamed or moved?)", wr.name, s.admin, s.phase))
			}
			if s.order == "journaled_before" && hits1[wr.hook()] == hits0[wr.hook()] {
				ctx.Inconclusive(fmt.Sprintf("schedule %s / %s: the writer never passed hook point %s (renamed or moved?)", wr.name, s.admin, wr.hook()))
			}
			if after := c14After[wr.name]; after != nil {
				if err := after(x); err != nil {
					cs.Fail("second part of %s failed: %v", wr.name, err)
				}
				x.Settle()
			}
			// every acknowledged write (the executor recorded it in the model) must be there
			// now and after a restart (statement, first sentence; for close_at_phase the engine
			// was already closed and opened again: "Close persists every write acknowledged
			// before it")
			if msg := x.CheckFull(); msg != "" {
				cs.Fail("after schedule (%s): %s", res, msg)
			}
			where := fmt.Sprintf("%s %s / %s at %s", wr.name, s.order, s.admin, s.phase)
			c01Restart(ctx, cs, x, "restart after "+where)
			// the first Open may journal repairs of its own (an unfinished delete cascade): what
			// it recovered must still be there after one more restart
			c01Restart(ctx, cs, x, "second restart after "+where)
			ctx.Eval(1)
			ctx.Distinct(fmt.Sprintf("%s|%s|%s|%s|%s", wr.name, s.admin, s.phase, s.order, res))
			ctx.Sample("schedule/"+s.order, 2, map[string]any{"write": wr.name, "admin": s.admin, "phase": s.phase, "order": s.order, "outcome": res})
		})

		ctx.Probe("D13", func(cs *vkit.Case) string {
			defer verifhook.Reset()
			x := c14Base(cs)
			defer func() {
				if x.E != nil {
					x.E.Close()
				}
			}()
			c14RunSchedule(ctx, cs, x, c14Writes[0], c14AdminOf("snapshot"), "snap.begin", "journaled_before")
			x.Settle()
			x.CloseRaw()
			x.Reopen()
			if v, ok := x.E.KVGet("wk"); !ok || string(v) != "acked" {
				return fmt.Sprintf("KVSet(wk) was acknowledged (journaled before SaveSnapshot began, applied after its state capture) but after restart KVGet(wk)=%q,%v", v, ok)
			}
			return ""
		})

		// D-C14-1: Engine.Close beside a running SaveSnapshot / RewriteAOF.
		ctx.Probe("D-C14-1", func(cs *vkit.Case) string {
			defer verifhook.Reset()
			for i, sc := range [][2]string{{"snapshot", "snap.mode_ended"}, {"rewrite", "rw.mode_ended"}, {"snapshot", "snap.begin"}} {
				x := c14BaseIn(cs, fmt.Sprintf("data%d", i))
				res := c14RunSchedule(ctx, cs, x, c14Writes[0], c14AdminOf(sc[0]), sc[1], "close_at_phase")
				msg := x.CheckFull()
				x.Close()
				verifhook.Reset()
				if msg != "" {
					return fmt.Sprintf("KVSet(wk) acknowledged while %s was parked at %s, then Engine.Close (returned nil) while it was parked at %s [%s]; after Open: %s",
						sc[0], c14CloseWritePhase(sc[0], sc[1]), sc[1], res, msg)
				}
			}
			return ""
		})

		// D-C14-2: VCompress swaps the index object while a write sits between journal and apply.
		ctx.Probe("D-C14-2", func(cs *vkit.Case) string {
			defer verifhook.Reset()
			x := c14Base(cs)
			defer func() {
				if x.E != nil {
					x.E.Close()
				}
			}()
			var wr c14Write
			for _, w := range c14Writes {
				if w.name == "VDelete" {
					wr = w
				}
			}
			adm := c14AdminOf("compress")
			res := c14RunSchedule(ctx, cs, x, wr, adm, "snap.begin", "journaled_before")
			x.Settle()
			x.CloseRaw()
			x.Reopen()
			if _, err := x.E.VGet("ix", "p1"); err == nil {
				return fmt.Sprintf("VDelete(ix,p1) was acknowledged (journaled before VCompress(ix) swapped the index, applied to the replaced index object) [%s]; after restart p1 is back", res)
			}
			return ""
		})

		c14Owners(ctx, knownClose)
	})
}

// c14RunSchedule drives one forced schedule and returns a label of what happened.
func c14RunSchedule(ctx *vkit.Ctx, cs *vkit.Case, x *vexec.Exec, wr c14Write, adm *c14Admin, phase, order string) string {
	adminGate := newGate()
	verifhook.Set(phase, adminGate.handler)
	gates := []*c14Gate{adminGate}
	defer func() { // also when the case fails half-way: nobody stays parked (Close waits for some admin ops)
		for _, g := range gates {
			g.open()
		}
	}()
	adminDone := make(chan error, 1)
	writeDone := make(chan error, 1)
	startAdmin := func() { go func() { adminDone <- c14AdminRun(adm, x) }() }
	startWrite := func() { go func() { writeDone <- c14WriteRun(wr, x) }() }
	writeErr := func(err error) {
		if f, ok := err.(c14Failed); ok {
			panic(f.r)
		}
		if err != nil {
			cs.Fail("write %s failed: %v", wr.name, err)
		}
	}
	var outcome []string
	// awaitAdminAtPhase: the admin op has been started and should park at gate g
	awaitAdmin := func(g *c14Gate, parked string) {
		select {
		case <-g.reached:
			outcome = append(outcome, parked)
		case err := <-adminDone:
			adminDone <- err
			outcome = append(outcome, "admin_finished_first")
		case <-time.After(20 * time.Second):
			g.open()
			outcome = append(outcome, "phase_not_reached")
		}
	}
	switch order {
	case "journaled_before":
		wgate := newGate()
		gates = append(gates, wgate)
		verifhook.Set(wr.hook(), wgate.handler)
		startWrite()
		select {
		case <-wgate.reached:
		case err := <-writeDone:
			// the write finished without passing its journaled point (e.g. rejected)
			writeDone <- err
			outcome = append(outcome, "writer_not_parked")
		case <-time.After(20 * time.Second):
			wgate.open()
			outcome = append(outcome, "writer_not_parked")
		}
		startAdmin()
		switch w, err := c14Wait(adminGate.reached, adminDone, c14AdminFrame); w {
		case "reached":
			outcome = append(outcome, "admin_reached_phase")
		case "done":
			adminDone <- err
			outcome = append(outcome, "admin_finished_first")
		default:
			// the admin op waits for the parked writer (the apply gate): release the writer
			outcome = append(outcome, "admin_waits_for_writer")
		}
		wgate.open()
		if w, err := c14Wait(nil, writeDone, c14WriteFrame, c14CascadeFrame); w == "done" {
			writeErr(err)
			adminGate.open()
		} else {
			// a later step of a compound write needs something the admin op holds at its phase
			outcome = append(outcome, "write_waits_for_admin")
			adminGate.open()
			writeErr(<-writeDone)
		}
		if err := <-adminDone; err != nil {
			cs.Fail("%s failed: %v", adm.name, err)
		}
	case "arrives_during", "arrives_during+overlap":
		startAdmin()
		awaitAdmin(adminGate, "admin_parked")
		startWrite()
		writePending := false
		if w, err := c14Wait(nil, writeDone, c14WriteFrame, c14CascadeFrame); w == "done" {
			writeErr(err)
			outcome = append(outcome, "write_completed_during")
		} else {
			// the write needs something the parked admin op holds: let the admin op go on
			outcome = append(outcome, "write_waits_for_admin")
			writePending = true
		}
		var otherDone chan error
		otherPending := false
		if order == "arrives_during+overlap" {
			// statement: "overlapping snapshot+compaction requests". The second request may
			// fail or wait (the statement promises nothing about it); no write may be lost.
			other := c14AdminOf(map[string]string{"snapshot": "rewrite", "rewrite": "snapshot"}[adm.name])
			otherDone = make(chan error, 1)
			go func() { otherDone <- c14OtherRun(other, x) }()
			if w, err := c14Wait(nil, otherDone, c14OtherFrame); w == "done" {
				if err != nil {
					outcome = append(outcome, "second_admin_refused")
				} else {
					outcome = append(outcome, "second_admin_returned_nil")
				}
			} else {
				outcome = append(outcome, "second_admin_waits")
				otherPending = true
			}
		}
		adminGate.open()
		if writePending {
			writeErr(<-writeDone)
		}
		if otherPending {
			if err := <-otherDone; err != nil {
				ctx.Count("sched.second_admin_error_after_wait", 1)
			}
		}
		if err := <-adminDone; err != nil {
			if order == "arrives_during" {
				cs.Fail("%s failed: %v", adm.name, err)
			}
			// with an overlapping request the statement does not promise that either succeeds
			ctx.Count("sched.first_admin_error_with_overlap", 1)
		}
	case "close_at_phase":
		// statement: "Close persists every write acknowledged before it" — whatever a running
		// snapshot / compaction is doing at that moment
		wp := c14CloseWritePhase(adm.name, phase)
		g1 := adminGate
		if wp != phase {
			g1 = newGate()
			gates = append(gates, g1)
			verifhook.Set(wp, g1.handler)
		}
		startAdmin()
		awaitAdmin(g1, "admin_parked")
		startWrite()
		if w, err := c14Wait(nil, writeDone, c14WriteFrame, c14CascadeFrame); w == "done" {
			writeErr(err)
			outcome = append(outcome, "write_completed_during")
		} else {
			outcome = append(outcome, "write_waits_for_admin")
			g1.open()
			adminGate.open()
			writeErr(<-writeDone)
		}
		x.Settle()
		if g1 != adminGate {
			g1.open()
			awaitAdmin(adminGate, "admin_parked_for_close")
		}
		cs.Op("Close() while %s is at %s", adm.name, phase)
		closeDone := make(chan error, 1)
		e := x.E
		go func() { closeDone <- c14CloseRun(e) }()
		w, cerr := c14Wait(nil, closeDone, c14CloseFrame)
		if w == "done" {
			outcome = append(outcome, "close_returned_while_admin_parked")
		} else {
			outcome = append(outcome, "close_waits_for_admin")
		}
		adminGate.open()
		if w != "done" {
			cerr = <-closeDone
		}
		if err := <-adminDone; err != nil {
			// the admin op was overtaken by the shutdown: it may fail, it must not destroy anything
			outcome = append(outcome, "admin_error_after_close")
		}
		x.E = nil
		if cerr != nil {
			cs.Fail("Close beside %s at %s returned an error: %v", adm.name, phase, cerr)
		}
		verifhook.Reset()
		x.Reopen()
	}
	verifhook.Reset()
	if adm.after != nil {
		adm.after(x)
	}
	sort.Strings(outcome)
	return strings.Join(outcome, "+")
}

// c14Owners: the free-running ownership protocol. Each writer owns a set of items (statement:
// "each item owned by one writer"), writes increasing sequence numbers to them and records a
// sequence number after the call has returned (= acknowledged). Beside the writers run an
// admin goroutine (SaveSnapshot / RewriteAOF / both at once) and/or the automatic triggers.
// Oracle: after Close and Open every item is at or after its last acknowledged sequence
// number (and not after the last issued one).
func c14Owners(ctx *vkit.Ctx, knownClose bool) {
	ctx.Group("owners", ctx.N(40, 600), func(cs *vkit.Case) {
		defer verifhook.Reset()
		dir := cs.SubDir("data")
		opts := vexec.Options(dir)
		opts.AOFWriteBufferSize = vkit.Pick(cs.R, []int{64, 4096, 65536})
		// which background trigger is armed (statement: "including automatic background triggers")
		trigger := vkit.Pick(cs.R, []string{"none", "none", "none", "none", "auto_snapshot", "auto_snapshot", "auto_rewrite", "auto_rewrite"})
		withAdmin := trigger == "none" || cs.R.Chance(0.5)
		closeEarly := cs.R.Chance(0.3)
		switch trigger {
		case "auto_snapshot":
			opts.AutoSaveThreshold = 1
			opts.AutoSaveInterval = time.Nanosecond
		case "auto_rewrite":
			opts.AofRewritePercentage = 1
		}
		e, err := engine.Open(opts)
		if err != nil {
			cs.Fail("open: %v", err)
		}
		e.VCreate("ix", distance.Euclidean, 4, 8, distance.Float32, "", nil, nil, nil)
		if trigger == "auto_rewrite" {
			// the trigger compares the log size with the size after the last compaction, which
			// is zero for a log that was never compacted: compact once
			if err := e.RewriteAOF(); err != nil {
				cs.Fail("initial RewriteAOF: %v", err)
			}
		}
		nw := cs.R.Range(2, 6)
		per := cs.R.Range(20, ctx.N(120, 400))
		// the automatic compaction needs a log of more than 1 MB: pad the KV values
		pad := ""
		if trigger == "auto_rewrite" {
			pad = " " + strings.Repeat("p", 4<<10)
		}
		cs.Op("owners: writers=%d per=%d trigger=%s admin_goroutine=%v close_early=%v bufsize=%d", nw, per, trigger, withAdmin, closeEarly, opts.AOFWriteBufferSize)
		// seed-determined yields at hook points widen the journal/apply and phase windows
		yieldSalt := uint32(cs.R.Intn(1 << 30))
		var hits atomic.Uint32
		var snapBegun, rwBegun atomic.Int64
		verifhook.SetGlobal(func(name string, _ any) {
			switch name {
			case "snap.begin":
				snapBegun.Add(1)
			case "rw.begin":
				rwBegun.Add(1)
			}
			h := hits.Add(1)
			if (h*2654435761+yieldSalt)%7 == 0 {
				time.Sleep(time.Duration((h*40503+yieldSalt)%300) * time.Microsecond)
			}
		})
		// per writer: last acknowledged sequence number of each owned item; -1 = the item's
		// state is not determined by acknowledgements any more (one call of a pair failed)
		type ack struct{ kv, vec, edge, kd, dvec, uedge, issued int64 }
		acks := make([]ack, nw)
		fresh := make([][]int64, nw) // fresh ids o<w>_f<s> acknowledged
		var wg sync.WaitGroup
		var adminStop atomic.Bool
		var snaps, rewrites, adminStarted atomic.Int64
		if withAdmin {
			wg.Add(1)
			go func() { // admin goroutine
				defer wg.Done()
				for i := 0; !adminStop.Load(); i++ {
					adminStarted.Add(1)
					switch i % 3 {
					case 0:
						if e.SaveSnapshot() == nil {
							snaps.Add(1)
						}
					case 1:
						if e.RewriteAOF() == nil {
							rewrites.Add(1)
						}
					case 2:
						var w2 sync.WaitGroup
						w2.Add(2)
						go func() { defer w2.Done(); e.SaveSnapshot() }()
						go func() { defer w2.Done(); e.RewriteAOF() }()
						w2.Wait()
					}
					time.Sleep(200 * time.Microsecond)
				}
			}()
		}
		// triggered: the armed background trigger has started its operation often enough
		// (without an admin goroutine every snap.begin / rw.begin comes from the trigger)
		triggered := func() bool {
			switch {
			case trigger == "auto_snapshot" && !withAdmin:
				return snapBegun.Load() >= 2
			case trigger == "auto_rewrite" && !withAdmin:
				return rwBegun.Load() >= 2 // the first one is the explicit call above
			}
			return true
		}
		// with a trigger armed the writers go on (paced) until it has fired while they write; the
		// cap only bounds the case on a starved machine
		maxSteps := int64(per)
		if trigger != "none" {
			maxSteps = int64(per) + 4000
		}
		var writers sync.WaitGroup
		for w := 0; w < nw; w++ {
			writers.Add(1)
			go func(w int) {
				defer writers.Done()
				id := fmt.Sprintf("o%d", w)
				a := &acks[w]
				for s := int64(1); s <= maxSteps; s++ {
					if s > int64(per) {
						if triggered() {
							break
						}
						time.Sleep(2 * time.Millisecond)
						ctx.Touch()
					}
					atomic.StoreInt64(&a.issued, s)
					if e.KVSet("kv_"+id, []byte(fmt.Sprint(s)+pad)) == nil {
						atomic.StoreInt64(&a.kv, s)
					}
					var verr error
					if s == 1 {
						verr = e.VAdd("ix", id, []float32{float32(w), 1}, map[string]any{"seq": float64(s)})
					} else {
						verr = e.VSetMetadata("ix", id, map[string]any{"seq": float64(s)})
					}
					if verr == nil {
						atomic.StoreInt64(&a.vec, s)
					}
					if e.VLink("ix", id, "hub", "r", "", float32(s), nil) == nil {
						atomic.StoreInt64(&a.edge, s)
					}
					// delete + set of a key of its own
					if s%4 == 0 && a.kd >= 0 {
						if e.KVDelete("kd_"+id) != nil || e.KVSet("kd_"+id, []byte(fmt.Sprint(s))) != nil {
							a.kd = -1
						} else {
							atomic.StoreInt64(&a.kd, s)
						}
					}
					// delete + re-add of a vector of its own (no edges: its delete cascade is empty)
					if (s == 1 || s%5 == 0) && a.dvec >= 0 {
						ok := true
						if s > 1 {
							ok = e.VDelete("ix", "d"+id) == nil
						}
						if !ok || e.VAdd("ix", "d"+id, []float32{float32(w), float32(s % 13)}, map[string]any{"seq": float64(s)}) != nil {
							a.dvec = -1
						} else {
							atomic.StoreInt64(&a.dvec, s)
						}
					}
					// unlink + link of an edge of its own
					if s%3 == 0 && a.uedge >= 0 {
						ok := true
						if a.uedge > 0 {
							ok = e.VUnlink("ix", id, "hub2", "u", "", s%2 == 0) == nil
						}
						if !ok || e.VLink("ix", id, "hub2", "u", "", float32(s), nil) != nil {
							a.uedge = -1
						} else {
							atomic.StoreInt64(&a.uedge, s)
						}
					}
					// a fresh vector id
					if s%7 == 0 && s <= int64(per) {
						if e.VAdd("ix", fmt.Sprintf("%s_f%d", id, s), []float32{float32(w), float32(s)}, map[string]any{"seq": float64(s)}) == nil {
							fresh[w] = append(fresh[w], s)
						}
					}
				}
			}(w)
		}
		writers.Wait()
		closeEarly = closeEarly && withAdmin
		if closeEarly && knownClose {
			// recorded finding D-C14-1 (probe): Close beside a running snapshot / compaction
			ctx.Count("guard.D-C14-1_owners_close_not_early", 1)
			closeEarly = false
		}
		var cerr error
		if closeEarly {
			// shutdown while the admin goroutine is inside an operation: no new one is started,
			// the running one overlaps Close ("Close persists every write acknowledged before it")
			adminStop.Store(true)
			cerr = e.Close()
			wg.Wait()
			ctx.Count("owners.close_beside_admin", 1)
		} else {
			adminStop.Store(true)
			wg.Wait()
		}
		verifhook.SetGlobal(nil)
		if !closeEarly {
			cerr = e.Close()
		}
		if cerr != nil {
			cs.Fail("Close: %v", cerr)
		}
		e, err = engine.Open(vexec.Options(dir))
		if err != nil {
			cs.Fail("reopen: %v", err)
		}
		defer e.Close()
		vecSeq := func(id string) int64 {
			d, err := e.VGet("ix", id)
			if err != nil {
				return 0
			}
			f, _ := d.Metadata["seq"].(float64)
			return int64(f)
		}
		edgeSeq := func(id, hub, rel string) int64 {
			var es int64
			edges, _ := e.VGetEdges("ix", id, rel, 0)
			for _, ed := range edges {
				if ed.TargetID == hub {
					es = int64(ed.Weight)
				}
			}
			return es
		}
		checked := 0
		for w := 0; w < nw; w++ {
			id := fmt.Sprintf("o%d", w)
			a := acks[w]
			var got int64
			if v, ok := e.KVGet("kv_" + id); ok {
				fmt.Sscan(string(v), &got)
			}
			demand := func(what string, got, acked int64) {
				if acked < 0 {
					return
				}
				checked++
				if got < acked || got > a.issued {
					cs.Fail("owner %d: %s after restart %d, last acknowledged %d (issued up to %d)", w, what, got, acked, a.issued)
				}
			}
			demand("KV seq", got, a.kv)
			demand("vector metadata seq", vecSeq(id), a.vec)
			demand("edge weight (seq)", edgeSeq(id, "hub", "r"), a.edge)
			got = 0
			if v, ok := e.KVGet("kd_" + id); ok {
				fmt.Sscan(string(v), &got)
			}
			demand("deleted-and-set KV seq", got, a.kd)
			demand("deleted-and-re-added vector seq", vecSeq("d"+id), a.dvec)
			demand("unlinked-and-linked edge weight (seq)", edgeSeq(id, "hub2", "u"), a.uedge)
			for _, s := range fresh[w] {
				checked++
				if g := vecSeq(fmt.Sprintf("%s_f%d", id, s)); g != s {
					cs.Fail("owner %d: fresh vector %s_f%d was acknowledged; after restart its seq reads %d", w, id, s, g)
				}
			}
		}
		ctx.Count("owner_items_checked", int64(checked))
		ctx.Count("snapshots_completed", snaps.Load())
		ctx.Count("rewrites_completed", rewrites.Load())
		ctx.Count("snapshots_begun", snapBegun.Load())
		ctx.Count("rewrites_begun", rwBegun.Load())
		if !withAdmin {
			ctx.Count("auto_triggered."+trigger, map[bool]int64{true: 1, false: 0}[triggered()])
			ctx.Count("auto_cases."+trigger, 1)
		}
		ctx.Count("hook_hits", int64(hits.Load()))
		ctx.Eval(1)
		ctx.Distinct(fmt.Sprintf("owners/%d/%d/%s/%v/%v/%d/%d", nw, per/20, trigger, withAdmin, closeEarly, snaps.Load()/5, rewrites.Load()/5))
	})
}

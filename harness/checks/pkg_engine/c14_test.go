package engine_test

import (
	"fmt"
	"sort"
	"strings"
	"sync"
	"sync/atomic"
	"testing"
	"time"

	"github.com/sanonone/kektordb/internal/zzverif/vexec"
	"github.com/sanonone/kektordb/internal/zzverif/vkit"
	"github.com/sanonone/kektordb/pkg/core/distance"
	"github.com/sanonone/kektordb/pkg/core/hnsw"
	"github.com/sanonone/kektordb/pkg/core/types"
	"github.com/sanonone/kektordb/pkg/engine"
	"github.com/sanonone/kektordb/pkg/verifhook"
)

// The write operations of the forced-schedule table. Each runs through the executor, so
// the reference model records the acknowledged effect.
type c14Write struct {
	name  string // hook prefix op.<name> (unless hook is set)
	setup func(x *vexec.Exec)
	do    func(x *vexec.Exec) error
}

// hookOp: the operation whose journaled point parks the writer (the first one of a compound write)
func (w c14Write) hookOp() string {
	if i := strings.IndexAny(w.name, "(+|"); i > 0 {
		return w.name[:i]
	}
	return w.name
}

func c14Seq(steps ...func() error) error {
	for _, st := range steps {
		if err := st(); err != nil {
			return err
		}
	}
	return nil
}

var c14Writes = []c14Write{
	{"KVSet", nil, func(x *vexec.Exec) error { return x.KVSet("wk", []byte("acked")) }},
	{"KVDelete", func(x *vexec.Exec) { x.KVSet("dk", []byte("old")) }, func(x *vexec.Exec) error { return x.KVDelete("dk") }},
	{"VAdd", nil, func(x *vexec.Exec) error { return x.VAdd("ix", "wnew", []float32{3, 3}, map[string]any{"seq": 7.0}) }},
	{"VAddBatch", nil, func(x *vexec.Exec) error {
		return x.VAddBatch("ix", []types.BatchObject{{Id: "wb1", Vector: []float32{4, 1}, Metadata: map[string]any{"seq": 1.0}}, {Id: "wb2", Vector: []float32{4, 2}}})
	}},
	{"VDelete", nil, func(x *vexec.Exec) error { return x.VDelete("ix", "p1") }},
	{"VSetMetadata", nil, func(x *vexec.Exec) error { return x.VSetMetadata("ix", "p0", map[string]any{"seq": 9.0}) }},
	{"VReinforce", nil, func(x *vexec.Exec) error { return x.VReinforce("ix", []string{"p0"}) }},
	{"VLink", nil, func(x *vexec.Exec) error { return x.VLink("ix", "p0", "p2", "r", "ri", 2, map[string]any{"k": "v"}) }},
	{"VUnlink", nil, func(x *vexec.Exec) error { return x.VUnlink("ix", "p2", "p0", "r", "", false) }},
	{"VUpdateIndexConfig", nil, func(x *vexec.Exec) error {
		mc := hnsw.DefaultMaintenanceConfig()
		mc.DeleteThreshold = 0.33
		return x.VUpdateIndexConfig("ix", mc)
	}},
	{"VCreate", nil, func(x *vexec.Exec) error {
		return x.VCreate(vexec.IndexCfg{Name: "wix", Metric: distance.Cosine, Prec: distance.Float32, M: 4, EfC: 8})
	}},
	// compound writes on one item: when the admin operation captures its state between or
	// after them, records of the sequence are both in the captured state and among the
	// writes journaled again afterwards; replaying them must be neutral
	{"VLink(same)+VUnlink", nil, func(x *vexec.Exec) error {
		return c14Seq(func() error { return x.VLink("ix", "p2", "p0", "r", "", 1, nil) },
			func() error { return x.VUnlink("ix", "p2", "p0", "r", "", false) })
	}},
	{"VUnlink+VLink+VUnlink", nil, func(x *vexec.Exec) error {
		return c14Seq(func() error { return x.VUnlink("ix", "p2", "p0", "r", "", false) },
			func() error { return x.VLink("ix", "p2", "p0", "r", "", 1, nil) },
			func() error { return x.VUnlink("ix", "p2", "p0", "r", "", false) })
	}},
	{"VLink(evolve)+VUnlink+VLink", nil, func(x *vexec.Exec) error {
		return c14Seq(func() error { return x.VLink("ix", "p2", "p0", "r", "ri", 3, nil) },
			func() error { return x.VUnlink("ix", "p2", "p0", "r", "ri", false) },
			func() error { return x.VLink("ix", "p2", "p0", "r", "ri", 3, nil) })
	}},
	{"VUnlink(hard)+VLink", nil, func(x *vexec.Exec) error {
		return c14Seq(func() error { return x.VUnlink("ix", "p2", "p0", "r", "", true) },
			func() error { return x.VLink("ix", "p2", "p0", "r", "", 1, nil) })
	}},
	{"VLink(evolve)+VUnlink(hard)+VLink(other weight)", nil, func(x *vexec.Exec) error {
		return c14Seq(func() error { return x.VLink("ix", "p2", "p0", "r", "ri", 3, nil) },
			func() error { return x.VUnlink("ix", "p2", "p0", "r", "ri", true) },
			func() error { return x.VLink("ix", "p2", "p0", "r", "ri", 5, map[string]any{"k": "v"}) })
	}},
	{"VUnlink+VLink(other weight)+VUnlink+VLink", nil, func(x *vexec.Exec) error {
		return c14Seq(func() error { return x.VUnlink("ix", "p2", "p0", "r", "", false) },
			func() error { return x.VLink("ix", "p2", "p0", "r", "", 4, nil) },
			func() error { return x.VUnlink("ix", "p2", "p0", "r", "", false) },
			func() error { return x.VLink("ix", "p2", "p0", "r", "", 6, nil) })
	}},
	// writes that straddle the admin operation: the first part is issued as the schedule says,
	// the second part (c14After) once the snapshot / compaction has completed
	{"VAdd|VDelete(after)", nil, func(x *vexec.Exec) error {
		return x.VAdd("ix", "straddle", []float32{7, 7}, map[string]any{"seq": 1.0})
	}},
	{"VSetMetadata|VDelete(after)", nil, func(x *vexec.Exec) error { return x.VSetMetadata("ix", "p1", map[string]any{"seq": 3.0}) }},
	{"VLink|VUnlink(after)", nil, func(x *vexec.Exec) error { return x.VLink("ix", "p1", "p0", "r", "ri", 2, nil) }},
	{"VDelete+VAdd", nil, func(x *vexec.Exec) error {
		return c14Seq(func() error { return x.VDelete("ix", "p1") },
			func() error { return x.VAdd("ix", "p1", []float32{9, 9}, map[string]any{"seq": 5.0}) })
	}},
	{"VSetMetadata+VSetMetadata", nil, func(x *vexec.Exec) error {
		return c14Seq(func() error { return x.VSetMetadata("ix", "p0", map[string]any{"seq": 9.0, "a": "x"}) },
			func() error { return x.VSetMetadata("ix", "p0", map[string]any{"seq": 10.0}) })
	}},
}

// c14After: the second part of a straddling write.
var c14After = map[string]func(x *vexec.Exec) error{
	"VAdd|VDelete(after)":         func(x *vexec.Exec) error { return x.VDelete("ix", "straddle") },
	"VSetMetadata|VDelete(after)": func(x *vexec.Exec) error { return x.VDelete("ix", "p1") },
	"VLink|VUnlink(after)":        func(x *vexec.Exec) error { return x.VUnlink("ix", "p1", "p0", "r", "ri", false) },
}

var c14SnapPhases = []string{"snap.begin", "snap.tmp_written", "snap.renamed", "snap.truncated", "snap.mode_ended", "snap.shadow_replayed"}
var c14RwPhases = []string{"rw.begin", "rw.captured", "rw.tmp_flushed", "rw.replaced", "rw.mode_ended", "rw.shadow_replayed"}

func c14Base(cs *vkit.Case) *vexec.Exec {
	x := vexec.NewExec(cs, cs.SubDir("data"))
	x.VCreate(vexec.IndexCfg{Name: "ix", Metric: distance.Euclidean, Prec: distance.Float32, M: 4, EfC: 8})
	for i := 0; i < 3; i++ {
		x.VAdd("ix", fmt.Sprintf("p%d", i), []float32{float32(i), 1}, map[string]any{"seq": 0.0})
	}
	x.VLink("ix", "p2", "p0", "r", "", 1, nil)
	x.KVSet("base", []byte("b"))
	return x
}

// gate returns a hook handler that parks the first goroutine reaching it until release.
type c14Gate struct {
	reached chan struct{}
	release chan struct{}
	once    sync.Once
	armed   atomic.Bool
}

func newGate() *c14Gate {
	g := &c14Gate{reached: make(chan struct{}), release: make(chan struct{})}
	g.armed.Store(true)
	return g
}
func (g *c14Gate) handler(string, any) {
	if !g.armed.CompareAndSwap(true, false) {
		return
	}
	close(g.reached)
	<-g.release
}
func (g *c14Gate) open() { g.once.Do(func() { close(g.release) }) }

func waitOr(cs *vkit.Case, ch <-chan struct{}, what string) bool {
	select {
	case <-ch:
		return true
	case <-time.After(20 * time.Second):
		return false
	}
}

// C14 — no acknowledged write is lost to a concurrent snapshot, compaction or shutdown.
func TestVerifC14(t *testing.T) {
	vkit.Run(t, "C14", func(ctx *vkit.Ctx) {
		// ---- forced schedules: the complete table {write op} x {admin op} x {phase} x {order} ----
		type sched struct {
			w     int
			admin string
			phase string
			order string // "journaled_before": writer parked between journal and apply while the admin op runs to the phase; "arrives_during": whole write while the admin op is parked at the phase
		}
		var table []sched
		for w := range c14Writes {
			for _, admin := range []string{"snapshot", "rewrite"} {
				phases := c14SnapPhases
				if admin == "rewrite" {
					phases = c14RwPhases
				}
				for _, ph := range phases {
					for _, ord := range []string{"journaled_before", "arrives_during"} {
						table = append(table, sched{w, admin, ph, ord})
					}
				}
			}
		}
		ctx.Count("schedule_table_size", int64(len(table)))
		known13 := ctx.IsKnown("D13")
		ctx.Group("schedule", len(table), func(cs *vkit.Case) {
			defer verifhook.Reset()
			s := table[cs.Idx]
			wr := c14Writes[s.w]
			if known13 && s.order == "journaled_before" && (s.phase == "snap.begin" || s.phase == "rw.begin") {
				// recorded finding D13 (probe below): a write parked between journal and apply
				// while the admin op starts its snapshot mode
				ctx.Count("guard.D13_skipped", 1)
				return
			}
			x := c14Base(cs)
			defer func() {
				if x.E != nil {
					x.E.Close()
				}
			}()
			if wr.setup != nil {
				wr.setup(x)
			}
			cs.Op("schedule: write %s %s, %s at %s", wr.name, s.order, s.admin, s.phase)
			res := c14RunSchedule(cs, x, wr, s.admin, s.phase, s.order)
			ctx.Count("sched."+res, 1)
			if after := c14After[wr.name]; after != nil {
				if err := after(x); err != nil {
					cs.Fail("second part of %s failed: %v", wr.name, err)
				}
				x.Settle()
			}
			// every acknowledged write (the executor recorded it in the model) must be there
			// now and after a restart
			if msg := x.CheckFull(); msg != "" {
				cs.Fail("after schedule: %s", msg)
			}
			c01Restart(ctx, cs, x, fmt.Sprintf("restart after %s %s / %s at %s", wr.name, s.order, s.admin, s.phase))
			ctx.Eval(1)
			ctx.Distinct(fmt.Sprintf("%s|%s|%s|%s|%s", wr.name, s.admin, s.phase, s.order, res))
			ctx.Sample("schedule", 3, map[string]any{"write": wr.name, "admin": s.admin, "phase": s.phase, "order": s.order, "outcome": res})
		})

		ctx.Probe("D13", func(cs *vkit.Case) string {
			defer verifhook.Reset()
			x := c14Base(cs)
			defer func() {
				if x.E != nil {
					x.E.Close()
				}
			}()
			c14RunSchedule(cs, x, c14Writes[0], "snapshot", "snap.begin", "journaled_before")
			x.Settle()
			x.CloseRaw()
			x.Reopen()
			if v, ok := x.E.KVGet("wk"); !ok || string(v) != "acked" {
				return fmt.Sprintf("KVSet(wk) was acknowledged (journaled before SaveSnapshot began, applied after its state capture) but after restart KVGet(wk)=%q,%v", v, ok)
			}
			return ""
		})

		// ---- free-running ownership protocol ----
		ctx.Group("owners", ctx.N(40, 600), func(cs *vkit.Case) {
			defer verifhook.Reset()
			dir := cs.SubDir("data")
			opts := vexec.Options(dir)
			auto := cs.R.Chance(0.3)
			if auto {
				opts.AutoSaveThreshold = 1
				opts.AutoSaveInterval = time.Nanosecond
			}
			e, err := engine.Open(opts)
			if err != nil {
				cs.Fail("open: %v", err)
			}
			e.VCreate("ix", distance.Euclidean, 4, 8, distance.Float32, "", nil, nil, nil)
			nw := cs.R.Range(2, 6)
			per := cs.R.Range(20, ctx.N(120, 400))
			// seed-determined yields at hook points widen the journal/apply and phase windows
			yieldSalt := uint32(cs.R.Intn(1 << 30))
			var hits atomic.Uint32
			verifhook.SetGlobal(func(name string, _ any) {
				h := hits.Add(1)
				if (h*2654435761+yieldSalt)%7 == 0 {
					time.Sleep(time.Duration((h*40503+yieldSalt)%300) * time.Microsecond)
				}
			})
			type ack struct{ kv, vec, edge int64 }
			acks := make([]ack, nw)
			var wg sync.WaitGroup
			var adminStop atomic.Bool
			var snaps, rewrites atomic.Int64
			wg.Add(1)
			go func() { // admin goroutine
				defer wg.Done()
				for i := 0; !adminStop.Load(); i++ {
					switch i % 3 {
					case 0:
						if e.SaveSnapshot() == nil {
							snaps.Add(1)
						}
					case 1:
						if e.RewriteAOF() == nil {
							rewrites.Add(1)
						}
					case 2:
						var w2 sync.WaitGroup
						w2.Add(2)
						go func() { defer w2.Done(); e.SaveSnapshot() }()
						go func() { defer w2.Done(); e.RewriteAOF() }()
						w2.Wait()
					}
					time.Sleep(200 * time.Microsecond)
				}
			}()
			var writers sync.WaitGroup
			for w := 0; w < nw; w++ {
				writers.Add(1)
				go func(w int) {
					defer writers.Done()
					id := fmt.Sprintf("o%d", w)
					for s := int64(1); s <= int64(per); s++ {
						if e.KVSet("kv_"+id, []byte(fmt.Sprint(s))) == nil {
							atomic.StoreInt64(&acks[w].kv, s)
						}
						var verr error
						if s == 1 {
							verr = e.VAdd("ix", id, []float32{float32(w), 1}, map[string]any{"seq": float64(s)})
						} else {
							verr = e.VSetMetadata("ix", id, map[string]any{"seq": float64(s)})
						}
						if verr == nil {
							atomic.StoreInt64(&acks[w].vec, s)
						}
						if e.VLink("ix", id, "hub", "r", "", float32(s), nil) == nil {
							atomic.StoreInt64(&acks[w].edge, s)
						}
					}
				}(w)
			}
			writers.Wait()
			if auto {
				time.Sleep(1200 * time.Millisecond) // let the 1 s background ticker fire once (no verdict depends on it)
			}
			adminStop.Store(true)
			wg.Wait()
			verifhook.SetGlobal(nil)
			if err := e.Close(); err != nil {
				cs.Fail("Close: %v", err)
			}
			e, err = engine.Open(vexec.Options(dir))
			if err != nil {
				cs.Fail("reopen: %v", err)
			}
			defer e.Close()
			for w := 0; w < nw; w++ {
				id := fmt.Sprintf("o%d", w)
				var got int64
				if v, ok := e.KVGet("kv_" + id); ok {
					fmt.Sscan(string(v), &got)
				}
				if got < acks[w].kv || got > int64(per) {
					cs.Fail("owner %d: KV seq after restart %d, last acknowledged %d (issued up to %d)", w, got, acks[w].kv, per)
				}
				d, err := e.VGet("ix", id)
				var vs int64
				if err == nil {
					if f, ok := d.Metadata["seq"].(float64); ok {
						vs = int64(f)
					}
				}
				if vs < acks[w].vec || vs > int64(per) {
					cs.Fail("owner %d: vector metadata seq after restart %d, last acknowledged %d", w, vs, acks[w].vec)
				}
				var es int64
				edges, _ := e.VGetEdges("ix", id, "r", 0)
				for _, ed := range edges {
					if ed.TargetID == "hub" {
						es = int64(ed.Weight)
					}
				}
				if es < acks[w].edge || es > int64(per) {
					cs.Fail("owner %d: edge weight (seq) after restart %d, last acknowledged %d", w, es, acks[w].edge)
				}
			}
			ctx.Count("owner_items_checked", int64(3*nw))
			ctx.Count("snapshots_completed", snaps.Load())
			ctx.Count("rewrites_completed", rewrites.Load())
			ctx.Count("hook_hits", int64(hits.Load()))
			ctx.Eval(1)
			ctx.Distinct(fmt.Sprintf("owners/%d/%d/%v/%d/%d", nw, per/20, auto, snaps.Load()/5, rewrites.Load()/5))
		})
	})
}

// c14RunSchedule drives one forced schedule and returns a label of what happened.
func c14RunSchedule(cs *vkit.Case, x *vexec.Exec, wr c14Write, admin, phase, order string) string {
	adminGate := newGate()
	verifhook.Set(phase, adminGate.handler)
	runAdmin := func() error {
		if admin == "snapshot" {
			return x.E.SaveSnapshot()
		}
		return x.E.RewriteAOF()
	}
	adminDone := make(chan error, 1)
	writeDone := make(chan error, 1)
	var outcome []string
	switch order {
	case "journaled_before":
		wgate := newGate()
		verifhook.Set("op."+wr.hookOp()+".journaled", wgate.handler)
		go func() { writeDone <- wr.do(x) }()
		if !waitOr(cs, wgate.reached, "writer at journaled") {
			// the write finished without passing its journaled point (e.g. rejected)
			wgate.open()
			outcome = append(outcome, "writer_not_parked")
		}
		go func() { adminDone <- runAdmin() }()
		select {
		case <-adminGate.reached:
			outcome = append(outcome, "admin_reached_phase")
		case err := <-adminDone:
			adminDone <- err
			outcome = append(outcome, "admin_finished_first")
		case <-time.After(3 * time.Second):
			// the admin op waits for the parked writer (e.g. a lock): release the writer
			outcome = append(outcome, "admin_waits_for_writer")
		}
		wgate.open()
		select {
		case err := <-writeDone:
			if err != nil {
				cs.Fail("write %s failed: %v", wr.name, err)
			}
			adminGate.open()
		case <-time.After(3 * time.Second):
			// a later step of a compound write needs something the admin op holds at its phase
			outcome = append(outcome, "write_waits_for_admin")
			adminGate.open()
			if err := <-writeDone; err != nil {
				cs.Fail("write %s failed: %v", wr.name, err)
			}
		}
		if err := <-adminDone; err != nil {
			cs.Fail("%s failed: %v", admin, err)
		}
	case "arrives_during":
		go func() { adminDone <- runAdmin() }()
		if !waitOr(cs, adminGate.reached, "admin at phase") {
			adminGate.open()
			outcome = append(outcome, "phase_not_reached")
		} else {
			outcome = append(outcome, "admin_parked")
		}
		go func() { writeDone <- wr.do(x) }()
		select {
		case err := <-writeDone:
			if err != nil {
				cs.Fail("write %s failed: %v", wr.name, err)
			}
			outcome = append(outcome, "write_completed_during")
			adminGate.open()
		case <-time.After(3 * time.Second):
			// the write needs something the parked admin op holds: let the admin op go on
			outcome = append(outcome, "write_waits_for_admin")
			adminGate.open()
			if err := <-writeDone; err != nil {
				cs.Fail("write %s failed: %v", wr.name, err)
			}
		}
		if err := <-adminDone; err != nil {
			cs.Fail("%s failed: %v", admin, err)
		}
	}
	verifhook.Reset()
	sort.Strings(outcome)
	return strings.Join(outcome, "+")
}

package engine_test

import (
	"bytes"
	"fmt"
	"math"
	"reflect"
	"runtime"
	"sort"
	"strings"
	"testing"
	"time"

	"github.com/sanonone/kektordb/internal/zzverif/vexec"
	"github.com/sanonone/kektordb/internal/zzverif/vkit"
	"github.com/sanonone/kektordb/pkg/core"
	"github.com/sanonone/kektordb/pkg/core/distance"
	"github.com/sanonone/kektordb/pkg/core/hnsw"
	"github.com/sanonone/kektordb/pkg/core/types"
)

// C04 — the live engine behaves like a simple map-of-records state machine.
//
// Three groups:
//   - directed: fixed templates for the orderings / inputs the property singles out and random
//     episodes reach rarely (vector-less adds, reserved memory keys, the parallel batch path,
//     the fast import path, the int8 range, caller-owned buffers, large dimensions);
//   - random:   random histories over the small universe of vexec.Gen;
//   - bulk:     histories on an index of 40-100 records, with batches / imports large enough
//     for the parallel insert paths (several items per worker).
//
// Oracle = vexec.CheckFull (every read of the property against the reference model) plus the
// C04-only reads and rules of c04Mon below.
func TestVerifC04(t *testing.T) {
	vkit.Run(t, "C04", func(ctx *vkit.Ctx) {
		c04Probes(ctx)
		ctx.Assume("which insert path a batch / import takes (evidence counters batch_parallel, import_parallel, ...) is derived from the model with the thresholds read in hnsw_index.go: AddBatch is parallel when live ids >= efConstruction, AddBatchFast when live ids >= max(2*M, 40); the engine offers no hook to observe the path itself")
		ctx.Assume("metadata maps returned by reads are mutated at their top level only: nested values are documented as shared and read-only (core.go, getMetadataForNode CONTRACT)")

		ctx.Group("directed", len(c04Templates)*ctx.N(3, 24), func(cs *vkit.Case) {
			tpl := c04Templates[cs.Idx%len(c04Templates)]
			x := vexec.NewExec(cs, cs.SubDir("data"))
			defer c04Close(x)
			g := vexec.NewGen(cs.R)
			c04Guards(ctx, g)
			g.ReservedMeta = true
			t := &c04Run{ctx: ctx, cs: cs, x: x, g: g, mon: newC04Mon(ctx, cs, x)}
			tpl.run(t)
			ctx.Count("directed."+tpl.name, 1)
			c04Finish(ctx, cs, x)
		})

		ctx.Group("random", ctx.N(4000, 60000), func(cs *vkit.Case) {
			x := vexec.NewExec(cs, cs.SubDir("data"))
			defer c04Close(x)
			g := vexec.NewGen(cs.R)
			c04Guards(ctx, g)
			c04Widen(cs, g)
			c04Scribble(ctx, x, cs.R.Chance(0.5))
			mon := newC04Mon(ctx, cs, x)
			nops := cs.R.Range(25, ctx.N(45, 70))
			if cs.R.Chance(0.15) { // episodes with a larger universe
				g.IDs = append(g.IDs, "m0", "m1", "m2", "m3", "m4", "m5", "m6", "m7", "m8", "m9")
				nops *= 2
			}
			for i := 0; i < nops; i++ {
				if cs.R.Chance(0.12) {
					g.Admin(x)
				} else {
					g.Step(x)
				}
				ctx.Count("ops", 1)
				mon.afterOp(fmt.Sprintf("after op %d", i))
				if i%5 == 4 || i == nops-1 {
					mon.full(fmt.Sprintf("after op %d", i))
				}
				if cs.R.Chance(0.03) {
					x.Restart()
					mon.full(fmt.Sprintf("after restart (op %d)", i))
				}
			}
			c04Finish(ctx, cs, x)
		})

		ctx.Group("bulk", ctx.N(120, 2000), func(cs *vkit.Case) {
			x := vexec.NewExec(cs, cs.SubDir("data"))
			defer c04Close(x)
			c04Bulk(ctx, cs, x)
			c04Finish(ctx, cs, x)
		})
	})
}

func c04Close(x *vexec.Exec) {
	if x.E != nil {
		x.E.Close()
	}
}

// c04Finish registers the episode in the evidence.
func c04Finish(ctx *vkit.Ctx, cs *vkit.Case, x *vexec.Exec) {
	ctx.Eval(1)
	key := x.KindKey()
	for _, k := range x.Kinds {
		ctx.Count("kind."+k, 1)
	}
	if (strings.Contains(key, "vdelete") || strings.Contains(key, "vdrop")) &&
		(strings.Contains(key, "vacuum") || strings.Contains(key, "refine") || strings.Contains(key, "snapshot") || strings.Contains(key, "rewrite") || strings.Contains(key, "vcompress")) {
		ctx.Distinct(cs.Group + ":" + key)
	}
	ctx.Sample("episode."+cs.Group, 1, map[string]any{"ops": cs.Ops()[:min(len(cs.Ops()), 25)]})
}

func c04Guards(ctx *vkit.Ctx, g *vexec.Gen) {}

// c04Scribble switches the overwriting of caller-owned buffers on. Guard of D-C04-1: while
// that finding is open, the values nested inside the metadata handed over are left alone
// (everything else - vectors, KV values, the top level of the maps, batch items - is still
// overwritten).
func c04Scribble(ctx *vkit.Ctx, x *vexec.Exec, on bool) {
	x.Scribble = on
	x.ScribbleNested = on && !ctx.IsKnown("D-C04-1")
}

func c04Probes(ctx *vkit.Ctx) {
	// D-C04-1: a list / object / typed slice given as a metadata VALUE is stored by reference.
	// The caller changing its own slice after the call changes what reads return (and a restart
	// changes it back: the journal holds the value of the moment of the call).
	ctx.Probe("D-C04-1", func(cs *vkit.Case) string {
		x := vexec.NewExec(cs, cs.SubDir("data"))
		defer c04Close(x)
		x.VCreate(vexec.IndexCfg{Name: "ia", Metric: distance.Euclidean, Prec: distance.Float32, M: 4, EfC: 8})
		x.ScribbleNested, x.Scribble = true, true
		x.VAdd("ia", "p1", []float32{1, 2}, map[string]any{"tags": []any{"a", "b"}, "cat": "alpha"})
		if msg := x.CheckRecord("ia", "p1"); msg != "" {
			return "list value, single add, the caller's list overwritten after the call: " + msg
		}
		x.VAddBatch("ia", []types.BatchObject{{Id: "p2", Vector: []float32{3, 4}, Metadata: map[string]any{"ts": []string{"x", "y"}}}})
		if msg := x.CheckRecord("ia", "p2"); msg != "" {
			return "[]string value, batch add, the caller's slice overwritten after the call: " + msg
		}
		x.VSetMetadata("ia", "p1", map[string]any{"obj": map[string]any{"k": "v"}})
		if msg := x.CheckRecord("ia", "p1"); msg != "" {
			return "object value, VSetMetadata, the caller's map overwritten after the call: " + msg
		}
		return ""
	})
}

// c04Dims: vector dimensions of the random group (the property quantifies over "vector
// dimensions"; 1, odd sizes and sizes around SIMD widths included; small ones more often).
var c04Dims = []int{1, 2, 2, 3, 3, 4, 4, 5, 8, 8, 16, 17, 33}

// c04Widen switches on the opt-in generator branches of vexec.Gen for C04.
func c04Widen(cs *vkit.Case, g *vexec.Gen) {
	r := cs.R
	g.Dim = vkit.Pick(r, c04Dims)
	if r.Chance(0.3) { // a dimension of its own for every index name
		g.DimOf = map[string]int{}
		for _, name := range g.Indexes {
			g.DimOf[name] = vkit.Pick(r, c04Dims)
		}
	}
	g.NilVecPct = 8
	g.ReservedMeta = true
	if r.Chance(0.1) { // ids with the graph-id separator, a blank, non-ASCII ("re-added id", delete cascade, evolve)
		g.IDs = append(g.IDs, "a::b", "é x")
	}
	if r.Chance(0.1) { // "any number of indexes": five names, two of them not plain ASCII words
		g.Indexes = append(g.Indexes, "Ünï x", "d.e")
	}
	g.CfgHook = func(c *vexec.IndexCfg) { // "not provided" M / efConstruction (defaults 16 / 200)
		if r.Chance(0.06) {
			c.M = 0
		}
		if r.Chance(0.06) {
			c.EfC = 0
		}
	}
}

// ---- monitor: the reads and rules only C04 makes --------------------------------------------

type c04Mon struct {
	ctx *vkit.Ctx
	cs  *vkit.Case
	x   *vexec.Exec
	// last int8 read of every live record of an int8 index (keyed by the model record: a
	// re-added id is a new record)
	i8 map[*vexec.Rec][]float32
	// precision of every model index as of the previous operation
	prec map[*vexec.MIndex]distance.PrecisionType
	nk   int // op kinds already accounted for
	// insert path of the last acknowledged batch / import ("" when the last operation was none)
	lastPath string
	// ids deleted and added again since the index was last vacuumed
	readd map[string]map[string]int // index -> id -> 1 deleted, 2 re-added
}

func newC04Mon(ctx *vkit.Ctx, cs *vkit.Case, x *vexec.Exec) *c04Mon {
	return &c04Mon{ctx: ctx, cs: cs, x: x, i8: map[*vexec.Rec][]float32{}, prec: map[*vexec.MIndex]distance.PrecisionType{}, readd: map[string]map[string]int{}}
}

func c04EfC(c vexec.IndexCfg) int { return c.EfC } // the model stores the defaults already

// afterOp runs after EVERY generator step / directed operation: evidence counters derived from
// the model, the range rule of a compression, and the light read check of the touched ids
// (property: "each read ... returns exactly what a straightforward reference model predicts" -
// states that live for fewer than 5 operations are read too).
func (m *c04Mon) afterOp(when string) {
	x, M := m.x, m.x.M
	var kinds []string
	for _, k := range x.Kinds[m.nk:] {
		if k != "restart" { // a restart is not followed by afterOp
			kinds = append(kinds, k)
		}
	}
	m.nk = len(x.Kinds)
	touched := x.Touched
	x.Touched = nil
	m.lastPath = ""

	// --- which insert path did an acknowledged batch / import take (model-derived) ---
	if len(kinds) > 0 && (kinds[0] == "vaddbatch" || kinds[0] == "vimport") && len(touched) > 0 {
		acked := !x.Rejected || len(kinds) > 1 // [vimport, vimportcommit]: the import itself was acknowledged
		if mi := M.Idx[touched[0].Index]; acked && mi != nil {
			n := len(touched)
			before := len(mi.Recs) - n
			thr := c04EfC(mi.Cfg)
			label := "batch"
			if kinds[0] == "vimport" {
				label = "import"
				thr = max(2*mi.Cfg.M, 40)
			}
			if before >= thr {
				m.lastPath = label + "_parallel"
				if n > runtime.NumCPU() {
					m.ctx.Count(label+"_parallel_multi_item_chunks", 1)
				}
				if mi.Cfg.Metric == distance.Cosine && mi.Cfg.Prec == distance.Float32 {
					m.ctx.Count(label+"_parallel_cosine_f32", 1)
				}
			} else {
				m.lastPath = label + "_sequential"
			}
			m.ctx.Count(m.lastPath, 1)
		}
	}
	// --- delete -> re-add -> vacuum (evidence only) ---
	for _, k := range kinds {
		switch k {
		case "vdelete":
			if len(touched) == 1 && !x.Rejected {
				t := touched[0]
				if m.readd[t.Index] == nil {
					m.readd[t.Index] = map[string]int{}
				}
				m.readd[t.Index][t.ID] = 1
			}
		case "vadd", "vaddbatch", "vimport":
			for _, t := range touched {
				if m.readd[t.Index][t.ID] == 1 && M.Idx[t.Index] != nil && M.Idx[t.Index].Recs[t.ID] != nil {
					m.readd[t.Index][t.ID] = 2
				}
			}
		case "vacuum":
			if ops := m.cs.Ops(); len(ops) > 0 {
				if ix, ok := strings.CutPrefix(ops[len(ops)-1], "VTriggerMaintenance("); ok {
					ix, _, _ = strings.Cut(ix, ",")
					for _, st := range m.readd[ix] {
						if st == 2 {
							m.ctx.Count("readd_then_vacuum", 1)
							break
						}
					}
					delete(m.readd, ix)
				}
			}
		case "vdrop", "vcompress":
			m.readd = map[string]map[string]int{}
		}
	}

	// --- compression to int8: the trained range must cover the data that was compressed ---
	// Property: compression "never change[s] what reads return, except for what [it is]
	// documented to change". Documented (DOCUMENTATION.md 4.2, pkg/core/distance/README.md): int8
	// is a symmetric scalar quantisation whose range is the 99.9th percentile of the absolute
	// values it is trained on. A range below that clips live data (a read then returns a
	// value far from the stored one), which is more than the documented rounding. Only the
	// lower bound is demanded (a wider range, e.g. the absolute maximum, is no less faithful).
	prec := map[*vexec.MIndex]distance.PrecisionType{}
	for _, name := range vexec.SortedKeys(M.Idx) {
		mi := M.Idx[name]
		if mi.Cfg.Prec == distance.Int8 && m.prec[mi] == distance.Float32 {
			var vals []float64
			for _, r := range mi.Recs { // Exec.VCompress left the normalised vectors here
				for _, c := range r.Vec {
					vals = append(vals, math.Abs(float64(c)))
				}
			}
			sort.Float64s(vals)
			if len(vals) > 0 {
				q := vals[min(int(float64(len(vals))*0.999), len(vals)-1)]
				if a := float64(x.AbsMax(name)); a < q*(1-1e-5) {
					m.cs.Fail("%s: VCompress(%s,int8) trained the range %v, but the 99.9th percentile of the %d compressed components is %v: live vectors are clipped", when, name, a, len(vals), q)
				}
				m.ctx.Count("compress_int8_range_checked", 1)
			}
		}
		if mi.Cfg.Prec != distance.Float32 && m.prec[mi] == distance.Float32 {
			m.ctx.Count("compress_ok", 1)
		}
		prec[mi] = mi.Cfg.Prec
	}
	m.prec = prec

	// --- light read check of the touched ids: get one, get many, count ---
	if len(touched) == 0 {
		return
	}
	byIndex := map[string][]string{}
	var order []string
	seen := map[vexec.Touch]bool{}
	for _, t := range touched {
		if seen[t] {
			continue
		}
		seen[t] = true
		if _, ok := byIndex[t.Index]; !ok {
			order = append(order, t.Index)
		}
		byIndex[t.Index] = append(byIndex[t.Index], t.ID)
	}
	for _, ix := range order {
		for _, id := range byIndex[ix] {
			if msg := x.CheckRecord(ix, id); msg != "" {
				m.cs.Fail("%s: %s", when, msg)
			}
		}
		mi := M.Idx[ix]
		if mi == nil {
			continue
		}
		if msg := m.many(ix, byIndex[ix]); msg != "" {
			m.cs.Fail("%s: %s", when, msg)
		}
		info, err := x.E.DB.GetSingleVectorIndexInfoAPI(ix)
		if err != nil {
			m.cs.Fail("%s: index info of %s: %v", when, ix, err)
		}
		if info.VectorCount != len(mi.Recs) {
			m.cs.Fail("%s: index %s VectorCount=%d want %d", when, ix, info.VectorCount, len(mi.Recs))
		}
	}
	m.ctx.Count("light_checks", 1)
}

// many: VGetMany of a duplicate-free id list returns exactly the live ones among them, each
// equal to the model record ("get many"). The returned maps are then overwritten at their top
// level (they are the caller's) and the records read again.
func (m *c04Mon) many(ix string, ids []string) string {
	x := m.x
	mi := x.M.Idx[ix]
	got, err := x.E.VGetMany(ix, ids)
	if err != nil {
		return fmt.Sprintf("VGetMany(%s,%d ids): %v", ix, len(ids), err)
	}
	asked := map[string]bool{}
	want := 0
	for _, id := range ids {
		asked[id] = true
		if mi.Recs[id] != nil {
			want++
		}
	}
	seen := map[string]bool{}
	for _, d := range got {
		if !asked[d.ID] {
			return fmt.Sprintf("VGetMany(%s,%v) returned %s, which was not asked for", ix, ids, d.ID)
		}
		if seen[d.ID] {
			return fmt.Sprintf("VGetMany(%s,%v) returned %s twice", ix, ids, d.ID)
		}
		seen[d.ID] = true
		r := mi.Recs[d.ID]
		if r == nil {
			return fmt.Sprintf("VGetMany(%s,%v) returned non-live id %s", ix, ids, d.ID)
		}
		if ok, why := vexec.VecMatch(mi.Cfg, r.Vec, d.Vector, x.AbsMax(ix)); !ok {
			return fmt.Sprintf("VGetMany(%s) id %s vector: %s", ix, d.ID, why)
		}
		if msg := vexec.MetaMatch(r, d.Metadata); msg != "" {
			return fmt.Sprintf("VGetMany(%s) id %s: %s", ix, d.ID, msg)
		}
	}
	if len(got) != want {
		return fmt.Sprintf("VGetMany(%s,%v) returned %d records, %d of the ids are live", ix, ids, len(got), want)
	}
	if len(got) > 0 {
		for _, d := range got {
			c04ScribbleTop(d.Metadata)
		}
		for _, d := range got {
			if msg := x.CheckRecord(ix, d.ID); msg != "" {
				return "after overwriting the metadata maps VGetMany returned: " + msg
			}
		}
	}
	return ""
}

// c04ScribbleTop overwrites a metadata map a read returned (top level only, see Assume).
func c04ScribbleTop(md map[string]any) {
	if md == nil {
		return
	}
	for k := range md {
		md[k] = "SCRIBBLED"
	}
	md["zz_scribbled"] = true
}

// full = the shared full read-out + the C04-only reads.
func (m *c04Mon) full(when string) {
	if msg := m.x.CheckFull(); msg != "" {
		m.cs.Fail("%s: %s", when, msg)
	}
	if msg := m.wide(); msg != "" {
		m.cs.Fail("%s: %s", when, msg)
	}
	if msg := m.int8(); msg != "" {
		m.cs.Fail("%s: %s", when, msg)
	}
	m.ctx.Count("full_checks", 1)
}

// wide: read variants of the property's reads that CheckFull does not make.
func (m *c04Mon) wide() string {
	x, r, M := m.x, m.cs.R, m.x.M
	// --- "index info": the three list forms agree with the single-index form ---
	single := map[string]core.IndexInfo{}
	for name := range M.Idx {
		info, err := x.E.DB.GetSingleVectorIndexInfoAPI(name)
		if err != nil {
			return fmt.Sprintf("index info of %s: %v", name, err)
		}
		single[name] = info
	}
	lists := []struct {
		name string
		get  func() ([]core.IndexInfo, error)
	}{
		{"GetVectorIndexInfo", x.E.DB.GetVectorIndexInfo},
		{"GetVectorIndexInfoAPI", x.E.DB.GetVectorIndexInfoAPI},
		{"GetVectorIndexInfoUnlocked", func() ([]core.IndexInfo, error) {
			x.E.DB.RLock()
			defer x.E.DB.RUnlock()
			return x.E.DB.GetVectorIndexInfoUnlocked()
		}},
	}
	for _, l := range lists {
		list, err := l.get()
		if err != nil {
			return fmt.Sprintf("%s: %v", l.name, err)
		}
		seen := map[string]bool{}
		for _, e := range list {
			if seen[e.Name] {
				return fmt.Sprintf("%s lists index %s twice", l.name, e.Name)
			}
			seen[e.Name] = true
			want, ok := single[e.Name]
			if !ok {
				return fmt.Sprintf("%s lists index %s, which does not exist", l.name, e.Name)
			}
			if e != want {
				return fmt.Sprintf("%s entry %+v differs from the single-index info %+v", l.name, e, want)
			}
		}
		if len(list) != len(single) {
			return fmt.Sprintf("%s lists %d indexes, %d exist", l.name, len(list), len(single))
		}
	}
	ids := vexec.SortedKeys(M.SeenIDs)
	for _, name := range vexec.SortedKeys(M.SeenIdx) {
		mi := M.Idx[name]
		if got := x.E.IndexExists(name); got != (mi != nil) {
			return fmt.Sprintf("IndexExists(%s)=%v, model says %v", name, got, mi != nil)
		}
		if mi == nil {
			// "nothing for deleted ids": no read of a dropped / never created index returns records
			if many, err := x.E.VGetMany(name, ids); err == nil && len(many) > 0 {
				return fmt.Sprintf("VGetMany(%s) returned %d records of a non-existing index", name, len(many))
			}
			if page, _, err := x.E.VGetIDsByCursor(name, 0, 1000); err == nil && len(page) > 0 {
				return fmt.Sprintf("VGetIDsByCursor(%s) listed %v of a non-existing index", name, page)
			}
			if lang := x.E.GetIndexLanguage(name); lang != "" {
				return fmt.Sprintf("GetIndexLanguage(%s)=%q for a non-existing index", name, lang)
			}
			if al, err := x.E.VGetAutoLinks(name); err == nil && len(al) > 0 {
				return fmt.Sprintf("VGetAutoLinks(%s)=%v for a non-existing index", name, al)
			}
			continue
		}
		if lang := x.E.GetIndexLanguage(name); lang != mi.Cfg.Lang {
			return fmt.Sprintf("GetIndexLanguage(%s)=%q want %q", name, lang, mi.Cfg.Lang)
		}
		al, err := x.E.VGetAutoLinks(name)
		if err != nil {
			return fmt.Sprintf("VGetAutoLinks(%s): %v", name, err)
		}
		if !(len(al) == 0 && len(mi.Cfg.AutoLinks) == 0) && !reflect.DeepEqual(al, mi.Cfg.AutoLinks) {
			return fmt.Sprintf("VGetAutoLinks(%s)=%v want %v", name, al, mi.Cfg.AutoLinks)
		}
		// --- "get many": a random subset in random order; the empty request ---
		var sub []string
		for _, i := range r.Perm(len(ids)) {
			if r.Chance(0.5) {
				sub = append(sub, ids[i])
			}
		}
		if msg := m.many(name, sub); msg != "" {
			return msg
		}
		var empty []string
		if r.Chance(0.5) {
			empty = []string{}
		}
		if many, _ := x.E.VGetMany(name, empty); len(many) != 0 {
			return fmt.Sprintf("VGetMany(%s, no ids) returned %d records", name, len(many))
		}
		// --- "list/cursor": other page sizes; a page never exceeds the limit ---
		limit := vkit.Pick(r, []int{1, 2, 5, 1000})
		var walk []string
		cur := uint32(0)
		done := false
		for step := 0; step < 200000; step++ {
			page, next, err := x.E.VGetIDsByCursor(name, cur, limit)
			if err != nil {
				return fmt.Sprintf("VGetIDsByCursor(%s,%d,%d): %v", name, cur, limit, err)
			}
			if len(page) > limit {
				return fmt.Sprintf("VGetIDsByCursor(%s,%d,%d) returned %d ids", name, cur, limit, len(page))
			}
			walk = append(walk, page...)
			if next == 0 {
				done = true
				break
			}
			if next <= cur {
				return fmt.Sprintf("VGetIDsByCursor(%s,%d,%d) returned the cursor %d (does not advance)", name, cur, limit, next)
			}
			cur = next
		}
		if !done {
			return fmt.Sprintf("cursor walk of %s (page size %d) does not end", name, limit)
		}
		ws := map[string]bool{}
		for _, id := range walk {
			if ws[id] {
				return fmt.Sprintf("cursor walk of %s (page size %d) lists %s twice (%v)", name, limit, id, walk)
			}
			ws[id] = true
		}
		if want := vexec.SortedKeys(mi.Recs); !reflect.DeepEqual(vexec.SortedKeys(ws), want) && !(len(ws) == 0 && len(want) == 0) {
			return fmt.Sprintf("cursor walk of %s (page size %d) lists %v want %v", name, limit, vexec.SortedKeys(ws), want)
		}
		// --- anchor state: the id maps are mutually inverse on live nodes; the id counter is
		//     not behind any id in use ("one internal id per live external id") ---
		idx, _ := x.E.DB.GetVectorIndex(name)
		h := idx.(*hnsw.Index)
		counter, haveCounter := uint32(0), false
		if r.Chance(0.15) { // SnapshotData copies the whole graph: not at every check
			_, _, counter, _, _, _, _, _, _, _ = h.SnapshotData()
			haveCounter = true
		}
		for _, ext := range vexec.SortedKeys(mi.Recs) {
			in, ok := h.GetInternalID(ext)
			if !ok {
				return fmt.Sprintf("index %s: live id %s has no internal id", name, ext)
			}
			if back, ok := h.GetExternalID(in); !ok || back != ext {
				return fmt.Sprintf("index %s: external id %s -> internal %d, but internal %d -> %q (found=%v)", name, ext, in, in, back, ok)
			}
			if haveCounter && in > counter {
				return fmt.Sprintf("index %s: live id %s has internal id %d, above the id counter %d (the next insert would reuse an id)", name, ext, in, counter)
			}
		}
		// --- a metadata map returned by VGet is the caller's ---
		if live := vexec.SortedKeys(mi.Recs); len(live) > 0 {
			id := vkit.Pick(r, live)
			if d, err := x.E.VGet(name, id); err == nil {
				c04ScribbleTop(d.Metadata)
				if msg := x.CheckRecord(name, id); msg != "" {
					return "after overwriting the metadata map VGet returned: " + msg
				}
			}
		}
	}
	// --- a value returned by KVGet is the caller's ---
	if keys := vexec.SortedKeys(M.KV); len(keys) > 0 {
		k := vkit.Pick(r, keys)
		b, _ := x.E.KVGet(k)
		for i := range b {
			b[i] ^= 0xFF
		}
		if again, ok := x.E.KVGet(k); !ok || !bytes.Equal(again, M.KV[k]) {
			return fmt.Sprintf("KVGet(%q)=%x want %x after the slice returned by the previous KVGet was overwritten", k, again, M.KV[k])
		}
	}
	m.ctx.Count("wide_checks", 1)
	return ""
}

// int8: rules for int8 indexes that the tolerance rule of VecMatch cannot see, because it
// takes the range from the engine.
func (m *c04Mon) int8() string {
	x, M := m.x, m.x.M
	next := map[*vexec.Rec][]float32{}
	for _, name := range vexec.SortedKeys(M.Idx) {
		mi := M.Idx[name]
		if mi.Cfg.Prec != distance.Int8 {
			continue
		}
		a := x.AbsMax(name)
		// A zero range is the range of an untrained quantizer; every add of a vector with a
		// non-zero component into an untrained index trains it on (at least) that vector,
		// and the 99.9th percentile of fewer than 1000 values is their maximum. So as long
		// as no training can have seen 1000 components, range 0 + a live non-zero vector
		// means the range was lost (every read of the index returns zeros).
		small := len(M.SeenIDs)*mi.Dim < 1000
		for _, id := range vexec.SortedKeys(mi.Recs) {
			r := mi.Recs[id]
			if a == 0 && small {
				for _, c := range r.Vec {
					if c != 0 {
						return fmt.Sprintf("int8 index %s has an untrained quantizer (range 0) but holds the non-zero vector %s=%v: the trained range was lost, reads return zeros", name, id, r.Vec)
					}
				}
			}
			d, err := x.E.VGet(name, id)
			if err != nil {
				return fmt.Sprintf("VGet(%s,%s): %v", name, id, err)
			}
			got := vexec.CopyVec(d.Vector)
			// "Background maintenance ... never change what reads return": the int8 form
			// of a record that no operation has written since is read back bit-identical
			// (DESIGN 2.5: int8 - expected bit-identical), also across restarts.
			if prev, ok := m.i8[r]; ok {
				same := len(prev) == len(got)
				for i := 0; same && i < len(got); i++ {
					same = math.Float32bits(prev[i]) == math.Float32bits(got[i])
				}
				if !same {
					return fmt.Sprintf("int8 read of (%s,%s) changed from %v to %v although no operation wrote the record (range now %v)", name, id, prev, got, a)
				}
				m.ctx.Count("int8_stable_rereads", 1)
			}
			next[r] = got
		}
	}
	m.i8 = next
	return ""
}

// ---- directed templates ---------------------------------------------------------------------

type c04Run struct {
	ctx *vkit.Ctx
	cs  *vkit.Case
	x   *vexec.Exec
	g   *vexec.Gen
	mon *c04Mon
	n   int // fresh-id counter
}

// ok: the operation just executed was meant to be valid (a template that is rejected where
// the model allows either outcome would silently test nothing).
func (t *c04Run) ok(what string) {
	if t.x.Rejected {
		t.cs.Fail("directed template: %s was rejected", what)
	}
	t.mon.afterOp("after " + what)
}

func (t *c04Run) full(when string) { t.mon.full(when) }

func (t *c04Run) fresh() string { t.n++; return fmt.Sprintf("f%d", t.n-1) }

func (t *c04Run) path(want string) {
	if t.mon.lastPath != want {
		t.cs.Fail("directed template: the model says the call took the path %q, the template needs %q", t.mon.lastPath, want)
	}
}

// items: n batch items with fresh ids (plus the given ones), random vectors and metadata.
func (t *c04Run) items(ix string, n int, extra ...string) []types.BatchObject {
	var out []types.BatchObject
	for i := 0; i < n; i++ {
		out = append(out, types.BatchObject{Id: t.fresh(), Vector: t.g.VecFor(ix), Metadata: t.g.Meta()})
	}
	for _, id := range extra {
		out = append(out, types.BatchObject{Id: id, Vector: t.g.VecFor(ix), Metadata: t.g.Meta()})
	}
	// the extra ids do not sit at the end
	for i := len(out) - 1; i > 0; i-- {
		j := t.cs.R.Intn(i + 1)
		out[i], out[j] = out[j], out[i]
	}
	return out
}

// admin: maintenance the property names, in random order, each followed by a full check;
// then a restart ("restore").
func (t *c04Run) admin(ix string) {
	x := t.x
	steps := []string{"snapshot", "rewrite", "vacuum", "refine", "compress"}
	for _, i := range t.cs.R.Perm(len(steps)) {
		switch steps[i] {
		case "snapshot":
			x.SaveSnapshot()
		case "rewrite":
			x.RewriteAOF()
		case "vacuum", "refine":
			x.Maintenance(ix, steps[i])
		case "compress":
			mi := x.M.Idx[ix]
			if mi == nil || mi.Cfg.Prec != distance.Float32 || len(mi.Recs) == 0 || !t.cs.R.Chance(0.6) {
				continue
			}
			target := distance.PrecisionType(distance.Float16)
			if mi.Cfg.Metric == distance.Cosine {
				target = distance.Int8
			}
			x.VCompress(ix, target)
		}
		t.mon.afterOp("after " + steps[i])
		t.full("after " + steps[i])
	}
	x.Restart()
	t.full("after restart")
}

var c04Templates = []struct {
	name string
	run  func(t *c04Run)
}{
	{"nilvec", c04TNilVec},
	{"reserved", c04TReserved},
	{"parallel", c04TParallel},
	{"fastimport", c04TFastImport},
	{"int8range", c04TInt8},
	{"aliasing", c04TAliasing},
	{"bigdim", c04TBigDim},
}

// nilvec: vector-less entities (the engine stores a zero vector of the index's dimension) on a
// NON-empty index through every insert entry point, and as the first item of a batch into an
// empty index (the dimension then comes from a later item).
func c04TNilVec(t *c04Run) {
	x, g, r := t.x, t.g, t.cs.R
	g.Dim = vkit.Pick(r, c04Dims)
	x.VCreate(g.Cfg("ia"))
	t.ok("VCreate")
	if r.Chance(0.5) {
		x.VAddBatch("ia", []types.BatchObject{{Id: "f0", Metadata: g.Meta()}, {Id: "f1", Vector: g.Vec(), Metadata: g.Meta()}, {Id: "f2"}})
		t.ok("VAddBatch with vector-less first item into an empty index")
	} else {
		x.VAdd("ia", "f1", g.Vec(), g.Meta())
		t.ok("VAdd")
		x.VAdd("ia", "f0", nil, g.Meta())
		t.ok("vector-less VAdd")
		x.VAdd("ia", "f2", []float32{}, nil)
		t.ok("VAdd with an empty vector and no metadata")
	}
	t.n = 3
	t.full("after vector-less adds")
	if r.Chance(0.5) {
		x.VImport("ia", []types.BatchObject{{Id: t.fresh()}, {Id: t.fresh(), Vector: g.Vec(), Metadata: g.Meta()}, {Id: t.fresh(), Metadata: g.Meta()}})
		t.ok("VImport with vector-less items")
		x.VImportCommit("ia")
		t.ok("VImportCommit")
	} else {
		x.VAddBatch("ia", []types.BatchObject{{Id: t.fresh(), Vector: g.Vec()}, {Id: t.fresh(), Metadata: g.Meta()}})
		t.ok("VAddBatch with a vector-less item")
	}
	x.VEvolve("ia", "f1", nil, g.Meta(), "no new vector")
	t.ok("vector-less VEvolve")
	x.VDelete("ia", "f0")
	t.ok("VDelete")
	x.VAdd("ia", "f0", nil, g.Meta()) // re-add, again without a vector
	t.ok("vector-less re-add")
	x.Maintenance("ia", "vacuum")
	t.mon.afterOp("after vacuum")
	t.full("after vector-less re-add + vacuum")
	for i := 0; i < 4; i++ {
		g.Step(x)
		t.mon.afterOp("after random step")
	}
	t.admin("ia")
}

// reserved: the keys the memory machinery owns, supplied by the user on a memory-enabled index
// with layers. Model (DESIGN 4, "injection is part of the model"): _created_at is injected only
// when missing; memory_layer defaults to "episodic" when missing or empty; a layer that is
// pinned by default sets _pinned only when the user did not; reinforce increments a numeric
// _access_count.
func c04TReserved(t *c04Run) {
	x, g, r := t.x, t.g, t.cs.R
	cfg := g.Cfg("ia")
	cfg.Mem = &hnsw.MemoryConfig{Enabled: true, DecayModel: hnsw.DecayExponential, DecayHalfLife: hnsw.Duration(time.Hour),
		Layers: map[string]hnsw.LayerConfig{
			"episodic":   {DecayHalfLife: hnsw.Duration(time.Hour)},
			"procedural": {DecayHalfLife: 0, PinnedByDefault: true},
		}}
	x.VCreate(cfg)
	t.ok("VCreate")
	metas := []map[string]any{
		{"_created_at": float64(12345)},
		{"memory_layer": "procedural"},
		{"memory_layer": "procedural", "_pinned": false},
		{"memory_layer": "", "cat": "alpha"},
		{"memory_layer": "semantic", "_pinned": true},
		{"_access_count": float64(3), "_last_accessed": float64(5)},
		{"_created_at": int64(777), "_access_count": 2}, // Go-typed numbers
		nil,
		{},
	}
	var ids []string
	for _, i := range r.Perm(len(metas)) {
		id := t.fresh()
		ids = append(ids, id)
		x.VAdd("ia", id, g.Vec(), metas[i])
		t.ok("VAdd with reserved keys")
	}
	t.full("after adds with reserved keys")
	x.VReinforce("ia", ids)
	t.ok("VReinforce")
	x.VReinforce("ia", []string{})
	t.ok("VReinforce of no ids")
	// batch / import items: the same rules as for a single add
	batch := []types.BatchObject{
		{Id: t.fresh(), Vector: g.Vec(), Metadata: map[string]any{"memory_layer": "procedural", "_pinned": true, "_created_at": float64(1)}},
		{Id: t.fresh(), Vector: g.Vec(), Metadata: map[string]any{"memory_layer": "episodic", "_pinned": false}},
		{Id: t.fresh(), Vector: g.Vec(), Metadata: map[string]any{"memory_layer": "procedural"}},
		{Id: t.fresh(), Vector: g.Vec(), Metadata: map[string]any{"memory_layer": "procedural", "_pinned": false}},
		{Id: t.fresh(), Vector: g.Vec(), Metadata: map[string]any{"memory_layer": "", "_created_at": int64(42)}},
		{Id: t.fresh(), Vector: g.Vec()},
	}
	if r.Chance(0.5) {
		x.VAddBatch("ia", batch)
		t.ok("VAddBatch with reserved keys")
	} else {
		x.VImport("ia", batch)
		t.ok("VImport with reserved keys")
		x.VImportCommit("ia")
		t.ok("VImportCommit")
	}
	x.VEvolve("ia", ids[0], g.Vec(), map[string]any{"memory_layer": "episodic"}, "layer change")
	t.ok("VEvolve with memory_layer")
	x.VEvolve("ia", ids[1], nil, map[string]any{"_created_at": float64(99), "_pinned": false}, "historical import")
	t.ok("VEvolve with _created_at")
	x.VSetMetadata("ia", ids[2], map[string]any{"_pinned": true, "_created_at": float64(5), "memory_layer": "procedural"})
	t.ok("VSetMetadata with reserved keys")
	x.VReinforce("ia", ids[:3])
	t.ok("VReinforce")
	t.full("after reserved-key updates")
	for i := 0; i < 4; i++ {
		g.Step(x)
		t.mon.afterOp("after random step")
	}
	t.admin("ia")
}

// parallel: single adds up to the batch-path threshold, then batches large enough for the
// parallel path with SEVERAL items per pre-processing worker (n > NumCPU, n not a multiple of
// the worker count: clamped last chunk), a deleted id re-added inside the batch, vacuum after.
// On an int8 index the quantizer is sometimes still untrained when the parallel path runs
// (only zero vectors so far): the path then trains on the batch.
func c04TParallel(t *c04Run) {
	x, g, r := t.x, t.g, t.cs.R
	g.Dim = vkit.Pick(r, []int{2, 3, 4, 8, 16})
	cfg := g.Cfg("ia")
	cfg.EfC = vkit.Pick(r, []int{4, 8})
	x.VCreate(cfg)
	t.ok("VCreate")
	zeroSeed := cfg.Prec == distance.Int8 && r.Chance(0.5)
	n0 := cfg.EfC + 1 + r.Intn(4)
	var seedIDs []string
	for i := 0; i < n0; i++ {
		id := t.fresh()
		seedIDs = append(seedIDs, id)
		v := g.Vec()
		if zeroSeed {
			v = make([]float32, g.Dim)
		}
		x.VAdd("ia", id, v, g.Meta())
		t.ok("VAdd")
	}
	x.VDelete("ia", seedIDs[1])
	t.ok("VDelete")
	if r.Chance(0.4) { // the index as a snapshot / the log restores it (untrained quantizer included)
		if r.Chance(0.5) {
			x.SaveSnapshot()
			t.mon.afterOp("after snapshot")
		}
		x.Restart()
		t.full("after restart, before the batch")
	}
	n := vkit.Pick(r, []int{17, 23, 32, 33, 40, 48})
	x.VAddBatch("ia", t.items("ia", n-1, seedIDs[1]))
	t.ok("VAddBatch (parallel path)")
	t.path("batch_parallel")
	if n > runtime.NumCPU() {
		t.ctx.Count("directed.parallel_multi_item_chunks", 1)
	}
	x.Maintenance("ia", "vacuum")
	t.mon.afterOp("after vacuum")
	t.ctx.Count("directed.readd_in_parallel_batch_then_vacuum", 1)
	t.full("after parallel batch + vacuum")
	x.VAddBatch("ia", t.items("ia", r.Range(1, 6)))
	t.ok("small VAddBatch (parallel path)")
	t.path("batch_parallel")
	x.VAdd("ia", t.fresh(), g.Vec(), g.Meta()) // single insert after a batch: id allocation
	t.ok("VAdd after batch")
	t.full("after second batch")
	t.admin("ia")
	x.VAddBatch("ia", t.items("ia", vkit.Pick(r, []int{5, 17, 31})))
	t.ok("VAddBatch after maintenance + restart")
	t.full("after batch on the restored index")
}

// fastimport: VImport below and above the fast-path threshold (live ids >= max(2*M, 40)),
// with a re-added id and a vector-less item, committed or made durable by a snapshot / rewrite.
func c04TFastImport(t *c04Run) {
	x, g, r := t.x, t.g, t.cs.R
	g.Dim = vkit.Pick(r, []int{2, 3, 4, 8})
	cfg := g.Cfg("ia")
	cfg.M = vkit.Pick(r, []int{2, 4, 16})
	cfg.EfC = vkit.Pick(r, []int{4, 8, 200})
	x.VCreate(cfg)
	t.ok("VCreate")
	thr := max(2*cfg.M, 40)
	// seed to just below the threshold, import (sequential path), then cross it
	for left := thr - 2; left > 0; {
		k := min(left, r.Range(5, 25))
		x.VAddBatch("ia", t.items("ia", k))
		t.ok("VAddBatch (seed)")
		left -= k
	}
	x.VImport("ia", t.items("ia", 1))
	t.ok("VImport below the threshold")
	t.path("import_sequential")
	x.VImportCommit("ia")
	t.ok("VImportCommit")
	x.VAddBatch("ia", t.items("ia", 3+r.Intn(4)))
	t.ok("VAddBatch")
	victim := fmt.Sprintf("f%d", r.Intn(10))
	x.VDelete("ia", victim)
	t.ok("VDelete")
	items := t.items("ia", vkit.Pick(r, []int{1, 15, 17, 35})-1, victim)
	items = append(items, types.BatchObject{Id: t.fresh(), Metadata: g.Meta()}) // vector-less
	x.VImport("ia", items)
	t.ok("VImport above the threshold")
	t.path("import_parallel")
	x.VImportCommit("ia")
	t.ok("VImportCommit")
	t.full("after fast import")
	x.Restart()
	t.full("after fast import + restart")
	x.VImport("ia", t.items("ia", vkit.Pick(r, []int{2, 16, 20})))
	t.ok("second VImport above the threshold")
	t.path("import_parallel")
	if r.Chance(0.5) {
		x.SaveSnapshot()
	} else {
		x.RewriteAOF()
	}
	t.mon.afterOp("after snapshot / rewrite")
	x.VAdd("ia", t.fresh(), g.Vec(), g.Meta())
	t.ok("VAdd after import")
	t.full("after second fast import")
	t.admin("ia")
}

// int8range: the trained range of an int8 index - after a compression; on an index created as
// int8 whose first vector is the zero vector; with the training vector deleted; across
// restart, rewrite, snapshot and vacuum (see c04Mon.int8 and the rule in afterOp).
func c04TInt8(t *c04Run) {
	x, g, r := t.x, t.g, t.cs.R
	g.Dim = vkit.Pick(r, []int{2, 3, 4, 8, 16})
	g.Combos = [][2]string{{string(distance.Cosine), string(distance.Float32)}}
	direct := r.Chance(0.5)
	if direct {
		g.Combos = [][2]string{{string(distance.Cosine), string(distance.Int8)}}
	}
	cfg := g.Cfg("ia")
	x.VCreate(cfg)
	t.ok("VCreate")
	first := t.fresh()
	if direct && r.Chance(0.5) {
		x.VAdd("ia", first, make([]float32, g.Dim), g.Meta()) // the zero vector trains nothing
		t.ok("VAdd zero vector")
		first = t.fresh()
	}
	train := make([]float32, g.Dim) // small range: later vectors are clipped to it
	for i := range train {
		train[i] = r.F32() * 0.25
	}
	train[r.Intn(g.Dim)] = 0.25
	x.VAdd("ia", first, train, g.Meta())
	t.ok("VAdd (first non-zero vector)")
	for i, n := 0, r.Range(4, 20); i < n; i++ {
		x.VAdd("ia", t.fresh(), g.Vec(), g.Meta())
		t.ok("VAdd")
	}
	x.VAddBatch("ia", t.items("ia", r.Range(1, 6)))
	t.ok("VAddBatch")
	if !direct {
		x.VCompress("ia", distance.Int8)
		t.ok("VCompress int8") // afterOp checks the trained range
		t.ctx.Count("directed.compress_int8", 1)
	}
	t.full("int8 index populated")
	x.VDelete("ia", first) // the vector the range was trained on (direct case)
	t.ok("VDelete of the training vector")
	x.Maintenance("ia", "vacuum")
	t.mon.afterOp("after vacuum")
	t.full("after deleting the training vector + vacuum")
	x.Restart()
	t.full("after restart")
	x.VAdd("ia", t.fresh(), g.Vec(), g.Meta())
	t.ok("VAdd after restart")
	x.RewriteAOF()
	t.mon.afterOp("after rewrite")
	x.Restart()
	t.full("after rewrite + restart")
	x.SaveSnapshot()
	t.mon.afterOp("after snapshot")
	x.VAdd("ia", t.fresh(), g.Vec(), g.Meta())
	t.ok("VAdd after snapshot")
	x.Restart()
	t.full("after snapshot + add + restart")
}

// aliasing: every slice / map handed to the engine is overwritten right after the call
// (Exec.Scribble), every map / slice a read returned is overwritten (c04Mon), then everything
// is read again - live and after a restart. Nested metadata values (lists, objects, typed Go
// slices) and the parallel batch path on cosine/float32 (which normalises the caller's vector
// in place) included.
func c04TAliasing(t *c04Run) {
	x, g, r := t.x, t.g, t.cs.R
	c04Scribble(t.ctx, x, true)
	g.Dim = vkit.Pick(r, []int{2, 3, 4, 8})
	if r.Chance(0.5) {
		g.Combos = [][2]string{{string(distance.Cosine), string(distance.Float32)}}
	}
	cfg := g.Cfg("ia")
	cfg.EfC = 4
	x.VCreate(cfg)
	t.ok("VCreate")
	nested := func() map[string]any {
		return map[string]any{
			"tags": []any{vkit.Pick(r, g.Words), vkit.Pick(r, g.Words)},
			"obj":  map[string]any{"a": float64(r.Intn(5)), "b": []any{vkit.Pick(r, g.Words)}, "c": map[string]any{"d": true}},
			"ts":   []string{vkit.Pick(r, g.Words), "x"},
			"ns":   []int{r.Intn(5), 7},
			"sm":   map[string]string{"k": vkit.Pick(r, g.Words)},
			"cat":  vkit.Pick(r, g.Words),
		}
	}
	x.KVSet("k0", r.Bytes(8))
	t.ok("KVSet")
	for i := 0; i < 6; i++ {
		x.VAdd("ia", t.fresh(), g.Vec(), nested())
		t.ok("VAdd with nested metadata")
	}
	items := t.items("ia", 20)
	for i := range items {
		if i%2 == 0 {
			items[i].Metadata = nested()
		}
	}
	x.VAddBatch("ia", items)
	t.ok("VAddBatch (parallel path)")
	t.path("batch_parallel")
	x.VImport("ia", []types.BatchObject{{Id: t.fresh(), Vector: g.Vec(), Metadata: nested()}, {Id: t.fresh(), Vector: g.Vec()}})
	t.ok("VImport")
	x.VImportCommit("ia")
	t.ok("VImportCommit")
	x.VSetMetadata("ia", "f0", nested())
	t.ok("VSetMetadata with nested metadata")
	x.VEvolve("ia", "f1", g.Vec(), nested(), "alias")
	t.ok("VEvolve with nested metadata")
	x.VLink("ia", "f2", "f3", "r", "inv_r", 1, map[string]any{"k": "v", "since": "2020"})
	t.ok("VLink with properties")
	x.VReinforce("ia", []string{"f0", "f2"})
	t.ok("VReinforce")
	t.full("after calls whose arguments were overwritten")
	for i := 0; i < 6; i++ {
		g.Step(x)
		t.mon.afterOp("after random step")
	}
	t.full("after random steps")
	x.Restart() // what the journal holds is what the calls were given
	t.full("after restart")
	t.admin("ia")
}

// bigdim: realistic embedding sizes, a dimension of its own per index, every precision.
func c04TBigDim(t *c04Run) {
	x, g, r := t.x, t.g, t.cs.R
	g.DimOf = map[string]int{"ia": vkit.Pick(r, []int{64, 128, 1536}), "ib": vkit.Pick(r, []int{1, 33, 384, 768})}
	g.NilVecPct = 10
	for _, ix := range []string{"ia", "ib"} {
		cfg := g.Cfg(ix)
		cfg.EfC = vkit.Pick(r, []int{4, 200})
		x.VCreate(cfg)
		t.ok("VCreate")
	}
	for round := 0; round < 2; round++ {
		for _, ix := range []string{"ia", "ib"} {
			for i, n := 0, r.Range(2, 5); i < n; i++ {
				x.VAdd(ix, t.fresh(), g.VecFor(ix), g.Meta())
				t.ok("VAdd")
			}
			x.VAddBatch(ix, t.items(ix, r.Range(1, 5)))
			t.ok("VAddBatch")
			if id, ok := c04PickLive(t, ix); ok {
				x.VDelete(ix, id)
				t.ok("VDelete")
				if r.Chance(0.5) {
					x.VAdd(ix, id, g.VecFor(ix), g.Meta())
					t.ok("re-add")
				}
			}
			if id, ok := c04PickLive(t, ix); ok {
				x.VEvolve(ix, id, g.AddVec(x.M, ix), g.Meta(), "big")
				t.ok("VEvolve")
			}
		}
		t.full("after a round on two indexes of different dimension")
		t.admin(vkit.Pick(r, []string{"ia", "ib"}))
	}
}

func c04PickLive(t *c04Run, ix string) (string, bool) {
	mi := t.x.M.Idx[ix]
	if mi == nil || len(mi.Recs) == 0 {
		return "", false
	}
	return vkit.Pick(t.cs.R, vexec.SortedKeys(mi.Recs)), true
}

// ---- bulk group -----------------------------------------------------------------------------

// c04Bulk: one index is filled with 38-56 records, then batches of 1-40 items, imports of 1-40
// items, deletes of several ids, re-adds inside batches, maintenance, random steps and restarts
// follow; full check after every bulk insert / delete round and every third other operation.
func c04Bulk(ctx *vkit.Ctx, cs *vkit.Case, x *vexec.Exec) {
	r := cs.R
	g := vexec.NewGen(r)
	c04Guards(ctx, g)
	g.NilVecPct = 6
	g.ReservedMeta = true
	g.NoDrop = true
	g.Dim = vkit.Pick(r, []int{1, 2, 3, 4, 8, 16})
	g.CfgHook = func(c *vexec.IndexCfg) { c.EfC = vkit.Pick(r, []int{4, 8, 16, 40, 200}) }
	c04Scribble(ctx, x, r.Chance(0.5))
	mon := newC04Mon(ctx, cs, x)
	const ix = "ia"
	x.VCreate(g.Cfg(ix))
	mon.afterOp("after VCreate")
	next := 0
	var dead []string
	fresh := func(n int) []types.BatchObject {
		var items []types.BatchObject
		if len(dead) > 0 && r.Chance(0.4) { // a deleted id comes back inside the batch
			k := r.Intn(len(dead))
			items = append(items, types.BatchObject{Id: dead[k], Vector: g.AddVec(x.M, ix), Metadata: g.Meta()})
			dead = append(dead[:k], dead[k+1:]...)
		}
		for len(items) < n {
			items = append(items, types.BatchObject{Id: fmt.Sprintf("f%d", next), Vector: g.AddVec(x.M, ix), Metadata: g.Meta()})
			next++
		}
		for i := len(items) - 1; i > 0; i-- {
			j := r.Intn(i + 1)
			items[i], items[j] = items[j], items[i]
		}
		return items
	}
	durable := func() { // an import is not journaled: commit it, or snapshot / rewrite
		switch r.Intn(4) {
		case 0:
			x.SaveSnapshot()
		case 1:
			x.RewriteAOF()
		default:
			x.VImportCommit(ix)
		}
		mon.afterOp("after making the import durable")
	}
	for left := r.Range(38, 56); left > 0; {
		k := min(left, r.Range(10, 56))
		if r.Chance(0.3) {
			x.VImport(ix, fresh(k))
			mon.afterOp("after seeding VImport")
			durable()
		} else {
			x.VAddBatch(ix, fresh(k))
			mon.afterOp("after seeding VAddBatch")
		}
		left -= k
	}
	mon.full("after seeding")
	nops := r.Range(8, ctx.N(14, 24))
	for i := 0; i < nops; i++ {
		when := fmt.Sprintf("after bulk op %d", i)
		p := r.Intn(100)
		switch {
		case p < 25:
			x.VAddBatch(ix, fresh(vkit.Pick(r, []int{1, 2, 6, 16, 17, 24, 33, 40})))
			mon.afterOp(when)
		case p < 43:
			x.VImport(ix, fresh(vkit.Pick(r, []int{1, 5, 17, 33, 40})))
			mon.afterOp(when)
			durable()
		case p < 58:
			for k := r.Range(1, 8); k > 0; k-- {
				mi := x.M.Idx[ix]
				if mi == nil || len(mi.Recs) == 0 {
					break
				}
				id := vkit.Pick(r, vexec.SortedKeys(mi.Recs))
				x.VDelete(ix, id)
				mon.afterOp(when)
				if strings.HasPrefix(id, "f") {
					dead = append(dead, id)
				}
			}
		case p < 68:
			g.Admin(x)
			mon.afterOp(when)
		case p < 74:
			x.Maintenance(ix, "vacuum")
			mon.afterOp(when)
		case p < 95:
			g.Step(x)
			mon.afterOp(when)
		default:
			x.Restart()
			p = 0 // full check after a restart
		}
		ctx.Count("ops", 1)
		if p < 58 || i%3 == 2 || i == nops-1 { // after every bulk insert / delete round, else every 3rd op
			mon.full(when)
		}
	}
}

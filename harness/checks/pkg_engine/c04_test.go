package engine_test

import (
	"strings"
	"testing"

	"github.com/sanonone/kektordb/internal/zzverif/vexec"
	"github.com/sanonone/kektordb/internal/zzverif/vkit"
)

// C04 — the live engine behaves like a simple map-of-records state machine.
func TestVerifC04(t *testing.T) {
	vkit.Run(t, "C04", func(ctx *vkit.Ctx) {
		c04Probes(ctx)
		ctx.Group("random", ctx.N(4000, 60000), func(cs *vkit.Case) {
			x := vexec.NewExec(cs, cs.SubDir("data"))
			defer func() {
				if x.E != nil {
					x.E.Close()
				}
			}()
			g := vexec.NewGen(cs.R)
			c04Guards(ctx, g)
			nops := cs.R.Range(25, ctx.N(45, 70))
			if cs.R.Chance(0.15) { // episodes large enough for the batch / fast-import paths
				g.IDs = append(g.IDs, "m0", "m1", "m2", "m3", "m4", "m5", "m6", "m7", "m8", "m9")
				nops *= 2
			}
			for i := 0; i < nops; i++ {
				if cs.R.Chance(0.12) {
					g.Admin(x)
				} else {
					g.Step(x)
				}
				ctx.Count("ops", 1)
				if i%5 == 4 || i == nops-1 {
					if msg := x.CheckFull(); msg != "" {
						cs.Fail("after op %d: %s", i, msg)
					}
					ctx.Count("full_checks", 1)
				}
				if cs.R.Chance(0.03) {
					x.Restart()
					if msg := x.CheckFull(); msg != "" {
						cs.Fail("after restart (op %d): %s", i, msg)
					}
				}
			}
			ctx.Eval(1)
			key := x.KindKey()
			for _, k := range x.Kinds {
				ctx.Count("kind."+k, 1)
			}
			if (strings.Contains(key, "vdelete") || strings.Contains(key, "vdrop")) &&
				(strings.Contains(key, "vacuum") || strings.Contains(key, "refine") || strings.Contains(key, "snapshot") || strings.Contains(key, "rewrite") || strings.Contains(key, "vcompress")) {
				ctx.Distinct(key)
			}
			ctx.Sample("episode", 2, map[string]any{"ops": cs.Ops()[:min(len(cs.Ops()), 25)]})
		})
	})
}

func c04Guards(ctx *vkit.Ctx, g *vexec.Gen) {}

func c04Probes(ctx *vkit.Ctx) {}

package engine_test

import (
	"fmt"
	"math"
	"testing"
	"time"

	"github.com/sanonone/kektordb/internal/zzverif/vexec"
	"github.com/sanonone/kektordb/internal/zzverif/vkit"
	"github.com/sanonone/kektordb/pkg/core/distance"
	"github.com/sanonone/kektordb/pkg/core/hnsw"
	"github.com/sanonone/kektordb/pkg/engine"
)

// C06 (memory scores) — "each reported score equals the score recomputed from the query and the
// vector / metadata actually stored FOR THAT ID (similarity times decay)". Which decay law is
// right is C15's subject; what C06 needs is that the factor applied to an id is a function of
// that id's own stored record and of nothing else. So the factor reported for an id must not
// depend on the query, on k, on which other ids are in the result and in which order, nor on the
// search path (scored search vs fused search). No decay formula is re-implemented here.
func TestVerifC06Mem(t *testing.T) {
	vkit.Run(t, "C06", func(ctx *vkit.Ctx) {
		ctx.Group("memscores", ctx.N(240, 4000), func(cs *vkit.Case) {
			r := cs.R
			dir := cs.SubDir("data")
			e, err := engine.Open(vexec.Options(dir))
			if err != nil {
				cs.Fail("open: %v", err)
			}
			defer e.Close()
			models := []hnsw.DecayModel{hnsw.DecayExponential, hnsw.DecayLinear, hnsw.DecayStep, hnsw.DecayEbbinghaus}
			def := vkit.Pick(r, models)
			half := time.Duration(vkit.Pick(r, []int{1, 6, 48})) * time.Hour
			mem := hnsw.MemoryConfig{Enabled: true, DecayModel: def, DecayHalfLife: hnsw.Duration(half)}
			metric := vkit.Pick(r, []distance.DistanceMetric{distance.Euclidean, distance.Cosine})
			if err := e.VCreate("m", metric, 8, 200, distance.Float32, "", nil, nil, &mem); err != nil {
				cs.Fail("VCreate: %v", err)
			}
			n := r.Range(4, 12)
			dim := vkit.Pick(r, []int{3, 8})
			now := time.Now().Unix()
			ids := make([]string, n)
			vecs := map[string][]float32{}
			for i := 0; i < n; i++ {
				id := fmt.Sprintf("m%d", i)
				ids[i] = id
				v := make([]float32, dim)
				for j := range v {
					v[j] = r.F32() + 0.01
				}
				vecs[id] = v
				// ages between a twentieth and three half-lives, never closer than 5 % of the
				// half-life to the point where linear / step reach 0 (the clock moves between calls)
				frac := vkit.Pick(r, []float64{0.05, 0.2, 0.5, 0.8, 1.3, 2, 3})
				meta := map[string]any{"_created_at": float64(now - int64(frac*half.Seconds())), "tag": id}
				if r.Chance(0.45) {
					meta["_decay_model"] = string(vkit.Pick(r, models))
				}
				if r.Chance(0.4) {
					meta["_access_count"] = float64(r.Intn(12))
				}
				if r.Chance(0.15) {
					meta["_pinned"] = true
				}
				if r.Chance(0.2) {
					meta["_last_accessed"] = float64(now - int64(0.3*frac*half.Seconds()))
				}
				cs.Op("VAdd(m,%s) meta=%s", id, vkit.JSON(meta))
				if err := e.VAdd("m", id, v, meta); err != nil {
					cs.Fail("VAdd(%s): %v", id, err)
				}
			}
			// the factor of every id when it is the FIRST and only result (query = its own vector, k=1)
			own := map[string]float64{}
			for _, id := range ids {
				res, err := e.VSearchWithScores("m", vecs[id], 1)
				if err != nil || len(res) != 1 || res[0].Breakdown == nil {
					continue
				}
				if res[0].ID == id {
					own[id] = res[0].Breakdown.DecayFactor
				}
			}
			same := func(a, b float64) bool {
				// the age grows by the seconds that pass between two calls: at most a few 1e-3 of
				// a one-hour half-life
				return math.Abs(a-b) <= 0.01*math.Max(math.Abs(a), math.Abs(b))+1e-6
			}
			for q := 0; q < 4; q++ {
				query := make([]float32, dim)
				for j := range query {
					query[j] = r.F32() + 0.01
				}
				k := vkit.Pick(r, []int{n, n, max(2, n/2)})
				res, err := e.VSearchWithScores("m", query, k)
				if err != nil {
					cs.Fail("VSearchWithScores: %v", err)
				}
				byID := map[string]engine.SearchResult{}
				for pos, x := range res {
					if x.Breakdown == nil {
						continue
					}
					byID[x.ID] = x
					if f, ok := own[x.ID]; ok && !same(f, x.Breakdown.DecayFactor) {
						d, _ := e.VGet("m", x.ID)
						cs.Fail("VSearchWithScores(k=%d): the decay factor of %s is %v at position %d of this result but %v when %s is searched with its own vector (k=1): the factor of an id depends on the other results; stored metadata %s, index default model %s, half-life %v", k, x.ID, x.Breakdown.DecayFactor, pos, f, x.ID, vkit.JSON(d.Metadata), def, half)
					}
					ctx.Count("memscores.factor_vs_alone", 1)
				}
				// the fused path (VSearchGraph, vector only) must apply the same factor to the same id
				g, err := e.VSearchGraph("m", query, k, "", "", 0, 1.0, nil, false, nil)
				if err != nil {
					cs.Fail("VSearchGraph: %v", err)
				}
				for _, x := range g {
					s, ok := byID[x.ID]
					if !ok || s.Breakdown.Similarity <= 0 {
						continue
					}
					implied := x.Score / s.Breakdown.Similarity
					if !same(implied, s.Breakdown.DecayFactor) {
						d, _ := e.VGet("m", x.ID)
						cs.Fail("the two search paths disagree on the decay of %s: VSearchWithScores reports similarity %v x decay %v, VSearchGraph (alpha=1, same query) scores it %v = similarity x %v; stored metadata %s, index default model %s, half-life %v", x.ID, s.Breakdown.Similarity, s.Breakdown.DecayFactor, x.Score, implied, vkit.JSON(d.Metadata), def, half)
					}
					ctx.Count("memscores.factor_vs_fused_path", 1)
				}
			}
			ctx.Eval(1)
			ctx.Distinct(fmt.Sprintf("memscores/%s/%v/%s/n%d/%d", def, half, metric, n, len(own)))
		})
	})
}

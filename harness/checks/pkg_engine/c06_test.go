package engine_test

import (
	"fmt"
	"math"
	"regexp"
	"strconv"
	"strings"
	"sync"
	"sync/atomic"
	"testing"
	"time"

	"github.com/sanonone/kektordb/internal/zzverif/vexec"
	"github.com/sanonone/kektordb/internal/zzverif/vkit"
	"github.com/sanonone/kektordb/pkg/core/distance"
	"github.com/sanonone/kektordb/pkg/engine"
	"github.com/sanonone/kektordb/pkg/textanalyzer"
	"github.com/x448/float16"
)

// ---- filter expressions over the executor's metadata vocabulary (reference = c08Expr) ----

func c06Lit(v any) (lit, shown string, ok bool) {
	switch x := v.(type) {
	case string:
		if strings.ContainsAny(x, "'\"") {
			return "", "", false
		}
		return x, "'" + x + "'", true
	case float64:
		s := strconv.FormatFloat(x, 'f', -1, 64)
		return s, s, true
	case bool:
		s := strconv.FormatBool(x)
		return s, s, true
	case []any:
		if len(x) == 0 {
			return "", "", false
		}
		return c06Lit(x[0])
	}
	return "", "", false
}

// c06Expr draws an OR-of-ANDs expression whose literals come from values present in the index.
func c06Expr(r *vkit.Rand, mi *vexec.MIndex, g *vexec.Gen) (c08Expr, bool) {
	type kv struct {
		k string
		v any
	}
	var pool []kv
	for _, id := range vexec.SortedKeys(mi.Recs) {
		m := mi.Recs[id].Meta
		for _, k := range vexec.SortedKeys(m) {
			if strings.HasPrefix(k, "_") || k == "content" || k == "memory_layer" {
				continue
			}
			pool = append(pool, kv{k, m[k]})
		}
	}
	if len(pool) == 0 {
		return c08Expr{}, false
	}
	// ... and values of the generator's vocabulary that no live record may hold any more (a
	// list element or a value that an update replaced, a deleted record's value): a filter on
	// such a value must not bring back the record that used to hold it
	keys := map[string]bool{}
	for _, p := range pool {
		keys[p.k] = true
	}
	for _, k := range vexec.SortedKeys(keys) {
		for n := 0; n < 2; n++ {
			if r.Chance(0.5) {
				pool = append(pool, kv{k, vkit.Pick(r, g.Words)})
			} else {
				pool = append(pool, kv{k, float64(r.Intn(7) - 2)})
			}
		}
	}
	for _, st := range c06Stale {
		pool = append(pool, kv{st.k, st.v}, kv{st.k, st.v})
	}
	var e c08Expr
	var texts []string
	for b := 0; b < r.Range(1, 2); b++ {
		var blk []c08Clause
		var ct []string
		for c := 0; c < r.Range(1, 2); c++ {
			p := vkit.Pick(r, pool)
			lit, shown, ok := c06Lit(p.v)
			if !ok {
				continue
			}
			op := "="
			if _, num := p.v.(float64); num && r.Chance(0.5) {
				op = vkit.Pick(r, []string{"<", "<=", ">", ">=", "!="})
			} else if r.Chance(0.25) {
				op = "!="
			}
			blk = append(blk, c08Clause{Key: p.k, Op: op, Lit: lit, Shown: shown})
			ct = append(ct, fmt.Sprintf("%s %s %s", p.k, op, shown))
		}
		if len(blk) > 0 {
			e.Blocks = append(e.Blocks, blk)
			texts = append(texts, strings.Join(ct, " AND "))
		}
	}
	if len(e.Blocks) == 0 {
		return c08Expr{}, false
	}
	e.Text = strings.Join(texts, " OR ")
	return e, true
}

// ---- reference scope and score ------------------------------------------------------------

// c06Scope: nodes reachable from root within depth hops (clamped like the product: <=0 -> 1,
// >5 -> 5) over the model's currently active edges, root included.
func c06Scope(m *vexec.Model, ix string, q engine.GraphQuery) map[string]bool {
	depth := q.MaxDepth
	if depth <= 0 {
		depth = 1
	}
	if depth > 5 {
		depth = 5
	}
	seen := map[string]bool{q.RootID: true}
	frontier := []string{q.RootID}
	for d := 0; d < depth; d++ {
		var next []string
		for _, n := range frontier {
			g := vexec.GraphID(ix, n)
			for _, rel := range q.Relations {
				if q.Direction == "out" || q.Direction == "both" || q.Direction == "" {
					for _, v := range m.OutAt(g, rel, 0) {
						if t := vexec.NodeOf(v.Target); !seen[t] {
							seen[t] = true
							next = append(next, t)
						}
					}
				}
				if q.Direction == "in" || q.Direction == "both" {
					for _, s := range m.InAt(g, rel, 0) {
						if t := vexec.NodeOf(s); !seen[t] {
							seen[t] = true
							next = append(next, t)
						}
					}
				}
			}
		}
		frontier = next
	}
	return seen
}

// c06Similarity recomputes 1/(1+d) between a stored vector (as VGet returns it) and the
// query, with the query prepared the way the precision prepares it, and returns the value
// together with the tolerance of that precision.
func c06Similarity(cfg vexec.IndexCfg, stored, query []float32, absMax float32) (float64, float64) {
	// the index first brings a cosine query to unit length (float32), then encodes it
	prep := vexec.CopyVec(query)
	if cfg.Metric == distance.Cosine {
		prep = vexec.Normalize(prep)
	}
	q := make([]float64, len(prep))
	for i, v := range prep {
		q[i] = float64(v)
	}
	switch cfg.Prec {
	case distance.Float16:
		for i, v := range prep {
			q[i] = float64(float16.Fromfloat32(v).Float32())
		}
	case distance.Int8:
		if absMax > 0 {
			for i, v := range prep {
				s := float64(v) / float64(absMax) * 127
				if s > 127 {
					s = 127
				} else if s < -127 {
					s = -127
				}
				q[i] = math.Round(s) / 127 * float64(absMax)
			}
		}
	}
	var d float64
	if cfg.Metric == distance.Euclidean {
		for i := range q {
			x := float64(stored[i]) - q[i]
			d += x * x
		}
	} else {
		var dot, ns, nq float64
		for i := range q {
			dot += float64(stored[i]) * q[i]
			ns += float64(stored[i]) * float64(stored[i])
			nq += q[i] * q[i]
		}
		if ns == 0 || nq == 0 {
			d = 1
		} else {
			d = 1 - dot/math.Sqrt(ns*nq)
		}
	}
	if d < 0 {
		d = 0
	}
	tol := 2e-4
	switch cfg.Prec {
	case distance.Float16:
		tol = 1e-2
	case distance.Int8:
		tol = 6e-2
	}
	return 1 / (1 + d), tol
}

type c06Hit struct {
	id    string
	score float64
	has   bool // score reported
	sim   float64
	decay float64
	brk   bool
}

// c06Judge applies the soundness oracle to one result list.
func c06Judge(ctx *vkit.Ctx, cs *vkit.Case, x *vexec.Exec, ix, api string, query []float32, k int, expr *c08Expr, scope map[string]bool, hits []c06Hit, textQuery bool) {
	mi := x.M.Idx[ix]
	if len(hits) > k && k > 0 {
		cs.Fail("%s on %s returned %d results for k=%d", api, ix, len(hits), k)
	}
	seen := map[string]bool{}
	absMax := float32(0)
	if idx, ok := x.E.DB.GetVectorIndex(ix); ok {
		_ = idx
	}
	prev := math.Inf(1)
	for i, h := range hits {
		if seen[h.id] {
			cs.Fail("%s on %s returned id %s twice", api, ix, h.id)
		}
		seen[h.id] = true
		rec := mi.Recs[h.id]
		if rec == nil {
			cs.Fail("%s on %s returned id %q which is not a live vector of that index (deleted, vacuumed or foreign)", api, ix, h.id)
		}
		if expr != nil && !expr.Match(rec.Meta) {
			cs.Fail("%s on %s with filter %q returned id %s whose metadata %s does not satisfy it", api, ix, expr.Text, h.id, vexec.CanonJSON(rec.Meta))
		}
		if scope != nil && !scope[h.id] {
			cs.Fail("%s on %s returned id %s outside the requested graph scope %v", api, ix, h.id, vexec.SortedKeys(scope))
		}
		if !h.has {
			continue
		}
		if math.IsNaN(h.score) || h.score > prev+1e-12 {
			cs.Fail("%s on %s: scores are not in non-increasing order at position %d (%v after %v)", api, ix, i, h.score, prev)
		}
		prev = h.score
		if textQuery {
			continue
		}
		d, err := x.E.VGet(ix, h.id)
		if err != nil {
			cs.Fail("%s returned %s but VGet fails: %v", api, h.id, err)
		}
		if absMax == 0 && mi.Cfg.Prec == distance.Int8 {
			absMax = c06AbsMax(x, ix)
		}
		want, tol := c06Similarity(mi.Cfg, d.Vector, query, absMax)
		if h.brk {
			if h.decay < 0 || h.decay > 1 || math.IsNaN(h.decay) {
				cs.Fail("%s on %s: decay factor %v of %s outside [0,1]", api, ix, h.decay, h.id)
			}
			if math.Abs(h.score-h.sim*h.decay) > 1e-9*math.Max(1, math.Abs(h.score)) {
				cs.Fail("%s on %s: score %v of %s != similarity %v x decay %v", api, ix, h.score, h.id, h.sim, h.decay)
			}
			if math.Abs(h.sim-want) > tol {
				cs.Fail("%s on %s: reported similarity %v of %s, recomputed 1/(1+d) from the stored vector = %v (tolerance %v)", api, ix, h.sim, h.id, want, tol)
			}
		} else if mi.Cfg.Mem == nil || !mi.Cfg.Mem.Enabled {
			if math.Abs(h.score-want) > tol {
				cs.Fail("%s on %s: score %v of %s, recomputed 1/(1+d) from the stored vector = %v (tolerance %v)", api, ix, h.score, h.id, want, tol)
			}
		} else if h.score > want+tol || h.score < -1e-12 {
			cs.Fail("%s on %s (memory index): score %v of %s exceeds its similarity %v", api, ix, h.score, h.id, want)
		}
		ctx.Count("scores_recomputed", 1)
	}
	ctx.Count("results_judged", int64(len(hits)))
}

func c06AbsMax(x *vexec.Exec, ix string) float32 {
	type ranger interface{ Range() float32 }
	idx, ok := x.E.DB.GetVectorIndex(ix)
	if !ok {
		return 0
	}
	if h, ok := idx.(interface{ Quantizer() *distance.Quantizer }); ok && h.Quantizer() != nil {
		return h.Quantizer().Range()
	}
	return 0
}

// c06Stale: (key, value) pairs that a record held and then lost through an update or a delete,
// per case; c06Expr draws filter literals from them as well.
var c06Stale []struct {
	k string
	v any
}

// c06ListStep: a record with a list value (given as []any, []string or []int, as an embedding
// caller may) gets the list replaced by one that lacks an element, or is deleted; the element it
// lost is remembered as a filter literal.
func c06ListStep(cs *vkit.Case, x *vexec.Exec, g *vexec.Gen) {
	r := cs.R
	var names []string
	for _, n := range vexec.SortedKeys(x.M.Idx) {
		if mi := x.M.Idx[n]; mi.Dim != 0 && len(mi.Recs) > 0 {
			names = append(names, n)
		}
	}
	if len(names) == 0 {
		return
	}
	ix := vkit.Pick(r, names)
	mi := x.M.Idx[ix]
	id := fmt.Sprintf("tl%d", r.Intn(3))
	w1, w2, w3 := vkit.Pick(r, g.Words), vkit.Pick(r, g.Words), vkit.Pick(r, g.Words)
	mk := func(a, b string, ints bool) any {
		if ints {
			return vkit.Pick(r, []any{[]int{len(a), len(b)}, []any{float64(len(a)), float64(len(b))}})
		}
		return vkit.Pick(r, []any{[]string{a, b}, []any{a, b}})
	}
	ints := r.Chance(0.3)
	if _, live := mi.Recs[id]; !live {
		v := make([]float32, mi.Dim)
		for i := range v {
			v[i] = r.F32()
		}
		if x.VAdd(ix, id, v, map[string]any{"tags": mk(w1, w2, ints), "cat": w1}) != nil {
			return
		}
	}
	if r.Chance(0.75) {
		x.VSetMetadata(ix, id, map[string]any{"tags": mk(w2, w3, ints), "cat": w3})
	} else {
		x.VDelete(ix, id)
	}
	if ints {
		c06Stale = append(c06Stale, struct {
			k string
			v any
		}{"tags", float64(len(w1))})
	} else {
		c06Stale = append(c06Stale, struct {
			k string
			v any
		}{"tags", w1})
	}
	c06Stale = append(c06Stale, struct {
		k string
		v any
	}{"cat", w1})
	cs.C.Count("list_replacement_steps", 1)
}

func c06Queries(ctx *vkit.Ctx, cs *vkit.Case, x *vexec.Exec, g *vexec.Gen) {
	r := cs.R
	for _, ix := range vexec.SortedKeys(x.M.Idx) {
		mi := x.M.Idx[ix]
		if len(mi.Recs) == 0 || mi.Dim == 0 {
			continue
		}
		n := len(mi.Recs)
		for qn := 0; qn < 3; qn++ {
			var query []float32
			switch r.Intn(4) {
			case 0:
				query = vexec.CopyVec(mi.Recs[vkit.Pick(r, vexec.SortedKeys(mi.Recs))].Vec)
			case 1:
				query = make([]float32, mi.Dim)
				query[r.Intn(mi.Dim)] = 1
			default:
				query = make([]float32, mi.Dim)
				for i := range query {
					query[i] = r.F32()
				}
			}
			k := vkit.Pick(r, []int{1, 3, n, 2 * n})
			ef := vkit.Pick(r, []int{0, 1, 10, 200})
			var expr *c08Expr
			filter := ""
			if r.Chance(0.6) {
				if e, ok := c06Expr(r, mi, g); ok {
					expr, filter = &e, e.Text
				}
			}
			var gq *engine.GraphQuery
			var scope map[string]bool
			if r.Chance(0.35) {
				q := engine.GraphQuery{RootID: vkit.Pick(r, g.IDs[:5]), Relations: []string{vkit.Pick(r, g.Rels)}, Direction: vkit.Pick(r, []string{"out", "in", "both", ""}), MaxDepth: vkit.Pick(r, []int{0, 1, 2, 5, 9})}
				if r.Chance(0.4) {
					q.Relations = append(q.Relations, "inv_"+g.Rels[0])
				}
				gq = &q
				scope = c06Scope(x.M, ix, q)
			}
			cs.Op("query %s q=%v k=%d ef=%d filter=%q graph=%s", ix, query, k, ef, filter, vkit.JSON(gq))
			// VSearch
			ids, err := x.E.VSearch(ix, query, k, filter, "", ef, 1.0, gq)
			if err != nil {
				cs.Fail("VSearch(%s, filter=%q) failed: %v", ix, filter, err)
			}
			hits := make([]c06Hit, len(ids))
			for i, id := range ids {
				hits[i] = c06Hit{id: id}
			}
			c06Judge(ctx, cs, x, ix, "VSearch", query, k, expr, scope, hits, false)
			ctx.Count("queries.VSearch", 1)
			// VSearchGraph (scores)
			res, err := x.E.VSearchGraph(ix, query, k, filter, "", ef, 1.0, nil, false, gq)
			if err != nil {
				cs.Fail("VSearchGraph(%s) failed: %v", ix, err)
			}
			hits = hits[:0]
			for _, rr := range res {
				hits = append(hits, c06Hit{id: rr.ID, score: rr.Score, has: true})
			}
			zero := true
			for _, v := range query {
				if v != 0 {
					zero = false
				}
			}
			c06Judge(ctx, cs, x, ix, "VSearchGraph", query, k, expr, scope, hits, zero)
			ctx.Count("queries.VSearchGraph", 1)
			// VSearchWithScores (no filter / scope)
			if gq == nil && filter == "" {
				sr, err := x.E.VSearchWithScores(ix, query, k)
				if err != nil {
					cs.Fail("VSearchWithScores(%s) failed: %v", ix, err)
				}
				hits = hits[:0]
				for _, s := range sr {
					h := c06Hit{id: s.ID, score: s.Score, has: true}
					if s.Breakdown != nil {
						h.brk, h.sim, h.decay = true, s.Breakdown.Similarity, s.Breakdown.DecayFactor
					}
					hits = append(hits, h)
				}
				c06Judge(ctx, cs, x, ix, "VSearchWithScores", query, k, nil, nil, hits, zero)
				ctx.Count("queries.VSearchWithScores", 1)
			}
			// VFilter
			if expr != nil {
				fids, err := x.E.VFilter(ix, filter, 10*n+10)
				if err != nil {
					cs.Fail("VFilter(%s,%q) failed: %v", ix, filter, err)
				}
				hits = hits[:0]
				for _, id := range fids {
					hits = append(hits, c06Hit{id: id})
				}
				c06Judge(ctx, cs, x, ix, "VFilter", nil, 0, expr, nil, hits, true)
				ctx.Count("queries.VFilter", 1)
			}
			// text / hybrid
			if mi.Cfg.Lang != "" && r.Chance(0.5) {
				c06TextHybrid(ctx, cs, x, g, ix, query, k, ef, expr, gq, scope)
				ctx.Count("queries.text", 1)
			}
		}
	}
}

// ---- text-only and hybrid searches: the reported score is recomputed ---------------------------
//
// Reference for one search with a text part (explicit text query, or CONTAINS(field,'text') in
// the filter), alpha, an optional boolean filter and an optional graph scope:
//
//	bm25(id)   raw text relevance of a live document for the analysed query terms. It is read from
//	           the engine's own text-only search WITHOUT filter and scope, and (strict class of
//	           C09: every document of the field has an analysed token, query terms distinct) it
//	           must equal the from-scratch BM25 over the field values the model holds.
//	eligible   documents with a bm25 that are live in the model, satisfy the reference filter
//	           evaluator and lie in the reference BFS scope.
//	text-only  (all-zero query vector)  score(id) = bm25(id), id eligible.
//	hybrid     score(id) = alpha*1/(1+d(query, VGet(id).Vector)) + (1-alpha)*bm25(id)/max{bm25(j): j eligible}
//	           for eligible ids; alpha*1/(1+d) for ids without a text match. The approximate
//	           vector side may not have reached an eligible text match (completeness is C07's):
//	           then the vector summand is absent - both values are admissible.
//	           Memory indexes multiply by a decay in [0,1]: only the upper bound is asserted.
//
// The id-only API (VSearch) must list the ids in an order for which admissible scores are
// non-increasing.

var c06Word = regexp.MustCompile(`^[A-Za-z0-9_]+$`)

func c06Analyzer(lang string) textanalyzer.Analyzer {
	switch lang {
	case "english":
		return textanalyzer.NewEnglishStemmer()
	case "italian":
		return textanalyzer.NewItalianStemmer()
	}
	return nil
}

// c06TextFields lists the fields the text index of ix currently knows (sorted).
func c06TextFields(x *vexec.Exec, ix string) []string {
	x.E.DB.RLock()
	defer x.E.DB.RUnlock()
	m, _ := x.E.DB.GetTextIndexMap(ix)
	return vexec.SortedKeys(m)
}

type c06Fusion struct {
	ix, text, field, form, filter, graph string
	alpha                                float64
	zero, mem                            bool
	query                                []float32
	elig                                 map[string]float64 // eligible id -> bm25
	maxE, maxAll                         float64
	bestE, bestAll                       string
	absMax                               float32
}

func (f *c06Fusion) String() string {
	return fmt.Sprintf("index %s text=%q field=%s (%s) alpha=%v filter=%q graph=%s", f.ix, f.text, f.field, f.form, f.alpha, f.filter, f.graph)
}

// admissible returns the scores the reference admits for id (largest first) and the tolerance.
func (f *c06Fusion) admissible(cs *vkit.Case, x *vexec.Exec, api, id string) (vals []float64, tol float64, how string) {
	bm, isElig := f.elig[id]
	if f.zero {
		if !isElig {
			cs.Fail("text-only %s %s returned %s, which the engine's own unfiltered text search for the same text does not list (no analysed query term in its %s)", api, f, id, f.field)
		}
		return []float64{bm}, 1e-9 * bm, fmt.Sprintf("bm25 %.12g", bm)
	}
	d, err := x.E.VGet(f.ix, id)
	if err != nil {
		cs.Fail("%s returned %s but VGet fails: %v", api, id, err)
	}
	mi := x.M.Idx[f.ix]
	if f.absMax == 0 && mi.Cfg.Prec == distance.Int8 {
		f.absMax = c06AbsMax(x, f.ix)
	}
	sim, tolP := c06Similarity(mi.Cfg, d.Vector, f.query, f.absMax)
	t := 0.0
	if isElig && f.maxE > 0 {
		t = bm / f.maxE
	}
	vals = []float64{f.alpha*sim + (1-f.alpha)*t}
	how = fmt.Sprintf("alpha*1/(1+d) + (1-alpha)*bm25/best_eligible_bm25 = %v*%.9g + %v*%.9g/%.9g = %.9g", f.alpha, sim, 1-f.alpha, bm, f.maxE, vals[0])
	if t > 0 {
		vals = append(vals, (1-f.alpha)*t)
		how += fmt.Sprintf(" (or %.9g when the vector side did not reach it)", vals[1])
	}
	return vals, f.alpha*tolP + 1e-9, how
}

func (f *c06Fusion) context() string {
	s := fmt.Sprintf("best eligible text match %s (bm25 %.9g)", f.bestE, f.maxE)
	if f.maxAll > f.maxE {
		s += fmt.Sprintf("; the best text match of the whole index, %s (bm25 %.9g), is excluded by the filter / graph scope", f.bestAll, f.maxAll)
	}
	return s
}

func c06TextHybrid(ctx *vkit.Ctx, cs *vkit.Case, x *vexec.Exec, g *vexec.Gen, ix string, query []float32, k, ef int, expr *c08Expr, gq *engine.GraphQuery, scope map[string]bool) {
	r := cs.R
	mi := x.M.Idx[ix]
	an := c06Analyzer(mi.Cfg.Lang)
	if an == nil {
		return
	}
	n := len(mi.Recs)
	alpha := vkit.Pick(r, []float64{0, 0.3, 1, 0.5, 0.7})
	if r.Chance(0.25) {
		alpha = float64(r.Intn(1001)) / 1000
	}
	if r.Chance(0.25) {
		query = make([]float32, mi.Dim)
	}
	f := &c06Fusion{ix: ix, alpha: alpha, query: query, zero: true, graph: vkit.JSON(gq), elig: map[string]float64{},
		mem: mi.Cfg.Mem != nil && mi.Cfg.Mem.Enabled}
	for _, v := range query {
		if v != 0 {
			f.zero = false
		}
	}
	// which field: an explicit text query auto-detects it ("content" if the text index knows it,
	// else any indexed field - determinate only when there is exactly one); CONTAINS names it.
	fields := c06TextFields(x, ix)
	auto := ""
	var named []string
	for _, fn := range fields {
		if fn == "content" {
			auto = fn
		}
		if c06Word.MatchString(fn) && !strings.HasPrefix(fn, "_") && fn != "memory_layer" {
			named = append(named, fn)
		}
	}
	if auto == "" && len(fields) == 1 && len(named) == 1 {
		auto = fields[0]
	}
	named = append(named, "content")
	viaContains := auto == "" || r.Chance(0.4)
	if viaContains && expr != nil && len(expr.Blocks) != 1 {
		// CONTAINS is combined with pure AND filters only (how it binds next to OR is not part
		// of the documented grammar)
		if auto != "" {
			viaContains = false
		} else {
			expr = nil
		}
	}
	boolFilter := ""
	if expr != nil {
		boolFilter = expr.Text
	}
	f.field, f.form, f.filter = auto, "explicit text query", boolFilter
	if viaContains {
		f.field, f.form = vkit.Pick(r, named), "CONTAINS"
	}
	// the text: 1-3 words, mostly words that occur in the field of live documents
	var present []string
	for _, id := range vexec.SortedKeys(mi.Recs) {
		if s, ok := mi.Recs[id].Meta[f.field].(string); ok && !strings.ContainsAny(s, "'\"") {
			present = append(present, strings.Fields(s)...)
		}
	}
	words := make([]string, r.Range(1, 3))
	for i := range words {
		if len(present) > 0 && r.Chance(0.7) {
			words[i] = vkit.Pick(r, present)
		} else {
			words[i] = vkit.Pick(r, g.Words)
		}
	}
	tq := strings.Join(words, " ")
	qt := an.Analyze(tq)
	f.text = tq
	explicit, rawFilter := tq, ""
	if viaContains {
		rawFilter, explicit = fmt.Sprintf("CONTAINS(%s, '%s')", f.field, tq), ""
		switch {
		case boolFilter == "":
			f.filter = rawFilter
		case r.Chance(0.5):
			f.filter = boolFilter + " AND " + rawFilter
		default:
			f.filter = rawFilter + " AND " + boolFilter
		}
	}
	cs.Op("text/hybrid %s q=%v k=%d ef=%d analysed=%v", f, query, k, ef, qt)

	// (1) raw relevance: the engine's text-only search without filter and scope
	rawRes, err := x.E.VSearchGraph(ix, make([]float32, mi.Dim), 10*n+50, rawFilter, explicit, 0, alpha, nil, false, nil)
	if err != nil {
		cs.Fail("text-only VSearchGraph %s failed: %v", f, err)
	}
	hits := make([]c06Hit, 0, len(rawRes))
	raw := map[string]float64{}
	for _, rr := range rawRes {
		hits = append(hits, c06Hit{id: rr.ID, score: rr.Score, has: true})
		raw[rr.ID] = rr.Score
	}
	c06Judge(ctx, cs, x, ix, "VSearchGraph(text-only, unfiltered)", nil, 10*n+50, nil, nil, hits, true)
	// ... which must be the BM25 of the stored field values (strict class only)
	live := map[string]map[string]any{}
	for id, rec := range mi.Recs {
		live[id] = vexec.NormMeta(rec.Meta)
	}
	corpus := c09BuildCorpus(an, f.field, live)
	if corpus.strict && c09Distinct(qt) {
		ref := corpus.score(qt)
		for _, id := range vexec.SortedKeys(raw) {
			w, ok := ref[id]
			if !ok {
				cs.Fail("text-only search %s returned %s (score %v) whose stored %s=%v contains no analysed query term %v", f, id, raw[id], f.field, live[id][f.field], qt)
			}
			if !c09RelClose(raw[id], w, 1e-9) {
				cs.Fail("text-only search %s: score %.15g of %s, BM25 recomputed from the stored %s values = %.15g (N=%v avgdl=%.6g)", f, raw[id], id, f.field, w, corpus.n, corpus.avg)
			}
			ctx.Count("text.bm25_recomputed", 1)
		}
	} else {
		ctx.Count("text.lenient_corpus_or_query", 1)
	}
	// (2) eligibility by the reference filter evaluator and the reference scope
	for _, id := range vexec.SortedKeys(raw) {
		rec := mi.Recs[id]
		if rec == nil || !(raw[id] > 0) {
			continue
		}
		if raw[id] > f.maxAll {
			f.maxAll, f.bestAll = raw[id], id
		}
		if (expr != nil && !expr.Match(rec.Meta)) || (scope != nil && !scope[id]) {
			continue
		}
		f.elig[id] = raw[id]
		if raw[id] > f.maxE {
			f.maxE, f.bestE = raw[id], id
		}
	}
	// (3) the search itself, with scores and id-only
	res, err := x.E.VSearchGraph(ix, query, k, f.filter, explicit, ef, alpha, nil, false, gq)
	if err != nil {
		cs.Fail("VSearchGraph %s failed: %v", f, err)
	}
	hits = hits[:0]
	for _, rr := range res {
		hits = append(hits, c06Hit{id: rr.ID, score: rr.Score, has: true})
	}
	c06Judge(ctx, cs, x, ix, "VSearchGraph(text)", query, k, expr, scope, hits, true)
	for _, h := range hits {
		vals, tol, how := f.admissible(cs, x, "VSearchGraph", h.id)
		if f.mem && !f.zero {
			if h.score > vals[0]+tol || h.score < -1e-12 {
				cs.Fail("VSearchGraph %s (memory index): score %.9g of %s exceeds its undecayed value %s; %s", f, h.score, h.id, how, f.context())
			}
			continue
		}
		ok := false
		for _, v := range vals {
			if math.Abs(h.score-v) <= tol {
				ok = true
			}
		}
		if !ok {
			cs.Fail("VSearchGraph %s: score %.9g of %s, recomputed %s (tolerance %.3g); %s", f, h.score, h.id, how, tol, f.context())
		}
		ctx.Count("text.fused_scores_recomputed", 1)
	}
	ids, err := x.E.VSearch(ix, query, k, f.filter, explicit, ef, alpha, gq)
	if err != nil {
		cs.Fail("VSearch %s failed: %v", f, err)
	}
	hits = hits[:0]
	for _, id := range ids {
		hits = append(hits, c06Hit{id: id})
	}
	c06Judge(ctx, cs, x, ix, "VSearch(text)", query, k, expr, scope, hits, true)
	if !f.mem || f.zero {
		prev, prevID := math.Inf(1), ""
		for i, id := range ids {
			vals, tol, how := f.admissible(cs, x, "VSearch", id)
			pick := math.Inf(-1)
			for _, v := range vals { // largest admissible score that keeps the order
				if v <= prev+2*tol && v > pick {
					pick = v
				}
			}
			if math.IsInf(pick, -1) {
				cs.Fail("VSearch %s: id %s at position %d (recomputed %s) is listed after %s whose largest admissible score is %.9g: not in non-increasing score order; %s", f, id, i, how, prevID, prev, f.context())
			}
			prev, prevID = pick, id
			ctx.Count("text.order_positions_checked", 1)
		}
	}
	// evidence: which situations were seen
	kind := "hybrid"
	if f.zero {
		kind = "textonly"
	}
	ctx.Count("text."+kind+".queries", 1)
	if viaContains {
		ctx.Count("text."+kind+".via_contains", 1)
	}
	if expr != nil || scope != nil {
		ctx.Count("text."+kind+".filtered_or_scoped", 1)
	}
	if len(f.elig) >= 2 {
		ctx.Count("text."+kind+".two_or_more_eligible_matches", 1)
	}
	if f.maxE > 0 && f.maxAll > f.maxE {
		ctx.Count("text."+kind+".best_match_of_index_not_eligible", 1)
		if len(res) > 0 {
			ctx.Count("text."+kind+".best_match_of_index_not_eligible.with_results", 1)
		}
	}
}

// c06TextStep is an extra history step for indexes with a text language: a record (new id, or a
// re-add over a live / deleted one) that carries a "content" text next to the usual metadata, or
// a metadata update that replaces the text of a live record. It goes through the executor, so
// the model follows.
func c06TextStep(cs *vkit.Case, x *vexec.Exec, g *vexec.Gen) {
	r := cs.R
	var tix []string
	for _, ix := range vexec.SortedKeys(x.M.Idx) {
		if x.M.Idx[ix].Cfg.Lang != "" {
			tix = append(tix, ix)
		}
	}
	if len(tix) == 0 {
		g.Step(x)
		return
	}
	ix := vkit.Pick(r, tix)
	mi := x.M.Idx[ix]
	if len(mi.Recs) > 0 && r.Chance(0.3) {
		x.VSetMetadata(ix, vkit.Pick(r, vexec.SortedKeys(mi.Recs)), map[string]any{"content": g.Text()})
		return
	}
	m := g.Meta()
	if m == nil {
		m = map[string]any{}
	}
	m["content"] = g.Text()
	id := vkit.Pick(r, g.IDs)
	if r.Chance(0.5) {
		id = fmt.Sprintf("b%d", r.Intn(40))
	}
	x.VAdd(ix, id, g.AddVec(x.M, ix), m)
}

// C06 — search returns only live, matching, correctly scored results.
func TestVerifC06(t *testing.T) {
	vkit.Run(t, "C06", func(ctx *vkit.Ctx) {
		// D-C06-1: the field auto-detection of an explicit text query reads the index's
		// text-field map without the index lock under which writers add and drop its entries.
		ctx.Probe("D-C06-1", func(cs *vkit.Case) string {
			e, err := engine.Open(vexec.Options(cs.SubDir("data")))
			if err != nil {
				return ""
			}
			defer e.Close()
			e.VCreate("ix", distance.Euclidean, 4, 16, distance.Float32, "english", nil, nil, nil)
			e.VAdd("ix", "a", []float32{1, 0, 0, 0}, map[string]any{"content": "alpha beta"})
			cs.Op("hold the write lock of index ix (as DB.AddMetadata does while it adds a text field); run the text-field auto-detection of an explicit text query")
			// the timeout only bounds the wait for a detection that (correctly) blocks on the lock
			ran, problem := engine.VerifC06DetectUnderIndexLock(e, "ix", 3*time.Second)
			if problem != "" {
				ctx.Count("probe_D-C06-1_not_applicable", 1)
				return ""
			}
			if ran {
				return "Engine.detectTextFieldForIndex ranged over the text-field map of ix while another goroutine held the write lock of ix: a concurrent VAdd / VSetMetadata / VDelete that creates or drops a text field races it (Go race detector: ops.go:2158 vs core.go:1739; at run time 'fatal error: concurrent map iteration and map write')"
			}
			return ""
		})
		ctx.Group("states", ctx.N(1200, 20000), func(cs *vkit.Case) {
			x := vexec.NewExec(cs, cs.SubDir("data"))
			defer func() {
				if x.E != nil {
					x.E.Close()
				}
			}()
			g := vexec.NewGen(cs.R)
			c06Stale = nil
			nops := cs.R.Range(20, ctx.N(45, 70))
			for i := 0; i < nops; i++ {
				if cs.R.Chance(0.15) {
					c06TextStep(cs, x, g)
				} else if cs.R.Chance(0.06) {
					c06ListStep(cs, x, g)
				} else if cs.R.Chance(0.12) {
					g.Admin(x)
				} else {
					g.Step(x)
				}
				if cs.R.Chance(0.04) {
					x.Restart()
				}
				if i%6 == 5 || i == nops-1 {
					x.Settle()
					if msg := x.CheckFull(); msg != "" { // the state itself must agree with the model first
						cs.Fail("state before querying: %s", msg)
					}
					c06Queries(ctx, cs, x, g)
				}
			}
			ctx.Eval(1)
			key := x.KindKey()
			if strings.Contains(key, "vdelete") {
				ctx.Distinct(key)
			}
			ctx.Sample("episode", 2, cs.Ops()[:min(len(cs.Ops()), 25)])
		})
	})
}

// C06 (concurrent variant, built with -race): class A ids are never touched, class D ids
// are deleted and vacuumed before the query phase, class X ids are churned by writers while
// the queries run.
func TestVerifC06Concurrent(t *testing.T) {
	vkit.Run(t, "C06", func(ctx *vkit.Ctx) {
		ctx.Group("concurrent", ctx.N(24, 320), func(cs *vkit.Case) {
			dir := cs.SubDir("data")
			e, err := engine.Open(vexec.Options(dir))
			if err != nil {
				cs.Fail("open: %v", err)
			}
			defer e.Close()
			combos := vexec.AllCombos
			cb := combos[cs.Idx%len(combos)]
			e.VCreate("ix", distance.DistanceMetric(cb[0]), 4, 16, distance.PrecisionType(cb[1]), "english", nil, nil, nil)
			e.VCreate("other", distance.Euclidean, 4, 16, distance.Float32, "", nil, nil, nil)
			r := cs.R
			rv := func() []float32 { return []float32{r.F32(), r.F32(), r.F32(), r.F32()} }
			// texts: A documents keep theirs for the whole case; every D document (and no A
			// document) contains "zulu"; X documents draw from all words
			cw := []string{"alpha", "beta", "gamma", "delta", "red", "green"}
			txt := func(rr *vkit.Rand, pool []string) string {
				w := make([]string, rr.Range(1, 4))
				for i := range w {
					w[i] = vkit.Pick(rr, pool)
				}
				return strings.Join(w, " ")
			}
			cwz := append(append([]string{}, cw...), "zulu")
			an := textanalyzer.NewEnglishStemmer()
			for i := 0; i < 24; i++ {
				cat := vkit.Pick(r, []string{"x", "y"})
				e.VAdd("ix", fmt.Sprintf("A%d", i), rv(), map[string]any{"cat": cat, "cls": "A", "n": float64(i), "content": txt(r, cw)})
				e.VAdd("ix", fmt.Sprintf("D%d", i), rv(), map[string]any{"cat": cat, "cls": "D", "content": "zulu " + txt(r, cw)})
				e.VAdd("other", fmt.Sprintf("O%d", i), rv(), map[string]any{"cat": cat, "cls": "O", "content": txt(r, cwz)})
			}
			catA := map[string]string{}
			vecA := map[string][]float32{}
			tokA := map[string]map[string]bool{}
			for i := 0; i < 24; i++ {
				d, _ := e.VGet("ix", fmt.Sprintf("A%d", i))
				catA[d.ID], _ = d.Metadata["cat"].(string)
				vecA[d.ID] = vexec.CopyVec(d.Vector)
				tokA[d.ID] = map[string]bool{}
				c, _ := d.Metadata["content"].(string)
				for _, tk := range an.Analyze(c) {
					tokA[d.ID][tk] = true
				}
			}
			cfgA := vexec.IndexCfg{Metric: distance.DistanceMetric(cb[0]), Prec: distance.PrecisionType(cb[1])}
			for i := 0; i < 24; i++ {
				e.VDelete("ix", fmt.Sprintf("D%d", i))
			}
			e.VTriggerMaintenance("ix", "vacuum")
			cs.Op("concurrent phase on %s/%s", cb[0], cb[1])
			var stop atomic.Bool
			var wg sync.WaitGroup
			var fail atomic.Value
			for w := 0; w < 3; w++ { // writers churn class X and run maintenance
				wg.Add(1)
				rw := vkit.NewRand(uint64(r.Intn(1<<30)), uint64(w))
				go func(w int, rw *vkit.Rand) {
					defer wg.Done()
					for i := 0; !stop.Load(); i++ {
						id := fmt.Sprintf("X%d_%d", w, rw.Intn(12))
						switch rw.Intn(6) {
						case 0, 1:
							e.VAdd("ix", id, []float32{rw.F32(), rw.F32(), rw.F32(), rw.F32()}, map[string]any{"cat": vkit.Pick(rw, []string{"x", "y"}), "cls": "X", "content": txt(rw, cwz)})
						case 2:
							e.VDelete("ix", id)
						case 3:
							if rw.Chance(0.5) {
								e.VSetMetadata("ix", id, map[string]any{"content": txt(rw, cwz)})
							} else {
								e.VSetMetadata("ix", id, map[string]any{"cat": vkit.Pick(rw, []string{"x", "y"})})
							}
						case 4:
							if w == 0 {
								e.VTriggerMaintenance("ix", vkit.Pick(rw, []string{"vacuum", "refine"}))
							}
						case 5:
							e.VLink("ix", id, "A1", "r", "", 1, nil)
						}
						ctx.Touch()
					}
				}(w, rw)
			}
			nq := ctx.N(600, 1500)
			explicitOK := !ctx.IsKnown("D-C06-1")
			var judged, scoredA, textQueries atomic.Int64
			var qwg sync.WaitGroup
			for qw := 0; qw < 4; qw++ {
				qwg.Add(1)
				rq := vkit.NewRand(uint64(r.Intn(1<<30)), uint64(100+qw))
				go func(rq *vkit.Rand) {
					defer qwg.Done()
					for i := 0; i < nq/4 && fail.Load() == nil; i++ {
						q := []float32{rq.F32(), rq.F32(), rq.F32(), rq.F32()}
						k := vkit.Pick(rq, []int{1, 5, 30, 100})
						cat := vkit.Pick(rq, []string{"x", "y"})
						filter := ""
						if rq.Chance(0.6) {
							filter = "cat = '" + cat + "'"
						}
						catFilter := filter != ""
						// read-out: ids only (vector), scores (vector), scores with a text part
						// (hybrid, or text-only with an all-zero query vector)
						mode, text, ctext, alpha, zeroQ := rq.Intn(4), "", "", 1.0, false
						ef := vkit.Pick(rq, []int{0, 10, 100})
						if mode == 3 {
							text = txt(rq, cwz)
							if len(text) > 12 {
								text = strings.Fields(text)[0]
							}
							// D-C06-1 (while known): no explicit text query next to writers - its
							// field auto-detection races them; CONTAINS names the field
							if !explicitOK || rq.Chance(0.5) {
								cl := "CONTAINS(content, '" + text + "')"
								if filter == "" {
									filter = cl
								} else {
									filter += " AND " + cl
								}
								ctext = ""
							} else {
								ctext = text
							}
							alpha = vkit.Pick(rq, []float64{0, 0.5, 1, float64(rq.Intn(1001)) / 1000})
							if rq.Chance(0.3) {
								q, zeroQ = []float32{0, 0, 0, 0}, true
							}
						}
						var ids []string
						var scores []float64
						var err error
						api := "VSearch"
						if mode < 2 {
							ids, err = e.VSearch("ix", q, k, filter, "", ef, 1.0, nil)
						} else {
							api = fmt.Sprintf("VSearchGraph(q=%v, text=%q, alpha=%v, filter=%q)", q, text, alpha, filter)
							var res []engine.GraphSearchResult
							res, err = e.VSearchGraph("ix", q, k, filter, ctext, ef, alpha, nil, false, nil)
							for _, rr := range res {
								ids = append(ids, rr.ID)
								scores = append(scores, rr.Score)
							}
						}
						if err != nil {
							fail.CompareAndSwap(nil, fmt.Sprintf("%s failed: %v", api, err))
							return
						}
						qtok := an.Analyze(text)
						for i, id := range ids {
							if scores == nil {
								break
							}
							sc := scores[i]
							if math.IsNaN(sc) || (i > 0 && sc > scores[i-1]+1e-12) {
								fail.CompareAndSwap(nil, fmt.Sprintf("%s: scores not in non-increasing order at position %d: %v", api, i, scores))
							}
							if !strings.HasPrefix(id, "A") || cfgA.Prec == distance.Int8 {
								continue
							}
							// class A: vector and text never change, so the score is recomputable
							match := false
							for _, tk := range qtok {
								if tokA[id][tk] {
									match = true
								}
							}
							if zeroQ {
								if !match || !(sc > 0) {
									fail.CompareAndSwap(nil, fmt.Sprintf("%s (text-only) returned %s with score %v; its (immutable) content has analysed terms %v, the query %v", api, id, sc, vexec.SortedKeys(tokA[id]), qtok))
								}
								scoredA.Add(1)
								continue
							}
							sim, tolP := c06Similarity(cfgA, vecA[id], q, 0)
							switch {
							case mode == 2 && math.Abs(sc-sim) > tolP:
								fail.CompareAndSwap(nil, fmt.Sprintf("%s: score %v of %s, recomputed 1/(1+d) from its (immutable) vector = %v (tolerance %v)", api, sc, id, sim, tolP))
							case mode == 3 && !match && math.Abs(sc-alpha*sim) > alpha*tolP+1e-9:
								fail.CompareAndSwap(nil, fmt.Sprintf("%s: score %v of %s, whose (immutable) content %v has no query term %v: expected alpha*1/(1+d) = %v*%v", api, sc, id, vexec.SortedKeys(tokA[id]), qtok, alpha, sim))
							case mode == 3 && (sc > alpha*sim+(1-alpha)+alpha*tolP+1e-9 || sc < -1e-12):
								fail.CompareAndSwap(nil, fmt.Sprintf("%s: score %v of %s outside [0, alpha*1/(1+d) + (1-alpha)] = [0, %v*%v + %v]", api, sc, id, alpha, sim, 1-alpha))
							}
							scoredA.Add(1)
						}
						seen := map[string]bool{}
						for _, id := range ids {
							switch {
							case seen[id]:
								fail.CompareAndSwap(nil, fmt.Sprintf("%s returned %s twice: %v", api, id, ids))
							case strings.HasPrefix(id, "D"):
								fail.CompareAndSwap(nil, fmt.Sprintf("%s returned %s, which was deleted and vacuumed before the queries started", api, id))
							case strings.HasPrefix(id, "O"):
								fail.CompareAndSwap(nil, fmt.Sprintf("%s on ix returned %s, a vector of another index", api, id))
							case strings.HasPrefix(id, "A") && catFilter && catA[id] != cat:
								fail.CompareAndSwap(nil, fmt.Sprintf("%s with %q returned %s whose (immutable) cat is %q", api, filter, id, catA[id]))
							case !strings.HasPrefix(id, "A") && !strings.HasPrefix(id, "X"):
								fail.CompareAndSwap(nil, fmt.Sprintf("%s returned unknown id %q", api, id))
							}
							seen[id] = true
						}
						if mode == 3 {
							textQueries.Add(1)
						}
						if len(ids) > k {
							fail.CompareAndSwap(nil, fmt.Sprintf("%s returned %d results for k=%d", api, len(ids), k))
						}
						judged.Add(int64(len(ids)))
						ctx.Touch()
					}
				}(rq)
			}
			qwg.Wait()
			stop.Store(true)
			wg.Wait()
			if v := fail.Load(); v != nil {
				cs.Fail("%s", v.(string))
			}
			ctx.Count("concurrent_results_judged", judged.Load())
			ctx.Count("concurrent_queries", int64(nq))
			ctx.Count("concurrent_text_or_hybrid_queries", textQueries.Load())
			ctx.Count("concurrent_classA_scores_recomputed", scoredA.Load())
			ctx.Eval(1)
			ctx.Distinct(fmt.Sprintf("conc/%s/%s/%d", cb[0], cb[1], judged.Load()/2000))
		})
	})
}

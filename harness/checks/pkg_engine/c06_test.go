package engine_test

import (
	"fmt"
	"math"
	"strconv"
	"strings"
	"sync"
	"sync/atomic"
	"testing"

	"github.com/sanonone/kektordb/internal/zzverif/vexec"
	"github.com/sanonone/kektordb/internal/zzverif/vkit"
	"github.com/sanonone/kektordb/pkg/core/distance"
	"github.com/sanonone/kektordb/pkg/engine"
	"github.com/x448/float16"
)

// ---- filter expressions over the executor's metadata vocabulary (reference = c08Expr) ----

func c06Lit(v any) (lit, shown string, ok bool) {
	switch x := v.(type) {
	case string:
		if strings.ContainsAny(x, "'\"") {
			return "", "", false
		}
		return x, "'" + x + "'", true
	case float64:
		s := strconv.FormatFloat(x, 'f', -1, 64)
		return s, s, true
	case bool:
		s := strconv.FormatBool(x)
		return s, s, true
	case []any:
		if len(x) == 0 {
			return "", "", false
		}
		return c06Lit(x[0])
	}
	return "", "", false
}

// c06Expr draws an OR-of-ANDs expression whose literals come from values present in the index.
func c06Expr(r *vkit.Rand, mi *vexec.MIndex, g *vexec.Gen) (c08Expr, bool) {
	type kv struct {
		k string
		v any
	}
	var pool []kv
	for _, id := range vexec.SortedKeys(mi.Recs) {
		m := mi.Recs[id].Meta
		for _, k := range vexec.SortedKeys(m) {
			if strings.HasPrefix(k, "_") || k == "content" || k == "memory_layer" {
				continue
			}
			pool = append(pool, kv{k, m[k]})
		}
	}
	if len(pool) == 0 {
		return c08Expr{}, false
	}
	var e c08Expr
	var texts []string
	for b := 0; b < r.Range(1, 2); b++ {
		var blk []c08Clause
		var ct []string
		for c := 0; c < r.Range(1, 2); c++ {
			p := vkit.Pick(r, pool)
			lit, shown, ok := c06Lit(p.v)
			if !ok {
				continue
			}
			op := "="
			if _, num := p.v.(float64); num && r.Chance(0.5) {
				op = vkit.Pick(r, []string{"<", "<=", ">", ">=", "!="})
			} else if r.Chance(0.25) {
				op = "!="
			}
			blk = append(blk, c08Clause{Key: p.k, Op: op, Lit: lit, Shown: shown})
			ct = append(ct, fmt.Sprintf("%s %s %s", p.k, op, shown))
		}
		if len(blk) > 0 {
			e.Blocks = append(e.Blocks, blk)
			texts = append(texts, strings.Join(ct, " AND "))
		}
	}
	if len(e.Blocks) == 0 {
		return c08Expr{}, false
	}
	e.Text = strings.Join(texts, " OR ")
	return e, true
}

// ---- reference scope and score ------------------------------------------------------------

// c06Scope: nodes reachable from root within depth hops (clamped like the product: <=0 -> 1,
// >5 -> 5) over the model's currently active edges, root included.
func c06Scope(m *vexec.Model, ix string, q engine.GraphQuery) map[string]bool {
	depth := q.MaxDepth
	if depth <= 0 {
		depth = 1
	}
	if depth > 5 {
		depth = 5
	}
	seen := map[string]bool{q.RootID: true}
	frontier := []string{q.RootID}
	for d := 0; d < depth; d++ {
		var next []string
		for _, n := range frontier {
			g := vexec.GraphID(ix, n)
			for _, rel := range q.Relations {
				if q.Direction == "out" || q.Direction == "both" || q.Direction == "" {
					for _, v := range m.OutAt(g, rel, 0) {
						if t := vexec.NodeOf(v.Target); !seen[t] {
							seen[t] = true
							next = append(next, t)
						}
					}
				}
				if q.Direction == "in" || q.Direction == "both" {
					for _, s := range m.InAt(g, rel, 0) {
						if t := vexec.NodeOf(s); !seen[t] {
							seen[t] = true
							next = append(next, t)
						}
					}
				}
			}
		}
		frontier = next
	}
	return seen
}

// c06Similarity recomputes 1/(1+d) between a stored vector (as VGet returns it) and the
// query, with the query prepared the way the precision prepares it, and returns the value
// together with the tolerance of that precision.
func c06Similarity(cfg vexec.IndexCfg, stored, query []float32, absMax float32) (float64, float64) {
	// the index first brings a cosine query to unit length (float32), then encodes it
	prep := vexec.CopyVec(query)
	if cfg.Metric == distance.Cosine {
		prep = vexec.Normalize(prep)
	}
	q := make([]float64, len(prep))
	for i, v := range prep {
		q[i] = float64(v)
	}
	switch cfg.Prec {
	case distance.Float16:
		for i, v := range prep {
			q[i] = float64(float16.Fromfloat32(v).Float32())
		}
	case distance.Int8:
		if absMax > 0 {
			for i, v := range prep {
				s := float64(v) / float64(absMax) * 127
				if s > 127 {
					s = 127
				} else if s < -127 {
					s = -127
				}
				q[i] = math.Round(s) / 127 * float64(absMax)
			}
		}
	}
	var d float64
	if cfg.Metric == distance.Euclidean {
		for i := range q {
			x := float64(stored[i]) - q[i]
			d += x * x
		}
	} else {
		var dot, ns, nq float64
		for i := range q {
			dot += float64(stored[i]) * q[i]
			ns += float64(stored[i]) * float64(stored[i])
			nq += q[i] * q[i]
		}
		if ns == 0 || nq == 0 {
			d = 1
		} else {
			d = 1 - dot/math.Sqrt(ns*nq)
		}
	}
	if d < 0 {
		d = 0
	}
	tol := 2e-4
	switch cfg.Prec {
	case distance.Float16:
		tol = 1e-2
	case distance.Int8:
		tol = 6e-2
	}
	return 1 / (1 + d), tol
}

type c06Hit struct {
	id    string
	score float64
	has   bool // score reported
	sim   float64
	decay float64
	brk   bool
}

// c06Judge applies the soundness oracle to one result list.
func c06Judge(ctx *vkit.Ctx, cs *vkit.Case, x *vexec.Exec, ix, api string, query []float32, k int, expr *c08Expr, scope map[string]bool, hits []c06Hit, textQuery bool) {
	mi := x.M.Idx[ix]
	if len(hits) > k && k > 0 {
		cs.Fail("%s on %s returned %d results for k=%d", api, ix, len(hits), k)
	}
	seen := map[string]bool{}
	absMax := float32(0)
	if idx, ok := x.E.DB.GetVectorIndex(ix); ok {
		_ = idx
	}
	prev := math.Inf(1)
	for i, h := range hits {
		if seen[h.id] {
			cs.Fail("%s on %s returned id %s twice", api, ix, h.id)
		}
		seen[h.id] = true
		rec := mi.Recs[h.id]
		if rec == nil {
			cs.Fail("%s on %s returned id %q which is not a live vector of that index (deleted, vacuumed or foreign)", api, ix, h.id)
		}
		if expr != nil && !expr.Match(rec.Meta) {
			cs.Fail("%s on %s with filter %q returned id %s whose metadata %s does not satisfy it", api, ix, expr.Text, h.id, vexec.CanonJSON(rec.Meta))
		}
		if scope != nil && !scope[h.id] {
			cs.Fail("%s on %s returned id %s outside the requested graph scope %v", api, ix, h.id, vexec.SortedKeys(scope))
		}
		if !h.has {
			continue
		}
		if math.IsNaN(h.score) || h.score > prev+1e-12 {
			cs.Fail("%s on %s: scores are not in non-increasing order at position %d (%v after %v)", api, ix, i, h.score, prev)
		}
		prev = h.score
		if textQuery {
			continue
		}
		d, err := x.E.VGet(ix, h.id)
		if err != nil {
			cs.Fail("%s returned %s but VGet fails: %v", api, h.id, err)
		}
		if absMax == 0 && mi.Cfg.Prec == distance.Int8 {
			absMax = c06AbsMax(x, ix)
		}
		want, tol := c06Similarity(mi.Cfg, d.Vector, query, absMax)
		if h.brk {
			if h.decay < 0 || h.decay > 1 || math.IsNaN(h.decay) {
				cs.Fail("%s on %s: decay factor %v of %s outside [0,1]", api, ix, h.decay, h.id)
			}
			if math.Abs(h.score-h.sim*h.decay) > 1e-9*math.Max(1, math.Abs(h.score)) {
				cs.Fail("%s on %s: score %v of %s != similarity %v x decay %v", api, ix, h.score, h.id, h.sim, h.decay)
			}
			if math.Abs(h.sim-want) > tol {
				cs.Fail("%s on %s: reported similarity %v of %s, recomputed 1/(1+d) from the stored vector = %v (tolerance %v)", api, ix, h.sim, h.id, want, tol)
			}
		} else if mi.Cfg.Mem == nil || !mi.Cfg.Mem.Enabled {
			if math.Abs(h.score-want) > tol {
				cs.Fail("%s on %s: score %v of %s, recomputed 1/(1+d) from the stored vector = %v (tolerance %v)", api, ix, h.score, h.id, want, tol)
			}
		} else if h.score > want+tol || h.score < -1e-12 {
			cs.Fail("%s on %s (memory index): score %v of %s exceeds its similarity %v", api, ix, h.score, h.id, want)
		}
		ctx.Count("scores_recomputed", 1)
	}
	ctx.Count("results_judged", int64(len(hits)))
}

func c06AbsMax(x *vexec.Exec, ix string) float32 {
	type ranger interface{ Range() float32 }
	idx, ok := x.E.DB.GetVectorIndex(ix)
	if !ok {
		return 0
	}
	if h, ok := idx.(interface{ Quantizer() *distance.Quantizer }); ok && h.Quantizer() != nil {
		return h.Quantizer().Range()
	}
	return 0
}

func c06Queries(ctx *vkit.Ctx, cs *vkit.Case, x *vexec.Exec, g *vexec.Gen) {
	r := cs.R
	for _, ix := range vexec.SortedKeys(x.M.Idx) {
		mi := x.M.Idx[ix]
		if len(mi.Recs) == 0 || mi.Dim == 0 {
			continue
		}
		n := len(mi.Recs)
		for qn := 0; qn < 3; qn++ {
			var query []float32
			switch r.Intn(4) {
			case 0:
				query = vexec.CopyVec(mi.Recs[vkit.Pick(r, vexec.SortedKeys(mi.Recs))].Vec)
			case 1:
				query = make([]float32, mi.Dim)
				query[r.Intn(mi.Dim)] = 1
			default:
				query = make([]float32, mi.Dim)
				for i := range query {
					query[i] = r.F32()
				}
			}
			k := vkit.Pick(r, []int{1, 3, n, 2 * n})
			ef := vkit.Pick(r, []int{0, 1, 10, 200})
			var expr *c08Expr
			filter := ""
			if r.Chance(0.6) {
				if e, ok := c06Expr(r, mi, g); ok {
					expr, filter = &e, e.Text
				}
			}
			var gq *engine.GraphQuery
			var scope map[string]bool
			if r.Chance(0.35) {
				q := engine.GraphQuery{RootID: vkit.Pick(r, g.IDs[:5]), Relations: []string{vkit.Pick(r, g.Rels)}, Direction: vkit.Pick(r, []string{"out", "in", "both", ""}), MaxDepth: vkit.Pick(r, []int{0, 1, 2, 5, 9})}
				if r.Chance(0.4) {
					q.Relations = append(q.Relations, "inv_"+g.Rels[0])
				}
				gq = &q
				scope = c06Scope(x.M, ix, q)
			}
			cs.Op("query %s q=%v k=%d ef=%d filter=%q graph=%s", ix, query, k, ef, filter, vkit.JSON(gq))
			// VSearch
			ids, err := x.E.VSearch(ix, query, k, filter, "", ef, 1.0, gq)
			if err != nil {
				cs.Fail("VSearch(%s, filter=%q) failed: %v", ix, filter, err)
			}
			hits := make([]c06Hit, len(ids))
			for i, id := range ids {
				hits[i] = c06Hit{id: id}
			}
			c06Judge(ctx, cs, x, ix, "VSearch", query, k, expr, scope, hits, false)
			ctx.Count("queries.VSearch", 1)
			// VSearchGraph (scores)
			res, err := x.E.VSearchGraph(ix, query, k, filter, "", ef, 1.0, nil, false, gq)
			if err != nil {
				cs.Fail("VSearchGraph(%s) failed: %v", ix, err)
			}
			hits = hits[:0]
			for _, rr := range res {
				hits = append(hits, c06Hit{id: rr.ID, score: rr.Score, has: true})
			}
			zero := true
			for _, v := range query {
				if v != 0 {
					zero = false
				}
			}
			c06Judge(ctx, cs, x, ix, "VSearchGraph", query, k, expr, scope, hits, zero)
			ctx.Count("queries.VSearchGraph", 1)
			// VSearchWithScores (no filter / scope)
			if gq == nil && filter == "" {
				sr, err := x.E.VSearchWithScores(ix, query, k)
				if err != nil {
					cs.Fail("VSearchWithScores(%s) failed: %v", ix, err)
				}
				hits = hits[:0]
				for _, s := range sr {
					h := c06Hit{id: s.ID, score: s.Score, has: true}
					if s.Breakdown != nil {
						h.brk, h.sim, h.decay = true, s.Breakdown.Similarity, s.Breakdown.DecayFactor
					}
					hits = append(hits, h)
				}
				c06Judge(ctx, cs, x, ix, "VSearchWithScores", query, k, nil, nil, hits, zero)
				ctx.Count("queries.VSearchWithScores", 1)
			}
			// VFilter
			if expr != nil {
				fids, err := x.E.VFilter(ix, filter, 10*n+10)
				if err != nil {
					cs.Fail("VFilter(%s,%q) failed: %v", ix, filter, err)
				}
				hits = hits[:0]
				for _, id := range fids {
					hits = append(hits, c06Hit{id: id})
				}
				c06Judge(ctx, cs, x, ix, "VFilter", nil, 0, expr, nil, hits, true)
				ctx.Count("queries.VFilter", 1)
			}
			// text / hybrid
			if mi.Cfg.Lang != "" && r.Chance(0.5) {
				tq := vkit.Pick(r, g.Words)
				alpha := vkit.Pick(r, []float64{0, 0.3, 1})
				tr, err := x.E.VSearchGraph(ix, query, k, filter, tq, ef, alpha, nil, false, gq)
				if err != nil {
					cs.Fail("hybrid VSearchGraph(%s,text=%q) failed: %v", ix, tq, err)
				}
				hits = hits[:0]
				for _, rr := range tr {
					hits = append(hits, c06Hit{id: rr.ID, score: rr.Score, has: true})
				}
				c06Judge(ctx, cs, x, ix, "VSearchGraph(text)", query, k, expr, scope, hits, true)
				ctx.Count("queries.text", 1)
			}
		}
	}
}

// C06 — search returns only live, matching, correctly scored results.
func TestVerifC06(t *testing.T) {
	vkit.Run(t, "C06", func(ctx *vkit.Ctx) {
		ctx.Group("states", ctx.N(1200, 20000), func(cs *vkit.Case) {
			x := vexec.NewExec(cs, cs.SubDir("data"))
			defer func() {
				if x.E != nil {
					x.E.Close()
				}
			}()
			g := vexec.NewGen(cs.R)
			nops := cs.R.Range(20, ctx.N(45, 70))
			for i := 0; i < nops; i++ {
				if cs.R.Chance(0.12) {
					g.Admin(x)
				} else {
					g.Step(x)
				}
				if cs.R.Chance(0.04) {
					x.Restart()
				}
				if i%6 == 5 || i == nops-1 {
					x.Settle()
					if msg := x.CheckFull(); msg != "" { // the state itself must agree with the model first
						cs.Fail("state before querying: %s", msg)
					}
					c06Queries(ctx, cs, x, g)
				}
			}
			ctx.Eval(1)
			key := x.KindKey()
			if strings.Contains(key, "vdelete") {
				ctx.Distinct(key)
			}
			ctx.Sample("episode", 2, cs.Ops()[:min(len(cs.Ops()), 25)])
		})
	})
}

// C06 (concurrent variant, built with -race): class A ids are never touched, class D ids
// are deleted and vacuumed before the query phase, class X ids are churned by writers while
// the queries run.
func TestVerifC06Concurrent(t *testing.T) {
	vkit.Run(t, "C06", func(ctx *vkit.Ctx) {
		ctx.Group("concurrent", ctx.N(24, 320), func(cs *vkit.Case) {
			dir := cs.SubDir("data")
			e, err := engine.Open(vexec.Options(dir))
			if err != nil {
				cs.Fail("open: %v", err)
			}
			defer e.Close()
			combos := vexec.AllCombos
			cb := combos[cs.Idx%len(combos)]
			e.VCreate("ix", distance.DistanceMetric(cb[0]), 4, 16, distance.PrecisionType(cb[1]), "english", nil, nil, nil)
			e.VCreate("other", distance.Euclidean, 4, 16, distance.Float32, "", nil, nil, nil)
			r := cs.R
			rv := func() []float32 { return []float32{r.F32(), r.F32(), r.F32(), r.F32()} }
			for i := 0; i < 24; i++ {
				cat := vkit.Pick(r, []string{"x", "y"})
				e.VAdd("ix", fmt.Sprintf("A%d", i), rv(), map[string]any{"cat": cat, "cls": "A", "n": float64(i)})
				e.VAdd("ix", fmt.Sprintf("D%d", i), rv(), map[string]any{"cat": cat, "cls": "D"})
				e.VAdd("other", fmt.Sprintf("O%d", i), rv(), map[string]any{"cat": cat, "cls": "O"})
			}
			catA := map[string]string{}
			for i := 0; i < 24; i++ {
				d, _ := e.VGet("ix", fmt.Sprintf("A%d", i))
				catA[d.ID], _ = d.Metadata["cat"].(string)
			}
			for i := 0; i < 24; i++ {
				e.VDelete("ix", fmt.Sprintf("D%d", i))
			}
			e.VTriggerMaintenance("ix", "vacuum")
			cs.Op("concurrent phase on %s/%s", cb[0], cb[1])
			var stop atomic.Bool
			var wg sync.WaitGroup
			var fail atomic.Value
			for w := 0; w < 3; w++ { // writers churn class X and run maintenance
				wg.Add(1)
				rw := vkit.NewRand(uint64(r.Intn(1<<30)), uint64(w))
				go func(w int, rw *vkit.Rand) {
					defer wg.Done()
					for i := 0; !stop.Load(); i++ {
						id := fmt.Sprintf("X%d_%d", w, rw.Intn(12))
						switch rw.Intn(6) {
						case 0, 1:
							e.VAdd("ix", id, []float32{rw.F32(), rw.F32(), rw.F32(), rw.F32()}, map[string]any{"cat": vkit.Pick(rw, []string{"x", "y"}), "cls": "X"})
						case 2:
							e.VDelete("ix", id)
						case 3:
							e.VSetMetadata("ix", id, map[string]any{"cat": vkit.Pick(rw, []string{"x", "y"})})
						case 4:
							if w == 0 {
								e.VTriggerMaintenance("ix", vkit.Pick(rw, []string{"vacuum", "refine"}))
							}
						case 5:
							e.VLink("ix", id, "A1", "r", "", 1, nil)
						}
						ctx.Touch()
					}
				}(w, rw)
			}
			nq := ctx.N(600, 3000)
			var judged atomic.Int64
			var qwg sync.WaitGroup
			for qw := 0; qw < 4; qw++ {
				qwg.Add(1)
				rq := vkit.NewRand(uint64(r.Intn(1<<30)), uint64(100+qw))
				go func(rq *vkit.Rand) {
					defer qwg.Done()
					for i := 0; i < nq/4 && fail.Load() == nil; i++ {
						q := []float32{rq.F32(), rq.F32(), rq.F32(), rq.F32()}
						k := vkit.Pick(rq, []int{1, 5, 30, 100})
						cat := vkit.Pick(rq, []string{"x", "y"})
						filter := ""
						if rq.Chance(0.6) {
							filter = "cat = '" + cat + "'"
						}
						ids, err := e.VSearch("ix", q, k, filter, "", vkit.Pick(rq, []int{0, 10, 100}), 1.0, nil)
						if err != nil {
							fail.CompareAndSwap(nil, fmt.Sprintf("VSearch failed: %v", err))
							return
						}
						seen := map[string]bool{}
						for _, id := range ids {
							switch {
							case seen[id]:
								fail.CompareAndSwap(nil, fmt.Sprintf("VSearch returned %s twice: %v", id, ids))
							case strings.HasPrefix(id, "D"):
								fail.CompareAndSwap(nil, fmt.Sprintf("VSearch returned %s, which was deleted and vacuumed before the queries started", id))
							case strings.HasPrefix(id, "O"):
								fail.CompareAndSwap(nil, fmt.Sprintf("VSearch on ix returned %s, a vector of another index", id))
							case strings.HasPrefix(id, "A") && filter != "" && catA[id] != cat:
								fail.CompareAndSwap(nil, fmt.Sprintf("VSearch with %q returned %s whose (immutable) cat is %q", filter, id, catA[id]))
							case !strings.HasPrefix(id, "A") && !strings.HasPrefix(id, "X"):
								fail.CompareAndSwap(nil, fmt.Sprintf("VSearch returned unknown id %q", id))
							}
							seen[id] = true
						}
						if len(ids) > k {
							fail.CompareAndSwap(nil, fmt.Sprintf("VSearch returned %d results for k=%d", len(ids), k))
						}
						judged.Add(int64(len(ids)))
						ctx.Touch()
					}
				}(rq)
			}
			qwg.Wait()
			stop.Store(true)
			wg.Wait()
			if v := fail.Load(); v != nil {
				cs.Fail("%s", v.(string))
			}
			ctx.Count("concurrent_results_judged", judged.Load())
			ctx.Count("concurrent_queries", int64(nq))
			ctx.Eval(1)
			ctx.Distinct(fmt.Sprintf("conc/%s/%s/%d", cb[0], cb[1], judged.Load()/2000))
		})
	})
}

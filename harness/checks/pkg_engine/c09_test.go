package engine_test

import (
	"fmt"
	"math"
	"sort"
	"strings"
	"testing"

	"github.com/sanonone/kektordb/internal/zzverif/vexec"
	"github.com/sanonone/kektordb/internal/zzverif/vkit"
	"github.com/sanonone/kektordb/pkg/core/distance"
	"github.com/sanonone/kektordb/pkg/core/hnsw"
	"github.com/sanonone/kektordb/pkg/core/types"
	"github.com/sanonone/kektordb/pkg/engine"
	"github.com/sanonone/kektordb/pkg/textanalyzer"
)

// C09 — text and hybrid ranking follow the BM25 and fusion formulas on current data.
//
// Reference (DESIGN.md C09): BM25 from scratch, k1 = 1.2, b = 0.75,
// idf = ln(1 + (N - df + 0.5)/(df + 0.5)); the corpus of a field is the set of live documents
// whose CURRENT value of that field (as Engine.VGet returns it) is a string; N = its size,
// avgdl = its mean analysed length, df = number of corpus documents containing the term. The
// repository's analyser of the index language defines "analysed term".
//
// Strict class (asserted): every corpus document has >= 1 analysed token and the analysed query
// terms are pairwise distinct. Lenient class (only counted and sampled): a corpus that contains
// a document with zero analysed tokens, or a query with a repeated analysed term.

const (
	c09Index = "tx"
	c09Decoy = "ty"
	c09K1    = 1.2
	c09B     = 0.75
)

type c09Lang struct {
	name    string
	an      textanalyzer.Analyzer
	vocab   []string // 12 words: inflection pairs (stem collisions) and two stop words
	unknown string   // a word that never occurs in a document
}

func c09Langs() []c09Lang {
	return []c09Lang{
		{"english", textanalyzer.NewEnglishStemmer(),
			[]string{"cat", "cats", "dog", "running", "runs", "happy", "quick", "brown", "foxes", "jumped", "the", "is"}, "zebra"},
		{"italian", textanalyzer.NewItalianStemmer(),
			[]string{"gatto", "gatti", "cane", "correre", "correndo", "città", "caffè", "veloce", "velocemente", "rosso", "il", "non"}, "zebre"},
	}
}

func TestVerifC09(t *testing.T) {
	vkit.Run(t, "C09", func(ctx *vkit.Ctx) {
		ctx.Assume("metadata values are JSON-native; text fields hold words of a 12-word vocabulary per language (with capitalisation / punctuation noise)")
		ctx.Assume("vector side in the exact regime: at most 2*M nodes ever inserted per (re)built graph, efConstruction=200 >= n, k >= n; memory/decay disabled")
		ctx.Assume("after Compress (float16/int8) the vector similarity of a document is taken from the pure vector search of the same call parameters; the from-scratch 1/(1+distance) recomputation is applied to float32 indexes only")
		c09Probes(ctx)
		ctx.Group("corpus", ctx.N(1000, 24000), func(cs *vkit.Case) { c09Case(ctx, cs) })
	})
}

func c09Probes(ctx *vkit.Ctx) {}

// ---- reference ---------------------------------------------------------------------------

// c09Corpus is the current corpus of one field, rebuilt from VGet at every checkpoint.
type c09Corpus struct {
	field  string
	toks   map[string][]string // live id -> analysed tokens (only ids whose value is a string)
	ids    []string            // sorted keys of toks
	n      float64
	avg    float64
	strict bool // every document has at least one analysed token
}

func c09BuildCorpus(an textanalyzer.Analyzer, field string, live map[string]map[string]any) *c09Corpus {
	c := &c09Corpus{field: field, toks: map[string][]string{}, strict: true}
	var tot float64
	for id, meta := range live {
		s, ok := meta[field].(string)
		if !ok {
			continue
		}
		tk := an.Analyze(s)
		c.toks[id] = tk
		tot += float64(len(tk))
		if len(tk) == 0 {
			c.strict = false
		}
	}
	for id := range c.toks {
		c.ids = append(c.ids, id)
	}
	sort.Strings(c.ids)
	c.n = float64(len(c.toks))
	if c.n > 0 {
		c.avg = tot / c.n
	}
	return c
}

func (c *c09Corpus) hasTokens() bool {
	for _, tk := range c.toks {
		if len(tk) > 0 {
			return true
		}
	}
	return false
}

// score returns the reference BM25 score of every document that contains at least one of the
// query terms. Terms are summed in query order, one summand per element of qterms.
func (c *c09Corpus) score(qterms []string) map[string]float64 {
	out := map[string]float64{}
	if c.n == 0 || c.avg <= 0 {
		return out
	}
	df := map[string]int{}
	for _, t := range qterms {
		if _, done := df[t]; done {
			continue
		}
		n := 0
		for _, tk := range c.toks {
			for _, x := range tk {
				if x == t {
					n++
					break
				}
			}
		}
		df[t] = n
	}
	for id, tk := range c.toks {
		sc, hit := 0.0, false
		for _, t := range qterms {
			tf := 0
			for _, x := range tk {
				if x == t {
					tf++
				}
			}
			if tf == 0 {
				continue
			}
			hit = true
			idf := math.Log(1 + (c.n-float64(df[t])+0.5)/(float64(df[t])+0.5))
			f := float64(tf)
			sc += idf * (f * (c09K1 + 1)) / (f + c09K1*(1-c09B+c09B*float64(len(tk))/c.avg))
		}
		if hit {
			out[id] = sc
		}
	}
	return out
}

func c09Distinct(terms []string) bool {
	seen := map[string]bool{}
	for _, t := range terms {
		if seen[t] {
			return false
		}
		seen[t] = true
	}
	return true
}

func c09Uniq(terms []string) []string {
	seen := map[string]bool{}
	var out []string
	for _, t := range terms {
		if !seen[t] {
			seen[t] = true
			out = append(out, t)
		}
	}
	return out
}

func c09RelClose(got, want, rel float64) bool {
	return math.Abs(got-want) <= rel*math.Abs(want)+1e-300
}

func c09FmtScores(m map[string]float64) string {
	keys := make([]string, 0, len(m))
	for k := range m {
		keys = append(keys, k)
	}
	sort.Slice(keys, func(i, j int) bool {
		if m[keys[i]] != m[keys[j]] {
			return m[keys[i]] > m[keys[j]]
		}
		return keys[i] < keys[j]
	})
	var sb strings.Builder
	for _, k := range keys {
		fmt.Fprintf(&sb, "%s=%.12g ", k, m[k])
	}
	return strings.TrimSpace(sb.String())
}

// ---- one case ----------------------------------------------------------------------------

type c09State struct {
	ctx            *vkit.Ctx
	cs             *vkit.Case
	x              *vexec.Exec
	lang           c09Lang
	cfg            vexec.IndexCfg
	dim            int
	grid           bool
	pool           []string
	inserted       int // nodes inserted into the current graph (reset by Compress, which rebuilds it)
	maxInserts     int
	compressed     bool
	decoy          bool
	everCompressed bool
	bgRefine       bool // a background refine of the current index object may be running
	everLive       map[string]bool
	kinds          []string
	mutations      int // overwrites + deletes so far
	restores       int
	nontrivial     bool
	// field names of this corpus: primary carries most of the text ("content" in most cases,
	// otherwise another name), secondary is a second text field; "cat" holds single words.
	primary, secondary string
	// preMode != 0 while the index is in its "no primary text yet" phase: 1 = documents carry
	// no string metadata at all, 2 = only the secondary field / cat carry text.
	preMode int
	// fieldLog is the sequence of distinct text-field sets under which explicit-text engine
	// queries have been issued so far on the current index (witness material).
	fieldLog []string
}

func (s *c09State) kind(k string) {
	s.kinds = append(s.kinds, k)
	s.ctx.Count("hist."+k, 1)
}

func (s *c09State) word() string { return vkit.Pick(s.cs.R, s.lang.vocab) }

// catWord is a single word for the "cat" field, rarely a stop word (a text of zero analysed tokens).
func (s *c09State) catWord() string {
	if s.cs.R.Chance(0.03) {
		return s.word()
	}
	return s.lang.vocab[s.cs.R.Intn(10)]
}

func (s *c09State) isStop(w string) bool { return len(s.lang.an.Analyze(w)) == 0 }

// text draws 1-8 vocabulary words with capitalisation / punctuation noise. Unless an empty or
// all-stop-word text is drawn on purpose (about 1.6 %), at least one word is not a stop word.
func (s *c09State) text() string {
	r := s.cs.R
	if r.Chance(0.004) {
		return ""
	}
	n := r.Range(1, 8)
	w := make([]string, n)
	for i := range w {
		w[i] = s.word()
	}
	if r.Chance(0.012) {
		for i := range w {
			w[i] = s.lang.vocab[10+r.Intn(2)]
		}
	} else {
		ok := false
		for _, x := range w {
			if !s.isStop(x) {
				ok = true
			}
		}
		if !ok {
			w[r.Intn(n)] = s.lang.vocab[r.Intn(10)]
		}
	}
	for i := range w {
		if r.Chance(0.12) {
			w[i] = strings.ToUpper(w[i][:1]) + w[i][1:]
		}
		if r.Chance(0.12) {
			w[i] += vkit.Pick(r, []string{",", ".", "!", ";"})
		}
	}
	return strings.Join(w, " ")
}

func (s *c09State) vec() []float32 {
	r := s.cs.R
	for {
		v := make([]float32, s.dim)
		nz := false
		for i := range v {
			if s.grid {
				v[i] = float32(r.Intn(9)-4) / 4
			} else {
				v[i] = r.F32()
			}
			if v[i] != 0 {
				nz = true
			}
		}
		if nz {
			return v
		}
	}
}

func (s *c09State) nonString() any {
	switch s.cs.R.Intn(6) {
	case 4: // JSON null: the field stops holding a text
		return nil
	case 5: // an object
		return map[string]any{"w": s.word()}
	case 0:
		return float64(s.cs.R.Intn(9))
	case 1:
		return s.cs.R.Chance(0.5)
	case 2:
		return []any{s.word(), s.word()}
	default:
		return float64(s.cs.R.Intn(2000)) / 8
	}
}

func (s *c09State) liveIDs() []string {
	mi := s.x.M.Idx[c09Index]
	if mi == nil {
		return nil
	}
	return vexec.SortedKeys(mi.Recs)
}

func (s *c09State) deadIDs() []string {
	mi := s.x.M.Idx[c09Index]
	var out []string
	for _, id := range s.pool {
		if mi == nil || mi.Recs[id] == nil {
			out = append(out, id)
		}
	}
	return out
}

func (s *c09State) newMeta() map[string]any {
	r := s.cs.R
	meta := map[string]any{"n": float64(r.Intn(50))}
	switch s.preMode {
	case 1: // no string metadata at all: the index has no text field
		if r.Chance(0.3) {
			meta[s.primary] = float64(r.Intn(9))
		}
		return meta
	case 2: // text only in the secondary field (and sometimes cat)
		if r.Chance(0.75) {
			meta[s.secondary] = s.text()
		}
		if r.Chance(0.15) {
			meta["cat"] = s.catWord()
		}
		if r.Chance(0.2) {
			meta[s.primary] = s.nonString()
		}
		return meta
	}
	switch p := r.Intn(100); {
	case p < 88:
		meta[s.primary] = s.text()
	case p < 94:
		meta[s.primary] = s.nonString()
	}
	if r.Chance(0.5) {
		meta[s.secondary] = s.text()
	}
	if r.Chance(0.25) {
		meta["cat"] = s.catWord()
	}
	return meta
}

// addMany inserts several documents through the batch or the import path.
func (s *c09State) addMany(ids []string) {
	var items []types.BatchObject
	for _, id := range ids {
		items = append(items, types.BatchObject{Id: id, Vector: s.vec(), Metadata: s.newMeta()})
	}
	var err error
	if s.cs.R.Chance(0.5) {
		s.kind("insert_batch")
		err = s.x.VAddBatch(c09Index, items)
	} else {
		s.kind("insert_import")
		if err = s.x.VImport(c09Index, items); err == nil {
			s.x.VImportCommit(c09Index)
			// VImportCommit starts a background "turbo refine" goroutine that rewires the
			// graph for >= 10 s: the vector side is neither quiescent nor in the exact
			// regime until the index object is replaced (restart / compress / re-create).
			s.bgRefine = true
		}
	}
	if err == nil {
		s.inserted += len(items)
		for _, id := range ids {
			s.everLive[id] = true
		}
	}
}

func (s *c09State) add(id string) {
	meta := s.newMeta()
	if s.everLive[id] {
		s.kind("readd")
	} else {
		s.kind("insert")
	}
	if err := s.x.VAdd(c09Index, id, s.vec(), meta); err == nil {
		s.inserted++
		s.everLive[id] = true
	}
}

func (s *c09State) analysedLen(v any) int {
	if str, ok := v.(string); ok {
		return len(s.lang.an.Analyze(str))
	}
	return -1
}

// overwrite one field of a live document.
func (s *c09State) overwrite() {
	r := s.cs.R
	live := s.liveIDs()
	if len(live) == 0 {
		return
	}
	id := vkit.Pick(r, live)
	field := s.primary
	if r.Chance(0.2) {
		field = s.secondary
	}
	cur := s.x.M.Idx[c09Index].Recs[id].Meta[field]
	curLen := s.analysedLen(cur)
	var val any
	kind := ""
	switch p := r.Intn(100); {
	case p < 10 && curLen >= 0:
		val, kind = cur, "ow_same"
	case p < 40 && curLen >= 0:
		kind = "ow_difflen"
		val = s.text()
		for try := 0; try < 20; try++ {
			t := s.text()
			if s.analysedLen(t) == curLen && t != cur.(string) {
				val, kind = t, "ow_samelen"
				break
			}
		}
	case p < 75:
		val = s.text()
		switch {
		case curLen < 0:
			kind = "ow_tostring"
		case s.analysedLen(val) == curLen:
			kind = "ow_samelen"
		default:
			kind = "ow_difflen"
		}
	case p < 92:
		val = s.nonString()
		if curLen >= 0 {
			kind = "ow_nonstring"
		} else {
			kind = "ow_nonstring_again"
		}
	default:
		// touch an unrelated key: VSetMetadata re-submits the merged record
		if r.Chance(0.4) {
			s.kind("reinforce")
			s.x.VReinforce(c09Index, []string{id})
			return
		}
		s.kind("ow_other")
		s.x.VSetMetadata(c09Index, id, map[string]any{"n": float64(r.Intn(50))})
		return
	}
	s.kind(kind)
	if field == s.secondary {
		s.ctx.Count("hist.title_overwrites", 1)
	}
	s.x.VSetMetadata(c09Index, id, map[string]any{field: val})
	s.mutations++
}

func (s *c09State) delete() {
	live := s.liveIDs()
	if len(live) == 0 {
		return
	}
	id := vkit.Pick(s.cs.R, live)
	s.kind("delete")
	s.x.VDelete(c09Index, id)
	s.mutations++
	if s.cs.R.Chance(0.35) && s.inserted < s.maxInserts {
		s.add(id) // immediate re-add of the same id
	}
	if s.cs.R.Chance(0.15) {
		s.kind("vacuum")
		s.x.Maintenance(c09Index, "vacuum")
	}
}

// strip removes the primary text from every live document (overwrite to a non-string, or
// delete the document): the set of text fields of the index shrinks in mid-life; the text comes
// back later through the ordinary overwrites and inserts.
func (s *c09State) strip() {
	r := s.cs.R
	live := s.liveIDs()
	if len(live) == 0 {
		return
	}
	s.kind("strip_primary_text")
	mi := s.x.M.Idx[c09Index]
	keep := live[r.Intn(len(live))] // at least one document stays
	for _, id := range live {
		if _, isStr := mi.Recs[id].Meta[s.primary].(string); !isStr {
			continue
		}
		if id != keep && r.Chance(0.3) {
			s.x.VDelete(c09Index, id)
		} else {
			s.x.VSetMetadata(c09Index, id, map[string]any{s.primary: s.nonString()})
		}
		s.mutations++
	}
}

func (s *c09State) restore() {
	switch s.cs.R.Intn(5) {
	case 0:
		s.kind("snapshot+restart")
		s.x.SaveSnapshot()
		s.x.Restart()
	case 1, 2:
		s.kind("restart")
		s.x.Restart()
	case 3:
		s.kind("rewrite+restart")
		s.x.RewriteAOF()
		s.x.Restart()
	default:
		if s.cs.R.Chance(0.5) {
			s.kind("snapshot")
			s.x.SaveSnapshot()
		} else {
			s.kind("rewrite")
			s.x.RewriteAOF()
		}
		return
	}
	s.restores++
	s.bgRefine = false
}

func (s *c09State) compress() bool {
	// At most one Compress per case: Compress removes "<arena>.old_compress" asynchronously
	// (core.go Compress, go os.RemoveAll) and a second Compress of a re-created index of the
	// same name fails when that directory still exists (seen once under heavy I/O load; it is
	// a robustness defect outside C09, see REPORT-C09.md "side finding").
	if s.compressed || s.everCompressed || len(s.liveIDs()) == 0 {
		return false
	}
	target := distance.PrecisionType(distance.Float16)
	if s.cfg.Metric == distance.Cosine {
		target = distance.Int8
	}
	s.kind("compress")
	if err := s.x.VCompress(c09Index, target); err == nil {
		s.compressed = true
		s.bgRefine = false
		s.everCompressed = true
		s.inserted = len(s.liveIDs())
		return true
	}
	return false
}

// decoyOp writes to the decoy index (same ids, texts of the same vocabulary).
func (s *c09State) decoyOp(id string) {
	mi := s.x.M.Idx[c09Decoy]
	if mi == nil {
		return
	}
	s.ctx.Count("hist.decoy_ops", 1)
	switch {
	case mi.Recs[id] == nil:
		s.x.VAdd(c09Decoy, id, []float32{s.cs.R.F32(), s.cs.R.F32()}, map[string]any{s.primary: s.text(), s.secondary: s.text()})
	case s.cs.R.Chance(0.5):
		s.x.VSetMetadata(c09Decoy, id, map[string]any{s.primary: s.text()})
	default:
		s.x.VDelete(c09Decoy, id)
	}
}

// recreate drops the index and creates it again under the same name with fresh documents.
func (s *c09State) recreate() {
	s.kind("drop+recreate")
	s.x.VDeleteIndex(c09Index)
	s.cfg.Prec = distance.Float32
	s.x.VCreate(s.cfg)
	s.compressed = false
	s.bgRefine = false
	s.inserted = 0
	s.mutations++
	s.fieldLog = nil
	s.populate(s.cs.R.Range(3, 8))
}

// populate is the early life of a freshly created index. The text of a corpus may arrive at any
// point of that life and queries may be issued at any point too: optionally the still empty
// index is queried, and optionally the first documents carry no primary text yet (no string
// metadata at all, or text only in the secondary field) and are queried in that state, before
// the primary text arrives through overwrites and further inserts.
func (s *c09State) populate(n0 int) {
	r := s.cs.R
	if r.Chance(0.3) {
		s.kind("query_empty_index")
		s.checkpoint(1, 2)
	}
	if r.Chance(0.35) {
		s.preMode = 1 + r.Intn(2)
		s.kind(fmt.Sprintf("pretext_phase%d", s.preMode))
		n0 = min(n0, 6)
	}
	first := r.Perm(12)[:n0]
	if r.Chance(0.25) {
		var ids []string
		for _, i := range first {
			ids = append(ids, s.pool[i])
		}
		s.addMany(ids)
	} else {
		for _, i := range first {
			s.add(s.pool[i])
		}
	}
	if s.preMode == 0 {
		return
	}
	s.checkpoint(2, 3)
	s.preMode = 0
	live := s.liveIDs()
	got := 0
	for i, id := range live {
		if r.Chance(0.7) || (i == len(live)-1 && got == 0) {
			s.kind("ow_tostring")
			s.x.VSetMetadata(c09Index, id, map[string]any{s.primary: s.text()})
			s.mutations++
			got++
		}
	}
	if dead := s.deadIDs(); len(dead) > 0 && s.inserted < s.maxInserts && r.Chance(0.5) {
		s.add(vkit.Pick(r, dead))
	}
}

func c09Case(ctx *vkit.Ctx, cs *vkit.Case) {
	r := cs.R
	s := &c09State{ctx: ctx, cs: cs, everLive: map[string]bool{}}
	s.lang = c09Langs()[r.Intn(2)]
	// field names: the engine's explicit-text search looks for a text field by name, so the
	// name of the field that carries the text is part of the input space
	s.primary, s.secondary = "content", "title"
	if r.Chance(0.4) {
		s.primary = vkit.Pick(r, []string{"text", "body", "description", "summary", "page_content", "notes"})
	}
	if r.Chance(0.3) {
		s.secondary = vkit.Pick(r, []string{"summary", "description", "abstract"})
		if s.secondary == s.primary {
			s.secondary = "title"
		}
	}
	s.dim = vkit.Pick(r, []int{2, 3, 4, 8})
	s.grid = r.Chance(0.4)
	for i := 0; i < 12; i++ {
		s.pool = append(s.pool, fmt.Sprintf("d%d", i))
	}
	s.cfg = vexec.IndexCfg{Name: c09Index, Metric: distance.Euclidean, Prec: distance.Float32,
		M: vkit.Pick(r, []int{16, 32}), EfC: 200, Lang: s.lang.name}
	if r.Chance(0.4) {
		s.cfg.Metric = distance.Cosine
	}
	s.maxInserts = 2 * s.cfg.M
	s.x = vexec.NewExec(cs, cs.SubDir("data"))
	defer func() {
		if s.x.E != nil {
			s.x.E.Close()
		}
	}()
	s.x.VCreate(s.cfg)
	if r.Chance(0.3) {
		// a second index in the other language holding the same ids: must not interfere
		s.decoy = true
		other := "italian"
		if s.lang.name == "italian" {
			other = "english"
		}
		s.x.VCreate(vexec.IndexCfg{Name: c09Decoy, Metric: distance.Euclidean, Prec: distance.Float32, M: 16, EfC: 200, Lang: other})
		for _, i := range r.Perm(12)[:r.Range(2, 6)] {
			s.decoyOp(s.pool[i])
		}
	}

	s.populate(r.Range(3, 12))
	s.checkpoint(3, 2)

	nops := r.Range(8, ctx.N(18, 24))
	for i := 0; i < nops; i++ {
		forced := false
		if s.decoy && r.Chance(0.12) {
			s.decoyOp(vkit.Pick(r, s.pool))
		}
		if r.Chance(0.025) {
			s.recreate()
			s.checkpoint(3, 2)
			continue
		}
		if r.Chance(0.03) {
			s.strip()
			s.checkpoint(2, 3)
			continue
		}
		switch p := r.Intn(100); {
		case p < 14:
			if dead := s.deadIDs(); len(dead) > 0 && s.inserted < s.maxInserts && len(s.liveIDs()) < 12 {
				if m := min(len(dead), s.maxInserts-s.inserted, 3); r.Chance(0.25) && m >= 2 {
					var ids []string
					for _, i := range r.Perm(len(dead))[:r.Range(2, m)] {
						ids = append(ids, dead[i])
					}
					s.addMany(ids)
				} else {
					s.add(vkit.Pick(r, dead))
				}
			}
		case p < 56:
			s.overwrite()
		case p < 72:
			s.delete()
		case p < 92:
			s.restore()
			forced = s.kinds[len(s.kinds)-1] != "snapshot" && s.kinds[len(s.kinds)-1] != "rewrite"
		default:
			forced = s.compress()
		}
		if forced || r.Chance(0.3) || i == nops-1 {
			s.checkpoint(3, 2)
		}
	}
	if s.nontrivial {
		ctx.Distinct(s.lang.name + "|" + strings.Join(s.kinds, ","))
	}
	ctx.Count("corpora", 1)
	ctx.Sample("history", 2, map[string]any{"lang": s.lang.name, "fields": s.primary + "," + s.secondary, "metric": string(s.cfg.Metric), "ops": cs.Ops()[:min(len(cs.Ops()), 30)]})
}

// ---- checkpoint: read the current data, rebuild the reference, run queries ----------------

type c09View struct {
	live map[string]map[string]any // live id -> metadata as VGet returns it
	vecs map[string][]float32      // live id -> vector as supplied (model)
	an   textanalyzer.Analyzer
	corp map[string]*c09Corpus // field -> current corpus, built on demand
	h    *hnsw.Index
}

// corpus returns the current corpus of a field (empty when no live document holds a string there).
func (v *c09View) corpus(field string) *c09Corpus {
	if c := v.corp[field]; c != nil {
		return c
	}
	c := c09BuildCorpus(v.an, field, v.live)
	v.corp[field] = c
	return c
}

// stringFields lists the metadata keys under which at least one live document currently holds a
// string: these are the text fields of the index at this moment.
func (v *c09View) stringFields() []string {
	set := map[string]bool{}
	for _, m := range v.live {
		for k, val := range m {
			if _, ok := val.(string); ok {
				set[k] = true
			}
		}
	}
	return vexec.SortedKeys(set)
}

// c09Documented are the field names the engine's own hint names for explicit-text search
// ("Make sure metadata contains one of: ..."), plus "summary" from its candidate list.
var c09Documented = map[string]bool{"content": true, "text": true, "page_content": true, "body": true, "description": true, "summary": true}

// explicitFields says over which field(s) an explicit text query may be evaluated right now.
// The property fixes the formula, not the field; what is asserted is therefore only what every
// reading shares: the text side is BM25 over the CURRENT values of a field that currently holds
// text. "content" wins when it holds text; otherwise a field named in the engine's hint wins
// over an arbitrary name; among several remaining candidates any one is accepted. No text
// field at all: vector-only order. lenient=true when some text field holds a document with
// zero analysed tokens (which field the engine then sees is not settled).
func (v *c09View) explicitFields() (cands []*c09Corpus, all []string, lenient bool) {
	all = v.stringFields()
	var doc, other []*c09Corpus
	docStrict, otherStrict := true, true
	for _, f := range all {
		c := v.corpus(f)
		switch {
		case f == "content":
			if !c.strict {
				return nil, all, true
			}
			return []*c09Corpus{c}, all, false
		case c09Documented[f]:
			doc = append(doc, c)
			docStrict = docStrict && c.strict
		default:
			other = append(other, c)
			otherStrict = otherStrict && c.strict
		}
	}
	if len(doc) > 0 {
		return doc, all, !docStrict
	}
	return other, all, !otherStrict
}

func (s *c09State) view() *c09View {
	v := &c09View{live: map[string]map[string]any{}, vecs: map[string][]float32{}, an: s.lang.an, corp: map[string]*c09Corpus{}}
	mi := s.x.M.Idx[c09Index]
	for _, id := range s.pool {
		d, err := s.x.E.VGet(c09Index, id)
		if err != nil {
			if mi.Recs[id] != nil {
				s.ctx.Count("read.model_mismatch", 1)
				s.ctx.Sample("model_mismatch", 3, fmt.Sprintf("VGet(%s) fails for an id the model holds live: %v", id, err))
			}
			continue
		}
		v.live[id] = vexec.NormMeta(d.Metadata)
		if msg := s.x.CheckRecord(c09Index, id); msg != "" {
			s.ctx.Count("read.model_mismatch", 1)
			s.ctx.Sample("model_mismatch", 3, msg)
		}
		if mi.Recs[id] != nil {
			v.vecs[id] = mi.Recs[id].Vec
		}
	}
	idx, ok := s.x.E.DB.GetVectorIndex(c09Index)
	if !ok {
		s.cs.Fail("index %s vanished", c09Index)
	}
	v.h = idx.(*hnsw.Index)
	return v
}

// query draws 1-3 words. repeat=true asks for a repeated analysed term on purpose.
func (s *c09State) query(repeat bool) string {
	r := s.cs.R
	for try := 0; ; try++ {
		n := r.Range(1, 3)
		w := make([]string, n)
		for i := range w {
			w[i] = s.word()
			if r.Chance(0.06) {
				w[i] = s.lang.unknown
			}
			if r.Chance(0.1) {
				w[i] = strings.ToUpper(w[i][:1]) + w[i][1:]
			}
		}
		if repeat {
			w = append(w, w[r.Intn(len(w))])
		}
		q := strings.Join(w, " ")
		if repeat || try >= 8 || c09Distinct(s.lang.an.Analyze(q)) {
			return q
		}
	}
}

func (s *c09State) checkpoint(nText, nHybrid int) {
	v := s.view()
	r := s.cs.R
	pc, sc := v.corpus(s.primary), v.corpus(s.secondary)
	s.cs.Op("checkpoint: live=%d text fields now %v; %s-corpus=%d (strict=%v) %s-corpus=%d (strict=%v)", len(v.live), v.stringFields(), s.primary, len(pc.ids), pc.strict, s.secondary, len(sc.ids), sc.strict)
	for i := 0; i < nText; i++ {
		c := pc
		if p := r.Intn(100); p < 25 {
			c = sc
		} else if p < 32 {
			c = v.corpus("cat")
		}
		s.textQuery(v, c, s.query(r.Chance(0.08)))
	}
	for i := 0; i < nHybrid; i++ {
		s.hybridQuery(v)
	}
	if r.Chance(0.6) {
		s.textOnlyEngine(v)
	}
	if s.decoy && r.Chance(0.3) {
		// a search on ANOTHER index (other language, other text fields) is part of the history
		// too: it must not change what later searches on this index return
		q := s.query(false)
		s.cs.Op("VSearch(%s, text=%q)  [decoy index, result not examined]", c09Decoy, q)
		s.x.E.VSearch(c09Decoy, []float32{r.F32(), r.F32()}, 3, "", q, 0, 0.5, nil)
		s.ctx.Count("hist.decoy_queries", 1)
	}
}

// textQuery checks DB.FindIDsByTextSearch against the reference.
func (s *c09State) textQuery(v *c09View, c *c09Corpus, q string) {
	cs := s.cs
	qt := s.lang.an.Analyze(q)
	strict := c.strict && c09Distinct(qt)
	cs.Op("FindIDsByTextSearch(%s,%s,%q) analysed=%v strict=%v", c09Index, c.field, q, qt, strict)
	res, err := s.x.E.DB.FindIDsByTextSearch(c09Index, c.field, q)
	want := c.score(qt)
	got := map[string]float64{}
	var problems []string
	prev := math.Inf(1)
	for i, rr := range res {
		ext, ok := v.h.GetExternalID(rr.DocID)
		if !ok {
			ext = fmt.Sprintf("<internal %d without external id>", rr.DocID)
		}
		if _, dup := got[ext]; dup {
			problems = append(problems, fmt.Sprintf("document %s is returned twice", ext))
		}
		got[ext] = rr.Score
		if _, isLive := v.live[ext]; !isLive {
			problems = append(problems, fmt.Sprintf("result %d (%s, internal %d, score %v) is not a live document", i, ext, rr.DocID, rr.Score))
		}
		if !(rr.Score <= prev) {
			problems = append(problems, fmt.Sprintf("order: result %d has score %v after %v", i, rr.Score, prev))
		}
		prev = rr.Score
	}
	if err != nil {
		problems = append(problems, fmt.Sprintf("error %v", err))
	}
	for id, w := range want {
		g, ok := got[id]
		if !ok {
			problems = append(problems, fmt.Sprintf("document %s (%s=%q, analysed %v) contains a query term but is not returned", id, c.field, v.live[id][c.field], c.toks[id]))
			continue
		}
		if !c09RelClose(g, w, 1e-9) {
			problems = append(problems, fmt.Sprintf("score of %s is %.15g, reference BM25 %.15g (N=%v avgdl=%.6g len=%d)", id, g, w, c.n, c.avg, len(c.toks[id])))
		}
	}
	for id := range got {
		if _, ok := want[id]; !ok {
			if _, isLive := v.live[id]; isLive {
				problems = append(problems, fmt.Sprintf("document %s (%s=%v) contains no analysed query term but is returned with score %v", id, c.field, v.live[id][c.field], got[id]))
			}
		}
	}
	if !strict {
		// lenient class: pinned and logged, never asserted
		s.ctx.Count("lenient.text_queries", 1)
		class := "emptydoc"
		if !c09Distinct(qt) {
			class = "repeated_term"
			// alternative reading: a repeated term counts once
			alt := c.score(c09Uniq(qt))
			agreeAlt := len(alt) == len(got)
			for id, w := range alt {
				if g, ok := got[id]; !ok || !c09RelClose(g, w, 1e-9) {
					agreeAlt = false
				}
			}
			if agreeAlt {
				s.ctx.Count("lenient.repeated_term.agrees_with_count_once", 1)
			}
		}
		if len(problems) == 0 {
			s.ctx.Count("lenient."+class+".agrees_with_reference", 1)
		} else {
			s.ctx.Count("lenient."+class+".differs_from_reference", 1)
			s.ctx.Sample("lenient_difference_"+class, 2, map[string]any{"query": q, "field": c.field, "problems": problems[:min(3, len(problems))]})
		}
		return
	}
	if len(problems) > 0 {
		cs.Attach("corpus", c09CorpusDump(v, c))
		cs.Attach("expected", c09FmtScores(want))
		cs.Attach("observed", c09FmtScores(got))
		cs.Fail("FindIDsByTextSearch(%s,%q) [analysed %v] after history [%s]: %s", c.field, q, qt, strings.Join(s.kinds, " "), strings.Join(problems, "; "))
	}
	s.ctx.Eval(1)
	s.ctx.Count("text.strict_queries", 1)
	s.ctx.Count("text.docs_scored", int64(len(want)))
	if len(want) == 0 {
		s.ctx.Count("text.empty_results", 1)
	}
	distinctScores := map[float64]bool{}
	for _, w := range want {
		distinctScores[w] = true
	}
	if len(distinctScores) >= 2 && s.mutations > 0 {
		s.nontrivial = true
		s.ctx.Count("text.nontrivial_queries", 1)
	}
	if s.restores > 0 {
		s.ctx.Count("text.queries_after_restore", 1)
	}
	if s.compressed {
		s.ctx.Count("text.queries_after_compress", 1)
	}
	s.ctx.Sample("text_query", 3, map[string]any{"lang": s.lang.name, "field": c.field, "query": q, "analysed": qt, "N": c.n, "avgdl": c.avg, "scores": c09FmtScores(want), "history": strings.Join(s.kinds, " ")})
}

func c09CorpusDump(v *c09View, c *c09Corpus) map[string]any {
	out := map[string]any{"N": c.n, "avgdl": c.avg}
	docs := map[string]any{}
	for id, m := range v.live {
		docs[id] = map[string]any{"value": m[c.field], "analysed": c.toks[id]}
	}
	out["live_docs"] = docs
	return out
}

// refSim is the from-scratch vector similarity 1/(1+distance): squared L2 for euclidean,
// 1 - cos for cosine.
func (s *c09State) refSim(q, d []float32) float64 {
	if s.cfg.Metric == distance.Cosine {
		var dot, nq, nd float64
		for i := range q {
			dot += float64(q[i]) * float64(d[i])
			nq += float64(q[i]) * float64(q[i])
			nd += float64(d[i]) * float64(d[i])
		}
		return 1 / (1 + (1 - dot/math.Sqrt(nq*nd)))
	}
	var sum float64
	for i := range q {
		x := float64(q[i]) - float64(d[i])
		sum += x * x
	}
	return 1 / (1 + sum)
}

func c09IDs(res []engine.GraphSearchResult) []string {
	out := make([]string, len(res))
	for i, r := range res {
		out[i] = fmt.Sprintf("%s=%.9g", r.ID, r.Score)
	}
	return out
}

// noteFields records under which text-field set an explicit-text engine query is issued.
func (s *c09State) noteFields(all []string) string {
	key := fmt.Sprintf("%v", all)
	if len(s.fieldLog) == 0 || s.fieldLog[len(s.fieldLog)-1] != key {
		s.fieldLog = append(s.fieldLog, key)
	}
	switch {
	case len(all) == 0:
		s.ctx.Count("explicit.queries_without_any_text_field", 1)
	case len(s.fieldLog) > 1:
		s.ctx.Count("explicit.queries_after_text_field_set_changed", 1)
	}
	return key
}

// hybridQuery checks the fusion arithmetic and the alpha=1 / alpha=0 orders.
func (s *c09State) hybridQuery(v *c09View) {
	cs, r := s.cs, s.cs.R
	n := len(v.live)
	if s.bgRefine {
		s.ctx.Count("hybrid.skipped_background_refine", 1)
		return
	}
	// Either an explicit text query (the engine chooses the field, see explicitFields) or the
	// CONTAINS(field, '...') syntax that names the field.
	viaContains := r.Chance(0.3)
	var cands []*c09Corpus
	var all []string
	if viaContains {
		field := s.primary
		if r.Chance(0.4) {
			field = s.secondary
		}
		c := v.corpus(field)
		if !c.strict {
			s.ctx.Count("hybrid.skipped_lenient_corpus", 1)
			return
		}
		cands, all = []*c09Corpus{c}, v.stringFields()
	} else {
		var lenient bool
		cands, all, lenient = v.explicitFields()
		if lenient {
			s.ctx.Count("hybrid.skipped_lenient_corpus", 1)
			return
		}
	}
	var q string
	for try := 0; try < 20; try++ {
		q = s.query(false)
		if c09Distinct(s.lang.an.Analyze(q)) {
			break
		}
	}
	qt := s.lang.an.Analyze(q)
	if !c09Distinct(qt) {
		return
	}
	alpha := vkit.Pick(r, []float64{0, 1, 0.5, 0.25, 0.7, 0.9, 0.1})
	if r.Chance(0.25) {
		alpha = float64(r.Intn(1001)) / 1000
	}
	// k >= n mostly; otherwise k < n: the vector side is then the engine's own top-k of the pure
	// vector search with the same k, and the result must be a top-k of the fused scores
	k := max(1, n+r.Intn(4))
	if n >= 2 && r.Chance(0.3) {
		k = r.Range(1, n-1)
	}
	ef := vkit.Pick(r, []int{0, 64, 200})
	qv := s.vec()
	filter, explicit := "", q
	if viaContains {
		filter, explicit = fmt.Sprintf("CONTAINS(%s, '%s')", cands[0].field, q), ""
	}

	cs.Op("VSearchGraph(%s, q=%v, k=%d, filter=%q, text=%q, ef=%d, alpha=%v) and the pure vector search of the same q,k,ef; text fields now %v", c09Index, qv, k, filter, explicit, ef, alpha, all)
	pure, err := s.x.E.VSearchGraph(c09Index, qv, k, "", "", ef, alpha, nil, false, nil)
	if err != nil {
		cs.Fail("pure vector VSearchGraph failed: %v", err)
	}
	simV := map[string]float64{}
	for i, p := range pure {
		if _, dup := simV[p.ID]; dup {
			cs.Fail("pure vector search returns %s twice: %v", p.ID, c09IDs(pure))
		}
		if _, ok := v.live[p.ID]; !ok {
			cs.Fail("pure vector search returns %s which is not live: %v", p.ID, c09IDs(pure))
		}
		simV[p.ID] = p.Score
		if i > 0 && !(p.Score <= pure[i-1].Score) {
			cs.Fail("pure vector search is not ordered by score: %v", c09IDs(pure))
		}
		if !s.compressed {
			if want := s.refSim(qv, v.vecs[p.ID]); math.Abs(p.Score-want) > 1e-6 {
				cs.Fail("vector similarity of %s for q=%v is %.9g, from-scratch 1/(1+distance) = %.9g (stored vector %v, metric %s)", p.ID, qv, p.Score, want, v.vecs[p.ID], s.cfg.Metric)
			}
			s.ctx.Count("hybrid.sim_recomputed", 1)
		}
	}
	if len(pure) != min(n, k) {
		s.ctx.Count("hybrid.vector_side_incomplete", 1) // recall of the vector side is C06/C07's claim
		s.ctx.Sample("vector_side_incomplete", 3, map[string]any{"live": len(v.live), "k": k, "ef": ef, "returned": c09IDs(pure), "history": strings.Join(s.kinds, " "), "metric": string(s.cfg.Metric), "compressed": s.compressed})
	}

	earlier := append([]string(nil), s.fieldLog...)
	if !viaContains {
		s.noteFields(all)
	}
	res, err := s.x.E.VSearchGraph(c09Index, qv, k, filter, explicit, ef, alpha, nil, false, nil)
	if err != nil {
		cs.Fail("hybrid VSearchGraph failed: %v", err)
	}
	fail := func(c *c09Corpus, bm, want map[string]float64, msg string) {
		if c != nil {
			cs.Attach("corpus", c09CorpusDump(v, c))
			cs.Attach("bm25_reference", c09FmtScores(bm))
			cs.Attach("expected_fused", c09FmtScores(want))
		}
		cs.Attach("vector_similarity", c09FmtScores(simV))
		cs.Attach("observed", c09IDs(res))
		cs.Attach("text_fields_now", all)
		cs.Attach("text_field_sets_at_earlier_explicit_queries_on_this_index", earlier)
		field := "<none: no live document holds text>"
		if c != nil {
			field = c.field
		}
		cs.Fail("hybrid alpha=%v text=%q field=%s (contains-syntax=%v; text fields now %v, at earlier explicit-text queries %v) after history [%s]: %s", alpha, q, field, viaContains, all, earlier, strings.Join(s.kinds, " "), msg)
	}
	// results common to every reading: live, no duplicates, non-increasing
	seen := map[string]bool{}
	for i, h := range res {
		if seen[h.ID] {
			fail(nil, nil, nil, fmt.Sprintf("document %s is returned twice", h.ID))
		}
		seen[h.ID] = true
		if _, ok := v.live[h.ID]; !ok {
			fail(nil, nil, nil, fmt.Sprintf("result %s is not a live document", h.ID))
		}
		if i > 0 && !(h.Score <= res[i-1].Score) {
			fail(nil, nil, nil, fmt.Sprintf("results are not in non-increasing score order at position %d", i))
		}
	}

	if len(cands) == 0 {
		// No live document holds text: every text score is zero, the ranking is the vector ranking.
		if len(res) != len(pure) {
			fail(nil, nil, nil, fmt.Sprintf("no text field exists, yet the hybrid search returns %d documents and the pure vector search %d", len(res), len(pure)))
		}
		last := math.Inf(1)
		for _, h := range res {
			sv, ok := simV[h.ID]
			if !ok {
				fail(nil, nil, nil, fmt.Sprintf("no text field exists, yet %s is returned which the pure vector search does not return", h.ID))
			}
			if sv > last {
				fail(nil, nil, nil, fmt.Sprintf("no text field exists: order differs from the pure vector order at %s (similarity %v after %v)", h.ID, sv, last))
			}
			last = sv
		}
		s.ctx.Eval(1)
		s.ctx.Count("hybrid.queries", 1)
		s.ctx.Count("hybrid.queries_no_text_field", 1)
		if n == 0 {
			s.ctx.Count("hybrid.queries_on_empty_index", 1)
		}
		if len(res) < k {
			s.vsearchIDs(v, qv, k, filter, explicit, ef, alpha, res)
		}
		return
	}

	// compare evaluates the observed result against the fusion over one candidate field
	compare := func(c *c09Corpus) (bm, want map[string]float64, problem string) {
		bm = c.score(qt)
		maxBM := 0.0
		for _, w := range bm {
			if w > maxBM {
				maxBM = w
			}
		}
		want = map[string]float64{}
		for id, sv := range simV {
			want[id] += alpha * sv
		}
		for id, w := range bm {
			want[id] += (1 - alpha) * (w / maxBM)
		}
		for _, h := range res {
			w, ok := want[h.ID]
			if !ok {
				return bm, want, fmt.Sprintf("result %s (score %v) is neither a vector result nor a document containing a query term", h.ID, h.Score)
			}
			if math.Abs(h.Score-w) > 1e-6 {
				return bm, want, fmt.Sprintf("score of %s is %.12g, expected alpha*sim + (1-alpha)*bm25/max = %v*%.12g + %v*%.12g/%.12g = %.12g", h.ID, h.Score, alpha, simV[h.ID], 1-alpha, bm[h.ID], maxBM, w)
			}
		}
		if len(want) <= k {
			for _, id := range vexec.SortedKeys(want) {
				if !seen[id] {
					return bm, want, fmt.Sprintf("document %s has fused score %.9g and k=%d >= %d candidates, but it is not returned", id, want[id], k, len(want))
				}
			}
		} else {
			if len(res) != k {
				return bm, want, fmt.Sprintf("%d results although %d documents have a fused score and k=%d", len(res), len(want), k)
			}
			lowest := res[len(res)-1].Score
			for _, id := range vexec.SortedKeys(want) {
				if !seen[id] && want[id] > lowest+1e-6 {
					return bm, want, fmt.Sprintf("document %s (fused score %.9g) is cut off by k=%d although the returned %s scores only %.9g", id, want[id], k, res[len(res)-1].ID, lowest)
				}
			}
		}
		if alpha == 1 {
			// order equals the pure vector order (ties free); documents without a vector score come last
			last := math.Inf(1)
			tail := false
			for _, h := range res {
				sv, inV := simV[h.ID]
				if !inV {
					tail = true
					continue
				}
				if tail {
					return bm, want, fmt.Sprintf("alpha=1: %s (vector similarity %v) is ranked after a document that has no vector score", h.ID, sv)
				}
				if sv > last {
					return bm, want, fmt.Sprintf("alpha=1: order differs from the pure vector order at %s (similarity %v after %v)", h.ID, sv, last)
				}
				last = sv
			}
		}
		if alpha == 0 {
			// order equals the pure text order among documents with non-zero text score (ties free)
			last := math.Inf(1)
			tail := false
			for _, h := range res {
				w, inT := bm[h.ID]
				if !inT || w == 0 {
					tail = true
					continue
				}
				if tail {
					return bm, want, fmt.Sprintf("alpha=0: %s (BM25 %v) is ranked after a document with zero text score", h.ID, w)
				}
				if w > last && !c09RelClose(w, last, 1e-9) {
					return bm, want, fmt.Sprintf("alpha=0: order differs from the pure text order at %s (BM25 %v after %v)", h.ID, w, last)
				}
				last = w
			}
		}
		return bm, want, ""
	}
	var used *c09Corpus
	var usedBM map[string]float64
	for _, c := range cands {
		bm, _, problem := compare(c)
		if problem == "" {
			used, usedBM = c, bm
			break
		}
	}
	if used == nil {
		bm, want, problem := compare(cands[0])
		if len(cands) > 1 {
			var names []string
			for _, c := range cands {
				names = append(names, c.field)
			}
			problem = fmt.Sprintf("the result is the fusion over none of the candidate fields %v; against %s: %s", names, cands[0].field, problem)
		}
		fail(cands[0], bm, want, problem)
	}
	if alpha == 1 {
		s.ctx.Count("hybrid.alpha1", 1)
	}
	if alpha == 0 {
		s.ctx.Count("hybrid.alpha0", 1)
	}
	s.ctx.Eval(1)
	s.ctx.Count("hybrid.queries", 1)
	if viaContains {
		s.ctx.Count("hybrid.via_contains_filter", 1)
	} else {
		if used.field != "content" {
			s.ctx.Count("hybrid.explicit_field_other_than_content", 1)
		}
		if len(cands) > 1 {
			s.ctx.Count("hybrid.explicit_field_one_of_several_accepted", 1)
		}
	}
	if len(usedBM) >= 2 {
		s.ctx.Count("hybrid.queries_with_2plus_text_matches", 1)
	}
	if s.compressed {
		s.ctx.Count("hybrid.queries_after_compress", 1)
	}
	if k < n {
		s.ctx.Count("hybrid.queries_k_below_n", 1)
	}
	if len(cands) == 1 && len(res) < k {
		// (len(res) == k: a tie at the cut may be broken differently by two calls)
		// with several acceptable fields the engine's choice may differ from call to call
		// (it falls back to "the first field" of a Go map), so two calls are not comparable
		s.vsearchIDs(v, qv, k, filter, explicit, ef, alpha, res)
	}
	s.ctx.Sample("hybrid_query", 2, map[string]any{"alpha": alpha, "text": q, "field": used.field, "k": k, "metric": string(s.cfg.Metric), "observed": c09IDs(res), "bm25": c09FmtScores(usedBM), "sim": c09FmtScores(simV)})
}

// vsearchIDs checks the id-only read-out: Engine.VSearch with the same arguments returns the
// same documents as VSearchGraph, in an order that is non-increasing in the scores
// VSearchGraph reported (ties free).
func (s *c09State) vsearchIDs(v *c09View, qv []float32, k int, filter, explicit string, ef int, alpha float64, res []engine.GraphSearchResult) {
	if !s.cs.R.Chance(0.5) {
		return
	}
	s.cs.Op("VSearch(%s, same arguments)  [id-only read-out]", c09Index)
	ids, err := s.x.E.VSearch(c09Index, qv, k, filter, explicit, ef, alpha, nil)
	if err != nil {
		s.cs.Fail("VSearch failed where VSearchGraph succeeded: %v", err)
	}
	score := map[string]float64{}
	for _, h := range res {
		score[h.ID] = h.Score
	}
	last := math.Inf(1)
	seen := map[string]bool{}
	for _, id := range ids {
		sc, ok := score[id]
		if !ok || seen[id] {
			s.cs.Fail("VSearch returns %v, VSearchGraph with the same arguments %v: %s is extra or repeated", ids, c09IDs(res), id)
		}
		seen[id] = true
		if sc > last+1e-9 {
			s.cs.Fail("VSearch order %v is not non-increasing in the scores of VSearchGraph %v (at %s)", ids, c09IDs(res), id)
		}
		last = sc
	}
	if len(ids) != len(res) {
		s.cs.Fail("VSearch returns %d ids %v, VSearchGraph with the same arguments %d: %v", len(ids), ids, len(res), c09IDs(res))
	}
	s.ctx.Count("hybrid.vsearch_id_readouts", 1)
}

// textOnlyEngine checks the text-only case of the engine search (no query vector): the first
// k documents of the BM25 ranking with their BM25 scores.
func (s *c09State) textOnlyEngine(v *c09View) {
	cs, r := s.cs, s.cs.R
	cands, all, lenient := v.explicitFields()
	if lenient {
		s.ctx.Count("textonly.skipped", 1)
		return
	}
	q := s.query(false)
	qt := s.lang.an.Analyze(q)
	if !c09Distinct(qt) {
		return
	}
	k := r.Range(1, len(v.live)+2)
	var qv []float32
	if r.Chance(0.5) {
		qv = make([]float32, s.dim)
	}
	alpha := vkit.Pick(r, []float64{0, 0.5, 1})
	cs.Op("VSearchGraph(%s, q=%v, k=%d, text=%q, alpha=%v)  [text-only]; text fields now %v", c09Index, qv, k, q, alpha, all)
	earlier := append([]string(nil), s.fieldLog...)
	s.noteFields(all)
	res, err := s.x.E.VSearchGraph(c09Index, qv, k, "", q, 0, alpha, nil, false, nil)
	if len(cands) == 0 {
		// No live document holds text: "full-text search over an indexed field" has no field to
		// run over. The query is issued (it is part of the history: a read must not change what
		// later searches return) but its own result is outside the statement.
		s.ctx.Count("textonly.issued_without_any_text_field", 1)
		if err != nil {
			s.ctx.Count("textonly.issued_without_any_text_field.error", 1)
		}
		return
	}
	if err != nil {
		cs.Fail("text-only VSearchGraph failed: %v", err)
	}
	compare := func(c *c09Corpus) (bm map[string]float64, problem string) {
		bm = c.score(qt)
		wantN := min(k, len(bm))
		if len(res) != wantN {
			return bm, fmt.Sprintf("%d results, expected min(k, matching documents) = %d", len(res), wantN)
		}
		seen := map[string]bool{}
		minRet := math.Inf(1)
		for i, h := range res {
			if seen[h.ID] {
				return bm, fmt.Sprintf("document %s is returned twice", h.ID)
			}
			seen[h.ID] = true
			w, ok := bm[h.ID]
			if !ok {
				return bm, fmt.Sprintf("result %s contains no analysed query term (or is not live)", h.ID)
			}
			if !c09RelClose(h.Score, w, 1e-9) {
				return bm, fmt.Sprintf("score of %s is %.15g, reference BM25 %.15g", h.ID, h.Score, w)
			}
			if i > 0 && !(h.Score <= res[i-1].Score) {
				return bm, fmt.Sprintf("results are not in non-increasing score order at position %d", i)
			}
			if w < minRet {
				minRet = w
			}
		}
		for _, id := range vexec.SortedKeys(bm) {
			if w := bm[id]; !seen[id] && w > minRet && !c09RelClose(w, minRet, 1e-9) {
				return bm, fmt.Sprintf("document %s (BM25 %.12g) is left out although a returned document scores only %.12g", id, w, minRet)
			}
		}
		return bm, ""
	}
	var usedBM map[string]float64
	ok := false
	for _, c := range cands {
		if bm, problem := compare(c); problem == "" {
			usedBM, ok = bm, true
			break
		}
	}
	if !ok {
		bm, problem := compare(cands[0])
		cs.Attach("corpus", c09CorpusDump(v, cands[0]))
		cs.Attach("bm25_reference", c09FmtScores(bm))
		cs.Attach("observed", c09IDs(res))
		cs.Attach("text_fields_now", all)
		cs.Attach("text_field_sets_at_earlier_explicit_queries_on_this_index", earlier)
		var names []string
		for _, c := range cands {
			names = append(names, c.field)
		}
		cs.Fail("text-only engine search text=%q k=%d (candidate fields %v; text fields now %v, at earlier explicit-text queries %v) after history [%s]: against %s: %s", q, k, names, all, earlier, strings.Join(s.kinds, " "), cands[0].field, problem)
	}
	s.ctx.Eval(1)
	s.ctx.Count("textonly.queries", 1)
	if k < len(usedBM) {
		s.ctx.Count("textonly.truncated_by_k", 1)
	}
}

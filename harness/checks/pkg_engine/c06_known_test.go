package engine

import (
	"reflect"
	"sync"
	"time"
	"unsafe"
)

// VerifC06DetectUnderIndexLock (white-box helper of the C06 probe D-C06-1) takes the write lock
// of one index - the lock DB.AddMetadata / removeOldIndexEntries hold while they add and drop
// entries of that index's text-field map - and reports whether the text-field auto-detection
// of an explicit text query (Engine.detectTextFieldForIndex, which ranges over that map) still
// runs to completion meanwhile. No map is written here, so nothing can crash.
func VerifC06DetectUnderIndexLock(e *Engine, index string, wait time.Duration) (ran bool, problem string) {
	f := reflect.ValueOf(e.DB).Elem().FieldByName("indexLocks")
	if !f.IsValid() {
		return false, "core.DB has no field indexLocks any more"
	}
	locks, ok := reflect.NewAt(f.Type(), unsafe.Pointer(f.UnsafeAddr())).Elem().Interface().(map[string]*sync.RWMutex)
	if !ok || locks[index] == nil {
		return false, "core.DB.indexLocks is not a map[string]*sync.RWMutex holding " + index
	}
	mu := locks[index]
	mu.Lock()
	done := make(chan struct{})
	go func() {
		defer close(done)
		e.detectTextFieldForIndex(index)
	}()
	select {
	case <-done:
		ran = true
	case <-time.After(wait):
	}
	mu.Unlock()
	<-done
	return ran, ""
}

package engine_test

import (
	"fmt"
	"math"
	"runtime"
	"sort"
	"strings"
	"sync"
	"sync/atomic"
	"testing"

	"github.com/sanonone/kektordb/internal/zzverif/vexec"
	"github.com/sanonone/kektordb/internal/zzverif/vkit"
	"github.com/sanonone/kektordb/pkg/core/distance"
	"github.com/sanonone/kektordb/pkg/core/hnsw"
	"github.com/sanonone/kektordb/pkg/core/types"
	"github.com/sanonone/kektordb/pkg/engine"
	"github.com/sanonone/kektordb/pkg/verifhook"
)

// c09cCompare checks every text query against the from-scratch BM25 reference over the
// documents VGet returns now.
func c09cCompare(e *engine.Engine, lang c09Lang, ids []string, queries []string, where string) (string, int) {
	live := map[string]map[string]any{}
	for _, id := range ids {
		if d, err := e.VGet(c09Index, id); err == nil {
			live[id] = d.Metadata
		}
	}
	idx, ok := e.DB.GetVectorIndex(c09Index)
	if !ok {
		return where + ": index is gone", 0
	}
	h := idx.(*hnsw.Index)
	c := c09BuildCorpus(lang.an, "content", live)
	n := 0
	for _, q := range queries {
		qt := lang.an.Analyze(q)
		if !c09Distinct(qt) || len(qt) == 0 {
			continue
		}
		res, err := e.DB.FindIDsByTextSearch(c09Index, "content", q)
		if err != nil {
			return fmt.Sprintf("%s: FindIDsByTextSearch(content,%q): %v", where, q, err), n
		}
		want := c.score(qt)
		got := map[string]float64{}
		prev := math.Inf(1)
		for i, rr := range res {
			ext, ok := h.GetExternalID(rr.DocID)
			if !ok {
				return fmt.Sprintf("%s: FindIDsByTextSearch(content,%q): result %d is internal node %d, which has no external id", where, q, i, rr.DocID), n
			}
			if _, dup := got[ext]; dup {
				return fmt.Sprintf("%s: FindIDsByTextSearch(content,%q): document %s is returned twice", where, q, ext), n
			}
			if _, isLive := live[ext]; !isLive {
				return fmt.Sprintf("%s: FindIDsByTextSearch(content,%q): result %d (%s, score %v) is not a live document", where, q, i, ext, rr.Score), n
			}
			if !(rr.Score <= prev) {
				return fmt.Sprintf("%s: FindIDsByTextSearch(content,%q): result %d has score %v after %v", where, q, i, rr.Score, prev), n
			}
			prev = rr.Score
			got[ext] = rr.Score
		}
		for id, w := range want {
			g, ok := got[id]
			if !ok {
				return fmt.Sprintf("%s: FindIDsByTextSearch(content,%q) [analysed %v]: document %s (content=%q) contains a query term but is not returned", where, q, qt, id, live[id]["content"]), n
			}
			if !c09RelClose(g, w, 1e-9) {
				return fmt.Sprintf("%s: FindIDsByTextSearch(content,%q) [analysed %v]: score of %s is %.15g, BM25 over the current corpus gives %.15g (N=%v avgdl=%.6g, content=%q)", where, q, qt, id, g, w, c.n, c.avg, live[id]["content"]), n
			}
		}
		for id := range got {
			if _, ok := want[id]; !ok {
				return fmt.Sprintf("%s: FindIDsByTextSearch(content,%q) [analysed %v]: document %s (content=%v) contains no query term but is returned", where, q, qt, id, live[id]["content"]), n
			}
		}
		n++
	}
	return "", n
}

// C09 (concurrent part) — "document counts and lengths used for scoring always equal those
// of the current corpus after any updates and deletions": the updates and deletions here are
// issued by several clients at the same time (each document has one writer), text searches
// run meanwhile, and once the writers are done every score must be the BM25 score over the
// corpus that is there.
func TestVerifC09Conc(t *testing.T) {
	vkit.Run(t, "C09", func(ctx *vkit.Ctx) {
		langs := c09Langs()
		ctx.Group("conc", ctx.N(128, 2400), func(cs *vkit.Case) {
			defer verifhook.Reset()
			r := cs.R
			lang := langs[cs.Idx%len(langs)]
			procs := vkit.Pick(r, []int{2, 4, 16})
			prev := runtime.GOMAXPROCS(procs)
			defer runtime.GOMAXPROCS(prev)
			dir := cs.SubDir("data")
			e, err := engine.Open(vexec.Options(dir))
			if err != nil {
				cs.Fail("open: %v", err)
			}
			closed := false
			defer func() {
				if !closed {
					e.Close()
				}
			}()
			if err := e.VCreate(c09Index, distance.Euclidean, 8, 200, distance.Float32, lang.name, nil, nil, nil); err != nil {
				cs.Fail("VCreate: %v", err)
			}
			// content words: the vocabulary without its two stop words (a document always has tokens)
			var words []string
			for _, w := range lang.vocab {
				if len(lang.an.Analyze(w)) > 0 {
					words = append(words, w)
				}
			}
			text := func(wr *vkit.Rand) string {
				n := wr.Range(1, 7)
				var sb []string
				for i := 0; i < n; i++ {
					sb = append(sb, vkit.Pick(wr, words))
				}
				if wr.Chance(0.3) {
					sb = append(sb, vkit.Pick(wr, lang.vocab)) // possibly a stop word
				}
				return strings.Join(sb, " ")
			}
			nW := r.Range(2, 5)
			per := r.Range(10, ctx.N(36, 60))
			readers := r.Range(1, 2)
			cs.Op("lang=%s writers=%d ops/writer=%d readers=%d GOMAXPROCS=%d", lang.name, nW, per, readers, procs)
			hits := concYields(r)
			var firstFail atomic.Value
			var writes, searches atomic.Int64
			allIDs := make([][]string, nW)
			var logMu sync.Mutex
			var wg sync.WaitGroup
			start := make(chan struct{})
			done := make(chan struct{})
			for w := 0; w < nW; w++ {
				wr := vkit.NewRand(uint64(r.Intn(1<<30)), uint64(w))
				for j := 0; j < 6; j++ {
					allIDs[w] = append(allIDs[w], fmt.Sprintf("d%d_%d", w, j))
				}
				for j := 0; j < 4; j++ {
					allIDs[w] = append(allIDs[w], fmt.Sprintf("d%d_b%d", w, j))
				}
				wg.Add(1)
				go func(w int, wr *vkit.Rand) {
					defer wg.Done()
					<-start
					live := map[string]bool{}
					vec := func() []float32 { return []float32{wr.F32(), wr.F32(), wr.F32()} }
					for i := 0; i < per && firstFail.Load() == nil; i++ {
						ctx.Touch()
						id := allIDs[w][wr.Intn(6)]
						var err error
						what := ""
						switch p := wr.Intn(100); {
						case !live[id] && p < 70:
							what = "VAdd " + id
							err = e.VAdd(c09Index, id, vec(), map[string]any{"content": text(wr), "w": float64(w)})
							live[id] = true
						case !live[id]:
							var items []types.BatchObject
							for j := 0; j < 4; j++ {
								b := allIDs[w][6+j]
								if !live[b] {
									items = append(items, types.BatchObject{Id: b, Vector: vec(), Metadata: map[string]any{"content": text(wr)}})
									live[b] = true
								}
							}
							if len(items) == 0 {
								continue
							}
							what = fmt.Sprintf("VAddBatch %d docs", len(items))
							err = e.VAddBatch(c09Index, items)
						case p < 55: // new text, usually of another length
							what = "VSetMetadata content " + id
							err = e.VSetMetadata(c09Index, id, map[string]any{"content": text(wr)})
						case p < 65: // the field stops being text, or becomes text again
							what = "VSetMetadata non-string " + id
							var nonText any = float64(wr.Intn(9))
							if wr.Chance(0.4) {
								nonText = nil // JSON null
							}
							err = e.VSetMetadata(c09Index, id, map[string]any{"content": nonText})
						case p < 75: // an update that does not touch the text
							what = "VSetMetadata other " + id
							err = e.VSetMetadata(c09Index, id, map[string]any{"n": float64(i)})
						default:
							what = "VDelete " + id
							err = e.VDelete(c09Index, id)
							delete(live, id)
						}
						writes.Add(1)
						logMu.Lock()
						cs.Op("w%d %s -> %v", w, what, err)
						logMu.Unlock()
						if err != nil {
							firstFail.CompareAndSwap(nil, fmt.Sprintf("w%d: %s failed: %v", w, what, err))
							return
						}
					}
				}(w, wr)
			}
			var rwg sync.WaitGroup
			for k := 0; k < readers; k++ {
				rr := vkit.NewRand(uint64(r.Intn(1<<30)), uint64(100+k))
				rwg.Add(1)
				go func(rr *vkit.Rand) {
					defer rwg.Done()
					<-start
					for {
						select {
						case <-done:
							return
						default:
						}
						q := vkit.Pick(rr, words)
						res, err := e.DB.FindIDsByTextSearch(c09Index, "content", q)
						if err == nil {
							seen := map[uint32]bool{}
							prev := math.Inf(1)
							for _, x := range res {
								if seen[x.DocID] {
									firstFail.CompareAndSwap(nil, fmt.Sprintf("text search %q during updates returned internal document %d twice", q, x.DocID))
								}
								seen[x.DocID] = true
								if !(x.Score <= prev) || math.IsNaN(x.Score) || math.IsInf(x.Score, 0) {
									firstFail.CompareAndSwap(nil, fmt.Sprintf("text search %q during updates: score %v after %v", q, x.Score, prev))
								}
								prev = x.Score
							}
						}
						e.VSearch(c09Index, []float32{rr.F32(), rr.F32(), rr.F32()}, 5, "", q, 0, 0.5, nil)
						searches.Add(1)
						ctx.Touch()
						runtime.Gosched()
					}
				}(rr)
			}
			close(start)
			wg.Wait()
			close(done)
			rwg.Wait()
			verifhook.SetGlobal(nil)
			ctx.Count("conc.writes", writes.Load())
			ctx.Count("conc.searches_during_writes", searches.Load())
			ctx.Count("conc.hook_hits", int64(hits.Load()))
			if v := firstFail.Load(); v != nil {
				cs.Fail("%s", v.(string))
			}
			var ids []string
			for _, l := range allIDs {
				ids = append(ids, l...)
			}
			sort.Strings(ids)
			queries := append([]string{}, lang.vocab...)
			for i := 0; i < 8; i++ {
				queries = append(queries, vkit.Pick(r, words)+" "+vkit.Pick(r, words)+" "+vkit.Pick(r, lang.vocab))
			}
			queries = append(queries, lang.unknown)
			msg, n := c09cCompare(e, lang, ids, queries, "after the concurrent updates")
			if msg != "" {
				cs.Fail("%s", msg)
			}
			ctx.Count("conc.queries_compared", int64(n))
			how := cs.Idx / len(langs) % 3
			switch how {
			case 1:
				e.SaveSnapshot()
			case 2:
				e.RewriteAOF()
			}
			if err := e.Close(); err != nil {
				cs.Fail("Close: %v", err)
			}
			closed = true
			e2, err := engine.Open(vexec.Options(dir))
			if err != nil {
				cs.Fail("reopen: %v", err)
			}
			e, closed = e2, false
			msg, n = c09cCompare(e, lang, ids, queries, "after the concurrent updates and a restart")
			if msg != "" {
				cs.Fail("%s", msg)
			}
			ctx.Count("conc.queries_compared", int64(n))
			ctx.Eval(1)
			ctx.Distinct(fmt.Sprintf("conc/%s/w%d/r%d/p%d/how%d/%d", lang.name, nW, readers, procs, how, writes.Load()/10))
			ctx.Sample("conc", 2, map[string]any{"lang": lang.name, "writers": nW, "ops_per_writer": per, "searches_during_writes": searches.Load()})
		})
	})
}

package engine_test

import (
	"fmt"
	"strings"
	"testing"
	"time"

	"github.com/sanonone/kektordb/internal/zzverif/vexec"
	"github.com/sanonone/kektordb/internal/zzverif/vkit"
	"github.com/sanonone/kektordb/pkg/core/distance"
	"github.com/sanonone/kektordb/pkg/core/hnsw"
	"github.com/sanonone/kektordb/pkg/core/types"
)

// restartAndCompare: full read-out before Close must equal the read-out after Open, the
// reopened engine must match the reference model, and it must be usable.
func c01Restart(ctx *vkit.Ctx, cs *vkit.Case, x *vexec.Exec, where string) {
	x.Settle()
	if msg := x.CheckFull(); msg != "" { // binds clock-chosen values before the restart
		cs.Fail("%s: state before restart already disagrees with the model: %s", where, msg)
	}
	u := x.M.Universe()
	before := vexec.Observe(x.E, u)
	probes := c01SearchProbe(ctx, cs, x, where, nil)
	x.Restart()
	after := vexec.Observe(x.E, u)
	if d := vexec.Diff(before, after); len(d) > 0 {
		cs.Attach("diff", d)
		cs.Fail("%s: %d observable(s) changed across Close/Open, first: %s", where, len(d), d[0])
	}
	if msg := x.CheckFull(); msg != "" {
		cs.Fail("%s: after restart: %s", where, msg)
	}
	ctx.Count("restarts", 1)
	ctx.Count("observables_compared", int64(len(before.Vals)+len(before.Vecs)))
	// replay may itself write (cascade repairs, re-journaled quantizer range): a second
	// restart right away must not change anything either
	if cs.R.Chance(0.2) {
		x.Restart()
		again := vexec.Observe(x.E, u)
		if d := vexec.Diff(before, again); len(d) > 0 {
			cs.Attach("diff", d)
			cs.Fail("%s: %d observable(s) changed across a second immediate Close/Open, first: %s", where, len(d), d[0])
		}
		ctx.Count("restarts.immediate_second", 1)
	}
	c01SearchProbe(ctx, cs, x, where, probes)
	// usability: one add / read / delete per index
	for _, name := range vexec.SortedKeys(x.M.Idx) {
		mi := x.M.Idx[name]
		dim := mi.Dim
		if len(mi.Recs) == 0 || dim == 0 {
			continue
		}
		v := make([]float32, dim)
		for i := range v {
			v[i] = 0.25 * float32(i+1)
		}
		id := fmt.Sprintf("probe%d", x.Restarts)
		x.VAdd(name, id, v, map[string]any{"probe": true})
		if msg := x.CheckRecord(name, id); msg != "" {
			cs.Fail("%s: usability after restart: %s", where, msg)
		}
		// a link from the probe to a live node and back out of the graph again
		if tgt := vexec.SortedKeys(mi.Recs)[0]; tgt != id {
			x.VLink(name, id, tgt, "probe_rel", "", 1, nil)
			if l, _ := x.E.VGetLinks(name, id, "probe_rel"); len(l) != 1 || l[0] != tgt {
				cs.Fail("%s: usability after restart: VGetLinks(%s,%s,probe_rel)=%v want [%s]", where, name, id, l, tgt)
			}
			x.VUnlink(name, id, tgt, "probe_rel", "", true)
		}
		x.VDelete(name, id)
		if msg := x.CheckRecord(name, id); msg != "" {
			cs.Fail("%s: usability after restart: %s", where, msg)
		}
	}
}

// c01SearchProbe: the search structure restored by Open (entry point, levels, neighbour
// lists, int8 norms) is observable only through a search. For every index a search for the
// vector of a live id, with k above the number of live vectors, must return no error, only
// live ids, no id twice, and something when the index is not empty. Called before the restart
// (prev == nil) it records query and answer; called after it with those records it also
// demands, while the index holds at most 2*M nodes (tombstones included: the regime in which
// C07 states that search is exact and does not degrade over a restart), that an answer that
// listed EVERY live id before Close lists every live id again. Outside that regime what an
// approximate search finds may legitimately differ between the graph that was built and the
// graph that was restored.
type c01Probe struct {
	q        []float32
	complete bool
}

func c01SearchProbe(ctx *vkit.Ctx, cs *vkit.Case, x *vexec.Exec, where string, prev map[string]c01Probe) map[string]c01Probe {
	out := map[string]c01Probe{}
	when := "before the restart"
	if prev != nil {
		when = "on the reopened index"
	}
	for _, name := range vexec.SortedKeys(x.M.Idx) {
		mi := x.M.Idx[name]
		live := vexec.SortedKeys(mi.Recs)
		if len(live) == 0 || mi.Dim == 0 {
			continue
		}
		q := vexec.CopyVec(mi.Recs[vkit.Pick(cs.R, live)].Vec)
		if p, ok := prev[name]; ok {
			q = p.q
		}
		k := len(live) + 2
		cs.Op("VSearch(%s,%v,k=%d) [probe %s]", name, q, k, when)
		got, err := x.E.VSearch(name, q, k, "", "", 400, 1.0, nil)
		if err != nil {
			cs.Fail("%s: VSearch %s (%s) failed: %v", where, when, name, err)
		}
		seen := map[string]bool{}
		for _, id := range got {
			if mi.Recs[id] == nil {
				cs.Fail("%s: VSearch %s (%s) returned %q, which is not a live id (live %v)", where, when, name, id, live)
			}
			if seen[id] {
				cs.Fail("%s: VSearch %s (%s) returned %q twice", where, when, name, id)
			}
			seen[id] = true
		}
		if len(got) == 0 {
			cs.Fail("%s: VSearch %s (%s, %d live vectors) returned nothing", where, when, name, len(live))
		}
		out[name] = c01Probe{q: q, complete: len(got) == len(live)}
		if prev == nil {
			continue
		}
		ctx.Count("search_probes", 1)
		if p, ok := prev[name]; ok && p.complete {
			if nodes := x.NodeSlots(name); nodes > 0 && nodes <= 2*mi.Cfg.M {
				ctx.Count("search_probes.complete_before_small_regime", 1)
				if len(got) != len(live) {
					cs.Fail("%s: VSearch(k=%d) listed all %d live ids of %s before Close and lists only %v after Open (live %v; %d node slots <= 2*M=%d)", where, k, len(live), name, got, live, nodes, 2*mi.Cfg.M)
				}
			}
		}
	}
	return out
}

type c01Tmpl struct {
	name string
	f32  bool // needs a float32 index (compress)
	run  func(ctx *vkit.Ctx, cs *vkit.Case, x *vexec.Exec, g *vexec.Gen, cfg vexec.IndexCfg)
}

func vec(g *vexec.Gen, vals ...float32) []float32 {
	v := make([]float32, g.Dim)
	for i := range v {
		if i < len(vals) {
			v[i] = vals[i]
		} else {
			v[i] = 0.125 * float32(i+1)
		}
	}
	return v
}

func vecDim(dim int, vals ...float32) []float32 {
	v := make([]float32, dim)
	for i := range v {
		if i < len(vals) {
			v[i] = vals[i]
		} else {
			v[i] = 0.125 * float32(i+1)
		}
	}
	return v
}

var c01Templates = []c01Tmpl{
	{"slot_reuse_after_snapshot", false, func(ctx *vkit.Ctx, cs *vkit.Case, x *vexec.Exec, g *vexec.Gen, cfg vexec.IndexCfg) {
		// the snapshot's slot table still maps the deleted id when its arena slot is reused
		x.VCreate(cfg)
		for i := 0; i < 5; i++ {
			x.VAdd(cfg.Name, fmt.Sprintf("n%d", i), g.Vec(), g.Meta())
		}
		x.SaveSnapshot()
		x.VDelete(cfg.Name, "n1")
		x.VDelete(cfg.Name, "n3")
		x.Maintenance(cfg.Name, "vacuum")
		x.VAdd(cfg.Name, "fresh", g.Vec(), map[string]any{"cat": "alpha"})
		x.VAdd(cfg.Name, "n3", g.Vec(), nil)
		c01Restart(ctx, cs, x, "snapshot, delete, vacuum, add (slot reuse)")
		x.VAdd(cfg.Name, "fresh2", g.Vec(), nil)
		x.RewriteAOF()
		c01Restart(ctx, cs, x, "slot reuse, compact")
	}},
	{"recreate_other_dimension", false, func(ctx *vkit.Ctx, cs *vkit.Case, x *vexec.Exec, g *vexec.Gen, cfg vexec.IndexCfg) {
		x.VCreate(cfg)
		for i := 0; i < 4; i++ {
			x.VAdd(cfg.Name, fmt.Sprintf("n%d", i), g.Vec(), g.Meta())
		}
		if cs.R.Chance(0.5) {
			x.SaveSnapshot()
		}
		x.VDeleteIndex(cfg.Name)
		x.VCreate(cfg)
		d2 := g.Dim + cs.R.Range(1, 5)
		x.VAdd(cfg.Name, "n0", vecDim(d2, 1, 0), map[string]any{"cat": "beta"})
		x.VAdd(cfg.Name, "w", vecDim(d2, 0, 1), nil)
		x.VAddBatch(cfg.Name, []types.BatchObject{{Id: "b0", Vector: vecDim(d2, 0.5, -0.5)}, {Id: "b1", Vector: vecDim(d2, -1, -1), Metadata: map[string]any{"num": 3.0}}})
		c01Restart(ctx, cs, x, "drop, re-create with another dimension")
		x.SaveSnapshot()
		x.VAdd(cfg.Name, "z", vecDim(d2, 2, 2), nil)
		c01Restart(ctx, cs, x, "other dimension, snapshot, add")
	}},
	{"config_value_domain", false, func(ctx *vkit.Ctx, cs *vkit.Case, x *vexec.Exec, g *vexec.Gen, cfg vexec.IndexCfg) {
		// values a journal record, the snapshot or the compaction may silently drop: a memory
		// configuration that is switched off but filled in, an all-zero maintenance
		// configuration, cleared auto-link rules
		cfg.Mem = &hnsw.MemoryConfig{Enabled: false, DecayModel: hnsw.DecayLinear, DecayHalfLife: hnsw.Duration(time.Hour)}
		cfg.AutoLinks = []hnsw.AutoLinkRule{{MetadataField: "cat", RelationType: "in_cat"}}
		x.VCreate(cfg)
		x.VAdd(cfg.Name, "a", vec(g, 1, 0), map[string]any{"cat": "alpha"})
		how := cs.R.Intn(3)
		if how == 0 {
			x.SaveSnapshot()
		}
		x.VUpdateAutoLinks(cfg.Name, nil)
		x.VUpdateIndexConfig(cfg.Name, hnsw.AutoMaintenanceConfig{})
		if how == 1 {
			x.RewriteAOF()
		}
		x.VAdd(cfg.Name, "b", vec(g, 0, 1), map[string]any{"cat": "beta"})
		c01Restart(ctx, cs, x, "cleared auto-link rules, zero maintenance config, disabled memory config")
		x.RewriteAOF()
		c01Restart(ctx, cs, x, "the same after compaction")
	}},
	{"write_after_snapshot", false, func(ctx *vkit.Ctx, cs *vkit.Case, x *vexec.Exec, g *vexec.Gen, cfg vexec.IndexCfg) {
		x.VCreate(cfg)
		x.VAdd(cfg.Name, "a", vec(g, 1, 0), map[string]any{"cat": "alpha", "num": 1.0})
		x.VAdd(cfg.Name, "b", vec(g, 0, 1), nil)
		x.KVSet("k0", []byte("v0"))
		x.SaveSnapshot()
		x.VAdd(cfg.Name, "c", vec(g, 0.5, 0.5), map[string]any{"tags": []any{"red", "green"}})
		x.VDelete(cfg.Name, "a")
		x.VSetMetadata(cfg.Name, "b", map[string]any{"flag": true})
		x.KVSet("k1", []byte("v1"))
		x.KVDelete("k0")
		c01Restart(ctx, cs, x, "write after snapshot")
		x.VAdd(cfg.Name, "a", vec(g, -1, 0), map[string]any{"cat": "beta"})
		c01Restart(ctx, cs, x, "second restart")
	}},
	{"delete_then_rewrite", false, func(ctx *vkit.Ctx, cs *vkit.Case, x *vexec.Exec, g *vexec.Gen, cfg vexec.IndexCfg) {
		x.VCreate(cfg)
		for i := 0; i < 5; i++ {
			x.VAdd(cfg.Name, fmt.Sprintf("n%d", i), g.Vec(), g.Meta())
		}
		x.VDelete(cfg.Name, "n1")
		x.VDelete(cfg.Name, "n3")
		x.RewriteAOF()
		c01Restart(ctx, cs, x, "delete, compact")
		x.VAdd(cfg.Name, "n1", g.Vec(), nil)
		x.SaveSnapshot()
		x.VDelete(cfg.Name, "n0")
		x.RewriteAOF()
		c01Restart(ctx, cs, x, "snapshot, delete, compact")
	}},
	{"compress_then_restart", true, func(ctx *vkit.Ctx, cs *vkit.Case, x *vexec.Exec, g *vexec.Gen, cfg vexec.IndexCfg) {
		x.VCreate(cfg)
		for i := 0; i < 6; i++ {
			x.VAdd(cfg.Name, fmt.Sprintf("n%d", i), g.Vec(), g.Meta())
		}
		x.VDelete(cfg.Name, "n2")
		target := distance.PrecisionType(distance.Float16)
		if cfg.Metric == distance.Cosine {
			target = distance.Int8
		}
		x.VCompress(cfg.Name, target)
		x.VAdd(cfg.Name, "after", g.Vec(), map[string]any{"cat": "gamma"})
		c01Restart(ctx, cs, x, "compress")
		x.RewriteAOF()
		x.VAdd(cfg.Name, "after2", g.Vec(), nil)
		c01Restart(ctx, cs, x, "compress, compact")
	}},
	{"nil_arguments", false, func(ctx *vkit.Ctx, cs *vkit.Case, x *vexec.Exec, g *vexec.Gen, cfg vexec.IndexCfg) {
		x.VCreate(cfg)
		x.VAdd(cfg.Name, "plain", vec(g, 1, 1), nil)
		x.VLink(cfg.Name, "plain", "other", "r", "", 1, nil)
		x.KVSet("k0", []byte{})
		x.VAdd(cfg.Name, "later", vec(g, 0, 1), map[string]any{"cat": "delta"})
		x.VLink(cfg.Name, "later", "plain", "r", "ri", 2, map[string]any{"k": "v"})
		c01Restart(ctx, cs, x, "vector without metadata, edge without properties")
	}},
	{"readd_vacuum", false, func(ctx *vkit.Ctx, cs *vkit.Case, x *vexec.Exec, g *vexec.Gen, cfg vexec.IndexCfg) {
		x.VCreate(cfg)
		for i := 0; i < 5; i++ {
			x.VAdd(cfg.Name, fmt.Sprintf("n%d", i), g.Vec(), g.Meta())
		}
		x.VDelete(cfg.Name, "n2")
		x.VAdd(cfg.Name, "n2", g.Vec(), map[string]any{"cat": "readded"})
		x.Maintenance(cfg.Name, "vacuum")
		x.VDelete(cfg.Name, "n4")
		x.SaveSnapshot()
		x.Maintenance(cfg.Name, "vacuum")
		x.VAdd(cfg.Name, "n4", g.Vec(), nil)
		c01Restart(ctx, cs, x, "re-add, vacuum")
		x.Maintenance(cfg.Name, "refine")
		c01Restart(ctx, cs, x, "refine")
	}},
	{"singles_then_batch", false, func(ctx *vkit.Ctx, cs *vkit.Case, x *vexec.Exec, g *vexec.Gen, cfg vexec.IndexCfg) {
		cfg.EfC = 4
		x.VCreate(cfg)
		for i := 0; i < 6; i++ {
			x.VAdd(cfg.Name, fmt.Sprintf("s%d", i), g.Vec(), g.Meta())
		}
		var items []types.BatchObject
		for i := 0; i < 7; i++ {
			items = append(items, types.BatchObject{Id: fmt.Sprintf("b%d", i), Vector: g.Vec(), Metadata: g.Meta()})
		}
		x.VAddBatch(cfg.Name, items)
		x.VDelete(cfg.Name, "b3")
		c01Restart(ctx, cs, x, "singles then batch")
		x.SaveSnapshot()
		x.VAddBatch(cfg.Name, []types.BatchObject{{Id: "b3", Vector: g.Vec()}, {Id: "b9", Vector: g.Vec(), Metadata: map[string]any{"num": 2.5}}})
		c01Restart(ctx, cs, x, "batch after snapshot")
	}},
	{"drop_recreate", false, func(ctx *vkit.Ctx, cs *vkit.Case, x *vexec.Exec, g *vexec.Gen, cfg vexec.IndexCfg) {
		x.VCreate(cfg)
		x.VAdd(cfg.Name, "a", g.Vec(), g.Meta())
		x.VAdd(cfg.Name, "b", g.Vec(), g.Meta())
		if cs.R.Chance(0.5) {
			x.SaveSnapshot()
		}
		x.VDeleteIndex(cfg.Name)
		cfg2 := g.Cfg(cfg.Name)
		x.VCreate(cfg2)
		x.VAdd(cfg.Name, "b", g.Vec(), map[string]any{"cat": "second"})
		c01Restart(ctx, cs, x, "drop and re-create")
		x.VDeleteIndex(cfg.Name)
		c01Restart(ctx, cs, x, "drop")
	}},
	{"import_commit", false, func(ctx *vkit.Ctx, cs *vkit.Case, x *vexec.Exec, g *vexec.Gen, cfg vexec.IndexCfg) {
		x.VCreate(cfg)
		x.VAdd(cfg.Name, "pre", g.Vec(), nil)
		var items []types.BatchObject
		for i := 0; i < 5; i++ {
			items = append(items, types.BatchObject{Id: fmt.Sprintf("i%d", i), Vector: g.Vec(), Metadata: g.Meta()})
		}
		x.VImport(cfg.Name, items)
		x.VImportCommit(cfg.Name)
		x.VAdd(cfg.Name, "post", g.Vec(), map[string]any{"cat": "post"})
		x.VDelete(cfg.Name, "i2")
		c01Restart(ctx, cs, x, "import+commit then writes")
	}},
	{"graph_history", false, func(ctx *vkit.Ctx, cs *vkit.Case, x *vexec.Exec, g *vexec.Gen, cfg vexec.IndexCfg) {
		x.VCreate(cfg)
		ix := cfg.Name
		x.VLink(ix, "a", "b", "r", "", 1, nil)
		x.VLink(ix, "a", "b", "r", "", 2, nil) // supersede by weight
		x.VLink(ix, "a", "c", "r", "ri", 1, map[string]any{"k": "v"})
		x.VUnlink(ix, "a", "b", "r", "", false)
		x.VLink(ix, "a", "b", "r", "", 2, nil) // re-link after soft unlink
		x.VLink(ix, "b", "b", "s", "", 0, nil) // self loop
		x.SaveSnapshot()
		x.VUnlink(ix, "a", "c", "r", "ri", false)
		x.VLink(ix, "c", "a", "s", "", 1, map[string]any{"since": "2020"})
		x.VUnlink(ix, "b", "b", "s", "", true)
		c01Restart(ctx, cs, x, "graph history over snapshot")
		x.RewriteAOF()
		x.VLink(ix, "a", "c", "r", "", 3, nil)
		c01Restart(ctx, cs, x, "graph history over compaction")
		mc := hnsw.DefaultMaintenanceConfig()
		mc.GraphRetention = 1
		x.VUpdateIndexConfig(ix, mc)
		x.GraphVacuumNow()
		c01Restart(ctx, cs, x, "graph vacuum")
	}},
	{"memory_evolve_reinforce", false, func(ctx *vkit.Ctx, cs *vkit.Case, x *vexec.Exec, g *vexec.Gen, cfg vexec.IndexCfg) {
		mem := hnsw.MemoryConfig{Enabled: true, DecayModel: hnsw.DecayExponential, DecayHalfLife: hnsw.Duration(24 * time.Hour),
			Layers: map[string]hnsw.LayerConfig{"episodic": {DecayHalfLife: hnsw.Duration(time.Hour)}, "procedural": {PinnedByDefault: true}}}
		cfg.Mem = &mem
		x.VCreate(cfg)
		ix := cfg.Name
		x.VAdd(ix, "m1", g.Vec(), map[string]any{"cat": "alpha"})
		x.VAdd(ix, "m2", g.Vec(), map[string]any{"memory_layer": "procedural"})
		x.VLink(ix, "src", "m1", "mentions", "", 1, nil)
		x.VReinforce(ix, []string{"m1", "m2", "ghost"})
		x.VReinforce(ix, []string{"m1"})
		x.VEvolve(ix, "m1", g.Vec(), map[string]any{"cat": "beta"}, "update")
		c01Restart(ctx, cs, x, "evolve + reinforce (plain replay)")
		x.SaveSnapshot()
		x.VReinforce(ix, []string{"m2"})
		c01Restart(ctx, cs, x, "reinforce after snapshot")
		x.RewriteAOF()
		c01Restart(ctx, cs, x, "memory index after compaction")
	}},
	{"config_updates", false, func(ctx *vkit.Ctx, cs *vkit.Case, x *vexec.Exec, g *vexec.Gen, cfg vexec.IndexCfg) {
		x.VCreate(cfg)
		ix := cfg.Name
		x.VAdd(ix, "a", g.Vec(), map[string]any{"cat": "red"})
		mc := hnsw.DefaultMaintenanceConfig()
		mc.DeleteThreshold = 0.42
		mc.RefineEnabled = true
		x.VUpdateIndexConfig(ix, mc)
		x.VUpdateAutoLinks(ix, []hnsw.AutoLinkRule{{MetadataField: "cat", RelationType: "in_cat"}})
		x.VAdd(ix, "b", g.Vec(), map[string]any{"cat": "red"})
		c01Restart(ctx, cs, x, "config updates (plain replay)")
		x.RewriteAOF()
		c01Restart(ctx, cs, x, "config updates (compaction)")
		x.SaveSnapshot()
		mc.DeleteThreshold = 0.77
		x.VUpdateIndexConfig(ix, mc)
		c01Restart(ctx, cs, x, "config update after snapshot")
	}},
	{"delete_cascade", false, func(ctx *vkit.Ctx, cs *vkit.Case, x *vexec.Exec, g *vexec.Gen, cfg vexec.IndexCfg) {
		x.VCreate(cfg)
		ix := cfg.Name
		for _, id := range []string{"v", "a", "b"} {
			x.VAdd(ix, id, g.Vec(), nil)
		}
		x.VLink(ix, "a", "v", "r", "", 1, nil)
		x.VLink(ix, "v", "b", "r", "ri", 1, map[string]any{"k": "v"})
		x.VLink(ix, "v", "v", "s", "", 1, nil)
		x.VLink(ix, "a", "b", "r", "", 1, nil)
		x.VDelete(ix, "v")
		c01Restart(ctx, cs, x, "delete cascade (plain replay)")
		c01Restart(ctx, cs, x, "delete cascade, second restart")
		x.VAdd(ix, "v", g.Vec(), nil)
		x.VLink(ix, "a", "v", "r", "", 2, nil)
		x.SaveSnapshot()
		x.VDelete(ix, "a")
		c01Restart(ctx, cs, x, "delete cascade after snapshot")
	}},
}

// C01 — clean restart reproduces the pre-shutdown state for every history.
func TestVerifC01(t *testing.T) {
	vkit.Run(t, "C01", func(ctx *vkit.Ctx) {
		combos := vexec.AllCombos
		ctx.Group("template", len(c01Templates)*len(combos), func(cs *vkit.Case) {
			tm := c01Templates[cs.Idx/len(combos)]
			cb := combos[cs.Idx%len(combos)]
			if tm.f32 && cb[1] != string(distance.Float32) {
				return
			}
			x := vexec.NewExec(cs, cs.SubDir("data"))
			defer func() {
				if x.E != nil {
					x.E.Close()
				}
			}()
			g := vexec.NewGen(cs.R)
			cfg := vexec.IndexCfg{Name: "ia", Metric: distance.DistanceMetric(cb[0]), Prec: distance.PrecisionType(cb[1]),
				M: vkit.Pick(cs.R, []int{2, 4, 16}), EfC: vkit.Pick(cs.R, []int{4, 8, 200}), Lang: vkit.Pick(cs.R, []string{"", "english", "italian"})}
			cs.Op("template %s on %s/%s", tm.name, cb[0], cb[1])
			tm.run(ctx, cs, x, g, cfg)
			ctx.Eval(1)
			ctx.Count("template."+tm.name, 1)
			ctx.Distinct("T:" + tm.name + "/" + cb[0] + "/" + cb[1])
			ctx.Sample("template", 2, map[string]any{"template": tm.name, "config": cb, "ops": cs.Ops()})
		})
		ctx.Group("random", ctx.N(2500, 40000), func(cs *vkit.Case) {
			x := vexec.NewExec(cs, cs.SubDir("data"))
			defer func() {
				if x.E != nil {
					x.E.Close()
				}
			}()
			g := vexec.NewGen(cs.R)
			cycles := cs.R.Range(1, ctx.N(3, 6))
			for c := 0; c < cycles; c++ {
				nops := cs.R.Range(8, ctx.N(30, 60))
				for i := 0; i < nops; i++ {
					if cs.R.Chance(0.15) {
						g.Admin(x)
					} else {
						g.Step(x)
					}
					ctx.Count("ops", 1)
				}
				c01Restart(ctx, cs, x, fmt.Sprintf("restart %d", c+1))
			}
			ctx.Eval(1)
			key := x.KindKey()
			for _, k := range x.Kinds {
				ctx.Count("kind."+k, 1)
			}
			// non-trivial: at least one admin op followed by a write and a restart
			admin := -1
			for i, k := range x.Kinds {
				if k == "snapshot" || k == "rewrite" || k == "vcompress" || k == "vimportcommit" || k == "vacuum" || k == "gvacuum" {
					admin = i
					break
				}
			}
			if admin >= 0 && strings.Contains(strings.Join(x.Kinds[admin:], ","), "v") {
				ctx.Distinct(key)
			}
			ctx.Sample("episode", 1, map[string]any{"ops": cs.Ops()[:min(len(cs.Ops()), 30)]})
		})
	})
}

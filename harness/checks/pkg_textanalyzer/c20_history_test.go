package textanalyzer_test

import (
	"encoding/json"
	"fmt"
	"os"
	"os/exec"
	"path/filepath"
	"testing"

	"github.com/sanonone/kektordb/internal/zzverif/vkit"
	"github.com/sanonone/kektordb/pkg/textanalyzer"
)

// "Same output for the same input" also means: whatever was computed before. The input of
// Compress and of the analysers is (text, language); the process they run in is not part of
// it. This test computes every (text, language) pair after an adversarial history in this
// process (the same text under the other languages first, repeats, other texts in between)
// and compares with a reference computed in child processes of this same test binary, one
// per language, that have never seen the text under another language.

type c20HistIn struct {
	Lang  string   `json:"lang"`
	Texts []string `json:"texts"`
}

type c20HistOut struct {
	Compress []string   `json:"compress"`
	Analyze  [][]string `json:"analyze"`
}

func c20HistCompute(lang string, texts []string) c20HistOut {
	var out c20HistOut
	var an textanalyzer.Analyzer
	switch lang {
	case "en":
		an = textanalyzer.NewEnglishStemmer()
	case "it":
		an = textanalyzer.NewItalianStemmer()
	}
	for _, s := range texts {
		out.Compress = append(out.Compress, textanalyzer.Compress(s, lang))
		if an != nil {
			out.Analyze = append(out.Analyze, an.Analyze(s))
		} else {
			out.Analyze = append(out.Analyze, nil)
		}
	}
	return out
}

// TestVerifC20HistoryChild is the reference computer (runs only when asked to through the environment).
func TestVerifC20HistoryChild(t *testing.T) {
	inPath, outPath := os.Getenv("C20_CHILD_IN"), os.Getenv("C20_CHILD_OUT")
	if inPath == "" {
		t.Skip("reference child of TestVerifC20History")
	}
	b, err := os.ReadFile(inPath)
	if err != nil {
		t.Fatal(err)
	}
	var in c20HistIn
	if err := json.Unmarshal(b, &in); err != nil {
		t.Fatal(err)
	}
	ob, _ := json.Marshal(c20HistCompute(in.Lang, in.Texts))
	if err := os.WriteFile(outPath, ob, 0o644); err != nil {
		t.Fatal(err)
	}
}

func TestVerifC20History(t *testing.T) {
	vkit.Run(t, "C20", func(ctx *vkit.Ctx) {
		langs := []string{"en", "it", "", "xx"}
		ctx.Group("history", ctx.N(8, 64), func(cs *vkit.Case) {
			r := cs.R
			n := 60
			texts := make([]string, n)
			for i := range texts {
				_, s := c20Gen(r, 120) // short texts: the interesting state (caches, pools) is per text
				texts[i] = s
			}
			// adversarial history in this process
			got := map[string][]string{}
			for _, l := range langs {
				got[l] = make([]string, n)
			}
			gotAn := map[string][][]string{"en": make([][]string, n), "it": make([][]string, n)}
			en, it := textanalyzer.NewEnglishStemmer(), textanalyzer.NewItalianStemmer()
			for i, s := range texts {
				order := r.Perm(len(langs))
				for _, k := range order {
					l := langs[k]
					got[l][i] = textanalyzer.Compress(s, l)
					if r.Chance(0.3) { // a repeat and a neighbour in between
						_ = textanalyzer.Compress(s, l)
						_ = textanalyzer.Compress(texts[r.Intn(n)], langs[r.Intn(len(langs))])
					}
				}
				if r.Chance(0.5) {
					gotAn["it"][i], gotAn["en"][i] = it.Analyze(s), en.Analyze(s)
				} else {
					gotAn["en"][i], gotAn["it"][i] = en.Analyze(s), it.Analyze(s)
				}
			}
			// reference: one fresh process per language
			for _, l := range langs {
				inPath := filepath.Join(cs.TempDir(), "in-"+l+".json")
				outPath := filepath.Join(cs.TempDir(), "out-"+l+".json")
				ib, _ := json.Marshal(c20HistIn{Lang: l, Texts: texts})
				if err := os.WriteFile(inPath, ib, 0o644); err != nil {
					cs.Fail("%v", err)
				}
				cmd := exec.Command(os.Args[0], "-test.run", "^TestVerifC20HistoryChild$", "-test.count=1")
				cmd.Env = append(os.Environ(), "C20_CHILD_IN="+inPath, "C20_CHILD_OUT="+outPath)
				if ob, err := cmd.CombinedOutput(); err != nil {
					ctx.Inconclusive(fmt.Sprintf("reference child process failed: %v: %s", err, string(ob[:min(len(ob), 300)])))
					return
				}
				rb, err := os.ReadFile(outPath)
				if err != nil {
					ctx.Inconclusive("reference child wrote no output")
					return
				}
				var ref c20HistOut
				if err := json.Unmarshal(rb, &ref); err != nil || len(ref.Compress) != n {
					ctx.Inconclusive("reference child output unreadable")
					return
				}
				for i := range texts {
					if got[l][i] != ref.Compress[i] {
						cs.Fail("Compress(%q, lang=%q) = %q after other calls in this process, but %q in a process that has not seen the text under another language: the output depends on the call history", c20Show(texts[i]), l, c20Show(got[l][i]), c20Show(ref.Compress[i]))
					}
					if a, ok := gotAn[l]; ok && !c20SameTokens(a[i], ref.Analyze[i]) {
						cs.Fail("Analyze(lang=%q) of %q gives %v after other calls in this process, %v in a fresh process", l, c20Show(texts[i]), a[i], ref.Analyze[i])
					}
					ctx.Count("history.pairs_compared", 1)
				}
			}
			ctx.Eval(int64(n))
			ctx.Distinct(fmt.Sprintf("history/%d", cs.Idx))
		})
	})
}

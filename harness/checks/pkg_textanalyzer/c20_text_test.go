package textanalyzer_test

// C20 (text analysis part) — tokenising, stemming and stop-word compression terminate
// without panic on every input string, are deterministic, emit no empty token, and
// compression never removes a negation or a logical connective.

import (
	"fmt"
	"os"
	"path/filepath"
	"regexp"
	"runtime/debug"
	"sort"
	"strings"
	"testing"
	"unicode"

	"github.com/sanonone/kektordb/internal/zzverif/vkit"
	"github.com/sanonone/kektordb/pkg/textanalyzer"
)

// Negations and logical connectives of both languages. Source: what compressor.go itself
// documents as preserved (package comment: not/no/never, non/mai, and/or/but/if, e/o/ma/se;
// "Must preserve: ... unless"; "CRITICAL: non, ma, se, o, e") plus the negation/connective
// entries of its isImportantWord lists, plus a few plain negations/connectives of the two
// languages that no stop-word list may ever contain (nor, neither, cannot, né, nessuno, ...).
// Quantifiers ("all", "every", "tutti") and verbs of isImportantWord are not demanded: the
// property speaks of negations and connectives only.
var c20Protected = []string{
	"not", "no", "never", "none", "nothing", "nor", "neither", "cannot",
	"and", "or", "but", "if", "unless", "except",
	"non", "mai", "nulla", "niente", "né", "nessuno", "nessuna", "nemmeno", "neanche", "neppure",
	"e", "ed", "o", "oppure", "ma", "però", "tuttavia", "se", "qualora", "tranne", "eccetto",
}

var c20ProtIdx = func() map[string]int {
	m := map[string]int{}
	for i, w := range c20Protected {
		m[w] = i
	}
	return m
}()

// c20CountProtected counts, token-wise and case-insensitively, the occurrences of every
// protected word. A token is a maximal run of letters, numbers, apostrophes and hyphens
// (the word notion compressor.go documents for itself: "don't", "state-of-the-art" are one word).
func c20CountProtected(s string) []int {
	counts := make([]int, len(c20Protected))
	var tok strings.Builder
	flush := func() {
		if tok.Len() == 0 {
			return
		}
		if i, ok := c20ProtIdx[strings.ToLower(tok.String())]; ok {
			counts[i]++
		}
		tok.Reset()
	}
	for _, c := range s {
		if unicode.IsLetter(c) || unicode.IsNumber(c) || c == '\'' || c == '-' {
			tok.WriteRune(c)
		} else {
			flush()
		}
	}
	flush()
	return counts
}

var c20Langs = []string{"en", "english", "eng", "it", "italian", "ita", "", "fr", "IT", "En", "ENGLISH", "Italian", "de"}

type c20TextStats struct {
	strings, enTokens, itTokens, compressCalls, protectedSeen, compressRemoved int64
}

func c20SameTokens(a, b []string) bool {
	if len(a) != len(b) {
		return false
	}
	for i := range a {
		if a[i] != b[i] {
			return false
		}
	}
	return true
}

// c20CheckText applies every oracle of the text-analysis part to one input.
func c20CheckText(r *vkit.Rand, en *textanalyzer.EnglishStemmer, it *textanalyzer.ItalianStemmer, s string, st *c20TextStats) (msg string) {
	where := "?"
	defer func() {
		if x := recover(); x != nil {
			msg = fmt.Sprintf("panic in %s: %v\n%s", where, x, debug.Stack())
		}
	}()
	st.strings++
	analyzers := []struct {
		name string
		a, b textanalyzer.Analyzer
	}{
		{"EnglishStemmer.Analyze", en, textanalyzer.NewEnglishStemmer()},
		{"ItalianStemmer.Analyze", it, textanalyzer.NewItalianStemmer()},
	}
	for k, an := range analyzers {
		where = an.name
		t1 := an.a.Analyze(s)
		t2 := an.b.Analyze(s)
		if !c20SameTokens(t1, t2) {
			return fmt.Sprintf("%s is not deterministic: %d tokens, then %d tokens", an.name, len(t1), len(t2))
		}
		for i, tk := range t1 {
			if tk == "" {
				return fmt.Sprintf("%s produced an empty token at position %d of %d", an.name, i, len(t1))
			}
		}
		if k == 0 {
			st.enTokens += int64(len(t1))
		} else {
			st.itTokens += int64(len(t1))
		}
	}
	where = "Tokenize"
	tk1, tk2 := textanalyzer.Tokenize(s), textanalyzer.Tokenize(s)
	if !c20SameTokens(tk1, tk2) {
		return "Tokenize is not deterministic"
	}
	for i, tk := range tk1 {
		if tk == "" {
			return fmt.Sprintf("Tokenize produced an empty token at position %d of %d", i, len(tk1))
		}
	}

	in := c20CountProtected(s)
	nProt := 0
	for _, n := range in {
		nProt += n
	}
	st.protectedSeen += int64(nProt)
	for _, lang := range []string{"en", "it", vkit.Pick(r, c20Langs)} {
		where = fmt.Sprintf("Compress(lang=%q)", lang)
		o1 := textanalyzer.Compress(s, lang)
		o2 := textanalyzer.Compress(s, lang)
		st.compressCalls += 2
		if o1 != o2 {
			return fmt.Sprintf("Compress(lang=%q) is not deterministic: %q then %q", lang, c20Show(o1), c20Show(o2))
		}
		if len(o1) < len(strings.TrimSpace(s)) {
			st.compressRemoved++
		}
		out := c20CountProtected(o1)
		for i := range in {
			if in[i] != out[i] {
				return fmt.Sprintf("Compress(lang=%q) changed the number of occurrences of the negation/connective %q: %d in the input, %d in the output %q", lang, c20Protected[i], in[i], out[i], c20Show(o1))
			}
		}
		where = "CompressionRatio"
		_ = textanalyzer.CompressionRatio(s, o1) // totality only
	}
	return ""
}

// c20SourceSuffixes extracts the string literals (suffix tables, exception lists, clitic
// pronouns) from the stemmer sources of the tree under test, at run time.
func c20SourceSuffixes(file string) []string {
	repo := os.Getenv("VERIF_REPO")
	if repo == "" {
		repo = "/repo"
	}
	b, err := os.ReadFile(filepath.Join(repo, "pkg", "textanalyzer", file))
	if err != nil {
		return nil
	}
	set := map[string]bool{}
	for _, m := range regexp.MustCompile(`"([\p{L}']{1,14})"`).FindAllStringSubmatch(string(b), -1) {
		set[m[1]] = true
	}
	out := make([]string, 0, len(set))
	for s := range set {
		out = append(out, s)
	}
	sort.Strings(out)
	return out
}

func TestVerifC20Text(t *testing.T) {
	vkit.Run(t, "C20", func(ctx *vkit.Ctx) {
		ctx.Assume("an occurrence of a negation/connective is a whole word (maximal run of letters, numbers, apostrophes, hyphens), compared case-insensitively")
		en, it := textanalyzer.NewEnglishStemmer(), textanalyzer.NewItalianStemmer()

		flush := func(st *c20TextStats) {
			ctx.Count("text.strings", st.strings)
			ctx.Count("text.tokens_english", st.enTokens)
			ctx.Count("text.tokens_italian", st.itTokens)
			ctx.Count("text.compress_calls", st.compressCalls)
			ctx.Count("text.compress_calls_that_removed_something", st.compressRemoved)
			ctx.Count("text.protected_word_occurrences_checked", st.protectedSeen)
		}
		one := func(cs *vkit.Case, class, s string, st *c20TextStats) {
			cs.Op("text class=%s bytes=%d %q", class, len(s), c20Show(s))
			if m := c20CheckText(cs.R, en, it, s, st); m != "" {
				flush(st)
				cs.Attach("input", s)
				cs.Attach("input_quoted", fmt.Sprintf("%q", s))
				cs.Fail("%s", m)
			}
		}

		// 1. generated strings, 25 per case
		ctx.Group("strings", ctx.N(760, 50000), func(cs *vkit.Case) {
			var st c20TextStats
			classes := map[string]bool{}
			for i := 0; i < 25; i++ {
				class, s := c20Gen(cs.R, 600)
				one(cs, class, s, &st)
				classes[class] = true
				ctx.Count("text.class."+class, 1)
			}
			flush(&st)
			ctx.Eval(25)
			if st.enTokens > 0 && st.compressRemoved > 0 {
				ctx.Distinct(fmt.Sprintf("text|%d|%d|%d|%d", len(classes), st.enTokens, st.itTokens, st.protectedSeen))
			}
			ctx.Sample("text", 2, map[string]any{"last_op": cs.Ops()[len(cs.Ops())-1], "english_tokens": st.enTokens, "protected_words": st.protectedSeen})
		})

		// 2. vocabularies that hit every stemmer suffix rule: suffix lists read from the stemmer
		// sources of the tree under test (fallback: the lists embedded in the generator)
		enSuf := c20SourceSuffixes("stemmer_english.go")
		itSuf := c20SourceSuffixes("stemmer_italian.go")
		if ctx.Shard == 0 {
			ctx.Count("stem.suffix_literals_read_from_source", int64(len(enSuf)+len(itSuf)))
		}
		if len(enSuf) == 0 {
			enSuf = append(append([]string{}, c20EnSufs...), c20EnWords...)
		}
		if len(itSuf) == 0 {
			itSuf = c20ItSufs
		}
		all := append(append([]string{}, enSuf...), itSuf...)
		ctx.Group("stemvocab", ctx.N(len(all)*2, len(all)*40), func(cs *vkit.Case) {
			var st c20TextStats
			suf := all[cs.Idx%len(all)]
			italian := cs.Idx%len(all) >= len(enSuf)
			changed := false
			for i := 0; i < 20; i++ {
				stems := c20EnStems
				if italian != cs.R.Chance(0.15) { // mostly the matching language, sometimes the other one
					stems = c20ItStems
				}
				w := vkit.Pick(cs.R, stems)
				switch cs.R.Intn(8) {
				case 0:
					w = "" // the bare suffix as a word
				case 1:
					w += vkit.Pick(cs.R, stems) // longer stem: moves R1/R2/RV
				case 2:
					w = c20Word(cs.R, 8)
				case 3:
					w = vkit.Pick(cs.R, []string{"é", "èè", "üb", "ñ", "日本", "ß", "y", "yy"}) + w // multi-byte prefix: byte/rune index confusion
				}
				w += suf
				switch cs.R.Intn(6) {
				case 0:
					w += vkit.Pick(cs.R, all) // a second suffix on top
				case 1:
					w += "'s"
				case 2:
					w = strings.ToUpper(w)
				}
				one(cs, "stemvocab", w, &st)
				var a textanalyzer.Analyzer = en
				if italian {
					a = it
				}
				// did a stemming rule fire? (stemmed token differs from the plain token)
				if out, plain := a.Analyze(w), textanalyzer.Tokenize(w); len(out) == len(plain) {
					for j := range out {
						if out[j] != plain[j] {
							changed = true
						}
					}
				}
			}
			flush(&st)
			ctx.Eval(20)
			if changed {
				ctx.Distinct("stem|" + suf)
				ctx.Count("stem.cases_where_the_stemmer_rewrote_a_word", 1)
			}
			ctx.Count("stem.vocab_words", 20)
		})

		// 3. very large inputs: one 100 KB word, 200 KB texts
		ctx.Group("huge", ctx.N(20, 500), func(cs *vkit.Case) {
			var st c20TextStats
			class, s := c20Huge(cs.R)
			one(cs, class, s, &st)
			flush(&st)
			ctx.Eval(1)
			ctx.Count("text.huge_inputs", 1)
			ctx.Distinct(fmt.Sprintf("huge|%s|%d", class, st.enTokens))
		})
	})
}

package textanalyzer_test

// C20 — seed-determined hostile string generators.
//
// This file exists as an identical copy (apart from the package clause) in
// harness/checks/pkg_textanalyzer, harness/checks/pkg_rag and harness/checks/pkg_core_text:
// the framework has no place for a helper shared by checks of different packages.
// All randomness comes from the *vkit.Rand of the case, so a replay regenerates the
// same string.

import (
	"strings"
	"unicode"
	"unicode/utf8"

	"github.com/sanonone/kektordb/internal/zzverif/vkit"
)

var (
	c20EnStems = []string{"contr", "relat", "gener", "nation", "hope", "hop", "sk", "y", "yy", "ay", "cry", "b", "str", "agre", "feed", "proce", "luxuri", "control", "roll", "fizz", "fall", "abil", "sens", "activ", "form", "opera", "vietnam", "tr", "ee", "communic", "ration", "e", "o", "qu", "bl", "at", "iz"}
	c20EnSufs  = []string{"s", "ss", "sses", "ies", "ied", "eed", "eedly", "ed", "edly", "ing", "ingly", "y", "ational", "tional", "enci", "anci", "izer", "abli", "alli", "entli", "eli", "ousli", "ization", "ation", "ator", "alism", "iveness", "fulness", "ousness", "aliti", "iviti", "biliti", "logi", "icate", "ative", "alize", "iciti", "ical", "ful", "ness", "al", "ance", "ence", "er", "ic", "able", "ible", "ant", "ement", "ment", "ent", "ism", "ate", "iti", "ous", "ive", "ize", "ion", "sion", "tion", "e", "ll", "ly", "li", "ately", "ingness"}
	c20EnWords = []string{"skis", "skies", "dying", "lying", "tying", "idly", "gently", "ugly", "early", "only", "singly", "news", "howe", "atlas", "cosmos", "bias", "andes", "inning", "outing", "canning", "herring", "earring", "proceed", "exceed", "succeed", "the", "a", "is", "of", "yes", "you", "Yield", "boy", "say", "generously", "can't", "dog's", "o'", "it's'"}
	c20ItStems = []string{"naz", "form", "comun", "part", "abil", "veloc", "aiu", "aia", "qui", "gui", "gioi", "pi", "città", "perch", "gener", "pot", "contr", "mang", "port", "dorm", "cred", "bell", "fam", "psic", "bio", "è", "ù", "éé", "fin", "parl", "sent", "cap", "p", "au", "ea", "larg", "poch"}
	c20ItSufs  = []string{"mente", "atrice", "atrici", "anza", "anze", "ico", "ici", "ica", "ice", "iche", "ichi", "ismo", "ismi", "ista", "iste", "isti", "istà", "istè", "istì", "oso", "osi", "osa", "ose", "ità", "logia", "logie", "azione", "azioni", "atore", "abilità", "ibili", "abile", "ività", "ivo", "ivi", "iva", "ive", "gliela", "gliele", "glieli", "glielo", "gliene", "cela", "cele", "celi", "celo", "cene", "mela", "mele", "meli", "melo", "mene", "tela", "tele", "teli", "telo", "tene", "vela", "vele", "veli", "velo", "vene", "ci", "gli", "la", "le", "li", "lo", "mi", "ne", "si", "ti", "vi", "cher", "gher", "erebbero", "irebbero", "assero", "assimo", "eranno", "erebbe", "eremmo", "ereste", "eresti", "essero", "iranno", "irebbe", "iremmo", "ireste", "iresti", "arono", "avamo", "avano", "avate", "eremo", "erete", "erono", "evamo", "evano", "evate", "iremo", "irete", "irono", "ivamo", "ivano", "ivate", "ammo", "ando", "asse", "assi", "emmo", "endo", "erai", "erei", "yamo", "iamo", "immo", "irai", "irei", "isca", "isce", "isci", "isco", "ano", "are", "ata", "ate", "ati", "ato", "ava", "avi", "avo", "erà", "ere", "erò", "ete", "eva", "evi", "evo", "irà", "ire", "irò", "ita", "ite", "iti", "ito", "ono", "uta", "ute", "uti", "uto", "ar", "ir", "a", "e", "i", "o", "chi", "ghi", "à", "è", "ì", "ò", "ù"}
	c20ItWords = []string{"il", "lo", "la", "di", "che", "è", "perché", "più", "non", "sono", "città", "università", "virtù", "caffè", "così", "lunedì", "però", "dell'", "l'", "un'", "po'", "quell'"}
	// negations / logical connectives of both languages plus neighbours that must not confuse a tokenizer
	c20Logic = []string{"not", "no", "never", "none", "nothing", "and", "or", "but", "if", "unless", "except", "nor", "neither", "cannot", "non", "mai", "nulla", "niente", "e", "ed", "o", "oppure", "ma", "però", "tuttavia", "se", "qualora", "tranne", "eccetto", "né", "nessuno", "nemmeno", "neanche", "NOT", "No", "NEVER", "And", "OR", "Non", "MAI", "Ma", "SE", "E", "O", "PERÒ", "don't", "no-one", "non-stop", "e-mail", "o'clock", "not.", "(no)", "\"never\"", "if,", "ma;", "se:", "e/o", "and/or"}
	c20Stop  = []string{"a", "an", "the", "is", "am", "are", "was", "were", "be", "been", "being", "have", "has", "had", "do", "does", "did", "will", "would", "shall", "should", "to", "of", "in", "on", "at", "by", "for", "from", "with", "about", "its", "as", "il", "lo", "la", "i", "gli", "le", "un", "uno", "una", "di", "da", "con", "su", "per", "tra", "fra", "al", "del", "nel", "sul", "dal", "col", "è", "era", "sto", "ho", "ha", "hanno", "The", "IS", "Il", "LA", "È"}
	c20WS    = []string{" ", " ", " ", " ", "\n", "\n", "\n\n", "\t", "\r\n", "  ", "\u00a0", "\u2003", "\u2028", "\u3000", "\v", "\f", "\u0085", "\n \n", "\n\n\n"}
	c20Punct = []string{".", ",", ";", ":", "!", "?", "(", ")", "[", "]", "{", "}", "'", "\"", "-", "_", "/", "\\", "#", "*", "`", "~", "@", "$", "%", "^", "&", "+", "=", "<", ">", "|", "…", "—", "«", "»", "¿", "。", "、"}
	c20MD    = []string{"\n## ", "\n### ", "\n# ", "\n#### ", "## ", "### ", "\n##", "\n###", "\n## \n## ", "\n- ", "\n* ", "\n```\n", "\n> ", "\n\n", "\n---\n", "#", "##"}
	c20Code  = []string{"\nfunc ", "\nfunc", "\ntype ", "\ntype", "\nclass ", "\nclass", "\ndef ", "func", "type", "class", "\nfunc\nfunc", "\nfunc\ntype", " {\n\t", "}\n", "\n}\n\n", "()", "return ", "x := 1\n", "\treturn nil\n", "// c\n", "struct {", "self.", ":\n    "}
	c20Bad   = []string{"\x80", "\xbf", "\xc3", "\xe2\x82", "\xf0\x9f\x98", "\xed\xa0\x80", "\xed\xbf\xbf", "\xc0\xaf", "\xe0\x80\xaf", "\xff", "\xfe", "\xf8\x88\x80\x80\x80", "\xf4\x90\x80\x80", "\xc3\x28", "\xa0\xa1", "\xef\xbf\xbd", "\x00", "\xe2\x28\xa1"}
	c20Odd   = []string{"İ", "ı", "ß", "ẞ", "ǅ", "ﬁ", "Σ", "ς", "K", "µ", "Ǆ", "ŉ", "ΐ", "²", "½", "٣", "Ⅷ", "_", "0", "9", "x_1", "__"}
)

func c20Rune(r *vkit.Rand, lo, hi int) string { return string(rune(r.Range(lo, hi))) }

func c20Word(r *vkit.Rand, script int) string {
	var b strings.Builder
	switch script {
	case 0: // english stem+suffixes
		if r.Chance(0.2) {
			return vkit.Pick(r, c20EnWords)
		}
		b.WriteString(vkit.Pick(r, c20EnStems))
		for n := r.Range(0, 2); n > 0; n-- {
			b.WriteString(vkit.Pick(r, c20EnSufs))
		}
		if r.Chance(0.1) {
			b.WriteString(vkit.Pick(r, []string{"'s", "'", "'s'"}))
		}
	case 1: // italian
		if r.Chance(0.2) {
			return vkit.Pick(r, c20ItWords)
		}
		b.WriteString(vkit.Pick(r, c20ItStems))
		for n := r.Range(0, 2); n > 0; n-- {
			b.WriteString(vkit.Pick(r, c20ItSufs))
		}
	case 2: // CJK / kana / hangul
		for n := r.Range(1, 6); n > 0; n-- {
			switch r.Intn(3) {
			case 0:
				b.WriteString(c20Rune(r, 0x4E00, 0x9FFF))
			case 1:
				b.WriteString(c20Rune(r, 0x3040, 0x30FF))
			default:
				b.WriteString(c20Rune(r, 0xAC00, 0xD7A3))
			}
		}
	case 3: // emoji incl. ZWJ sequences, flags, modifiers
		for n := r.Range(1, 3); n > 0; n-- {
			switch r.Intn(5) {
			case 0:
				b.WriteString(c20Rune(r, 0x1F600, 0x1F64F))
			case 1:
				b.WriteString("👩‍👩‍👧")
			case 2:
				b.WriteString(c20Rune(r, 0x1F1E6, 0x1F1FF) + c20Rune(r, 0x1F1E6, 0x1F1FF))
			case 3:
				b.WriteString("👍" + c20Rune(r, 0x1F3FB, 0x1F3FF))
			default:
				b.WriteString("❤️")
			}
		}
	case 4: // base letters with combining marks (zalgo)
		for n := r.Range(1, 4); n > 0; n-- {
			b.WriteString(c20Rune(r, 'a', 'z'))
			for m := r.Range(0, 5); m > 0; m-- {
				b.WriteString(c20Rune(r, 0x0300, 0x036F))
			}
		}
	case 5: // invalid UTF-8
		for n := r.Range(1, 4); n > 0; n-- {
			if r.Chance(0.3) {
				b.Write(r.Bytes(r.Range(1, 4)))
			} else {
				b.WriteString(vkit.Pick(r, c20Bad))
			}
		}
	case 6: // case-mapping oddities, digits, underscores
		b.WriteString(vkit.Pick(r, c20Odd))
		if r.Chance(0.5) {
			b.WriteString(vkit.Pick(r, c20EnSufs))
		}
	case 7: // negations / connectives / stop words
		if r.Chance(0.6) {
			b.WriteString(vkit.Pick(r, c20Logic))
		} else {
			b.WriteString(vkit.Pick(r, c20Stop))
		}
	case 8: // random lower-case letters (incl. accented), random length
		for n := r.Range(1, 12); n > 0; n-- {
			if r.Chance(0.12) {
				b.WriteString(vkit.Pick(r, []string{"à", "è", "é", "ì", "ò", "ù", "y", "Y", "i", "u"}))
			} else {
				b.WriteString(c20Rune(r, 'a', 'z'))
			}
		}
	}
	return b.String()
}

var c20Classes = []string{"empty", "seps", "english", "italian", "cjk", "emoji", "combining", "invalid", "logic", "markdown", "code", "mixed", "nosep", "randbytes"}

// c20Sep picks a separator for a class.
func c20Sep(r *vkit.Rand, class string) string {
	switch class {
	case "markdown":
		if r.Chance(0.3) {
			return vkit.Pick(r, c20MD)
		}
	case "code":
		if r.Chance(0.3) {
			return vkit.Pick(r, c20Code)
		}
	case "mixed":
		switch r.Intn(10) {
		case 0:
			return vkit.Pick(r, c20MD)
		case 1:
			return vkit.Pick(r, c20Code)
		case 2:
			return vkit.Pick(r, c20Punct)
		case 3:
			return ""
		}
	case "cjk":
		if r.Chance(0.6) {
			return vkit.Pick(r, []string{"", "", "。", "、", "　"})
		}
	}
	if r.Chance(0.12) {
		return vkit.Pick(r, c20Punct) + vkit.Pick(r, c20WS)
	}
	return vkit.Pick(r, c20WS)
}

// c20Text builds a text of `units` words of the given class.
func c20Text(r *vkit.Rand, class string, units int) string {
	var b strings.Builder
	switch class {
	case "empty":
		return ""
	case "seps":
		for i := 0; i < units; i++ {
			switch r.Intn(4) {
			case 0:
				b.WriteString(vkit.Pick(r, c20Punct))
			default:
				b.WriteString(vkit.Pick(r, c20WS))
			}
		}
		return b.String()
	case "nosep": // one "word": no whitespace, no punctuation
		script := vkit.Pick(r, []int{0, 1, 2, 3, 4, 8, 8})
		for i := 0; i < units; i++ {
			b.WriteString(c20Word(r, script))
		}
		return b.String()
	case "randbytes":
		return string(r.Bytes(units * 3))
	}
	for i := 0; i < units; i++ {
		script := 0
		switch class {
		case "english":
			script = vkit.Pick(r, []int{0, 0, 0, 7, 8})
		case "italian":
			script = vkit.Pick(r, []int{1, 1, 1, 7, 8})
		case "cjk":
			script = 2
		case "emoji":
			script = vkit.Pick(r, []int{3, 3, 0})
		case "combining":
			script = vkit.Pick(r, []int{4, 4, 1})
		case "invalid":
			script = vkit.Pick(r, []int{5, 5, 0, 1, 2})
		case "logic":
			script = vkit.Pick(r, []int{7, 7, 0, 1})
		case "markdown", "code":
			script = vkit.Pick(r, []int{0, 0, 1, 8, 6})
		default: // mixed
			script = r.Intn(9)
		}
		b.WriteString(c20Word(r, script))
		if i+1 < units || r.Chance(0.3) {
			b.WriteString(c20Sep(r, class))
		}
	}
	return b.String()
}

// c20Gen draws (class, text). Most texts are short; maxUnits bounds the ordinary ones.
func c20Gen(r *vkit.Rand, maxUnits int) (string, string) {
	class := vkit.Pick(r, c20Classes)
	if class != "empty" && r.Chance(0.02) {
		class = "empty"
	} else if class == "empty" && r.Chance(0.8) {
		class = "mixed"
	}
	var units int
	switch x := r.Intn(100); {
	case x < 55:
		units = r.Range(1, 12)
	case x < 90:
		units = r.Range(12, 80)
	default:
		units = r.Range(80, maxUnits)
	}
	if units > maxUnits {
		units = maxUnits
	}
	return class, c20Text(r, class, units)
}

// c20Huge draws one of the very large inputs of the quantifier: a single 100 KB "word"
// (100 000 runes without any separator, in one of several scripts) or a very long mixed
// text (≤ 200 KB).
func c20Huge(r *vkit.Rand) (string, string) {
	switch r.Intn(6) {
	case 0:
		return "word100k-ascii", strings.Repeat(c20Rune(r, 'a', 'z')+c20Rune(r, 'a', 'z')+"e", 33334)[:100000]
	case 1:
		var b strings.Builder
		for i := 0; i < 100000; i++ {
			b.WriteByte(byte('a' + r.Intn(26)))
		}
		return "word100k-random", b.String()
	case 2:
		return "word100k-accent", strings.Repeat(vkit.Pick(r, []string{"é", "ù", "à"})+c20Rune(r, 'a', 'z'), 50000)
	case 3:
		var b strings.Builder
		for i := 0; i < 50000; i++ {
			b.WriteString(c20Rune(r, 0x4E00, 0x9FFF))
		}
		return "word50k-cjk", b.String()
	case 4:
		class := vkit.Pick(r, []string{"english", "italian", "mixed", "markdown", "code", "invalid", "logic"})
		var b strings.Builder
		for b.Len() < 150000 {
			b.WriteString(c20Text(r, class, 200))
			b.WriteString(c20Sep(r, class))
		}
		s := b.String()
		if len(s) > 200000 {
			s = s[:200000] // may cut a multi-byte sequence: one more invalid tail
		}
		return "long-" + class, s
	default:
		return "seps100k", strings.Repeat(vkit.Pick(r, c20WS)+vkit.Pick(r, c20Punct), 30000)
	}
}

// c20Show renders an input for the operation log / witness (the full input is attached
// separately when a case fails).
func c20Show(s string) string {
	if len(s) > 300 {
		return strings.ToValidUTF8(s[:300], "�") + "…"
	}
	return s
}

// c20NonWS decodes s rune by rune (every invalid byte is one U+FFFD, exactly as a Go range
// loop, utf8.RuneCountInString and []rune(s) see it) and appends the non-whitespace runes to dst.
func c20NonWS(dst []rune, s string) []rune {
	for _, c := range s {
		if !unicode.IsSpace(c) {
			dst = append(dst, c)
		}
	}
	return dst
}

// c20Subseq reports whether need is a subsequence of have; on failure it returns the index
// in need of the first rune that could not be matched.
func c20Subseq(need, have []rune) (bool, int) {
	j := 0
	for i := 0; i < len(have) && j < len(need); i++ {
		if have[i] == need[j] {
			j++
		}
	}
	return j == len(need), j
}

func c20Runes(s string) int { return utf8.RuneCountInString(s) }

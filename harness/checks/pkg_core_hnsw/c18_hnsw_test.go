package hnsw

// C18 (hnsw part, white-box) — two mechanisms of the property that no engine-level entry point
// reaches:
//
//  1. distanceBetweenNodes, the node-to-node copy of the distance code (graph construction and
//     refine use it; a search never does). Clause: "every distance kernel agrees with the plain
//     reference loop within floating-point tolerance, is symmetric, ... zero between a stored
//     vector and itself". The reference loop runs in float64 over the vectors as stored (the
//     decoded float16 values, the int8 codes): for int8/cosine the kernel is the integer dot
//     product rescaled by the two stored per-node norms ("stored int8 norms: per-node norm used
//     to rescale dot products"), reference 1 - c1.c2/(|c1||c2|).
//     Tolerances (u = 2^-24): float32/float16 squared euclidean and float32 cosine (1 - dot of
//     unit vectors): g(n+2) * sum|terms| + n*2^-149; int8: the two norms are correctly rounded
//     float32 square roots (relative error u each), the quotient is formed in float64:
//     |sim error| <= 2.5u|sim| => 4u + 1e-12 allowed.
//
//  2. Index.UpdateNodePointer, the relocation hook ("relocation re-validates the source slot and
//     updates the node pointer"). The product never frees arena slots, so the history is made
//     here: vectors are deleted and vacuumed (product code), their slots are handed back with
//     arena.FreeSlot (the step the product leaves out), a compactor with the index itself as
//     NodePointerUpdater runs a cycle (product code), and new vectors are added, which land on
//     the slots the relocated vectors left. Clause: "a vector read back is the vector that was
//     stored ... storage slots are never shared between live vectors nor expose another
//     vector's bytes after slot reuse, relocation": every surviving vector reads back
//     bit-for-bit as before, and its distances to the other survivors stay within the kernel
//     tolerance of the same reference.

import (
	"fmt"
	"math"
	"testing"
	"time"

	"github.com/sanonone/kektordb/internal/zzverif/vkit"
	"github.com/sanonone/kektordb/pkg/core/distance"
	"github.com/sanonone/kektordb/pkg/storage/mmap"
)

const c18hU = 1.0 / (1 << 24)

func c18hGamma(k int) float64 { return float64(k) * c18hU / (1 - float64(k)*c18hU) }

type c18hIndex struct {
	cs     *vkit.Case
	h      *Index
	metric distance.DistanceMetric
	prec   distance.PrecisionType
	dim    int
	ids    []string
}

func (x *c18hIndex) node(id string) *Node {
	iid, ok := x.h.GetInternalID(id)
	if !ok {
		x.cs.Fail("GetInternalID(%s): not found", id)
	}
	n := x.h.getNodes()[iid]
	if n == nil {
		x.cs.Fail("node of live id %s is nil", id)
	}
	return n
}

// refPair returns the reference distance of two stored nodes and the tolerance.
func (x *c18hIndex) refPair(a, b *Node) (ref, tol float64) {
	n := x.dim
	switch x.prec {
	case distance.Int8:
		ca, cb := a.GetVectorI8(), b.GetVectorI8()
		var dot, sa, sb float64
		for i := range ca {
			dot += float64(ca[i]) * float64(cb[i])
			sa += float64(ca[i]) * float64(ca[i])
			sb += float64(cb[i]) * float64(cb[i])
		}
		if sa == 0 || sb == 0 {
			return 1, 0 // defined by the index as distance 1
		}
		sim := dot / (math.Sqrt(sa) * math.Sqrt(sb))
		return 1 - math.Max(-1, math.Min(1, sim)), 4*c18hU + 1e-12
	default:
		va, _ := x.h.GetNodeData(a.Id)
		vb, _ := x.h.GetNodeData(b.Id)
		var s, abs float64
		if x.metric == distance.Euclidean {
			for i := range va.Vector {
				d := float64(va.Vector[i]) - float64(vb.Vector[i])
				s += d * d
			}
			return s, c18hGamma(n+2)*s + float64(n)*math.Ldexp(1, -149)
		}
		for i := range va.Vector { // cosine on the stored unit vectors: 1 - dot
			t := float64(va.Vector[i]) * float64(vb.Vector[i])
			s += t
			abs += math.Abs(t)
		}
		return 1 - s, c18hGamma(n+2)*(abs+1) + float64(n)*math.Ldexp(1, -149)
	}
}

func c18hVec(r *vkit.Rand, dim int, scale float32) []float32 {
	v := make([]float32, dim)
	nz := false
	for i := range v {
		v[i] = r.F32() * scale
		nz = nz || v[i] != 0
	}
	if !nz {
		v[0] = scale
	}
	return v
}

func TestVerifC18Hnsw(t *testing.T) {
	vkit.Run(t, "C18", func(ctx *vkit.Ctx) {
		ctx.Group("hnsw_nodes", ctx.N(24, 600), func(cs *vkit.Case) {
			r := cs.R
			type cfg struct {
				m distance.DistanceMetric
				p distance.PrecisionType
			}
			c := vkit.Pick(r, []cfg{{distance.Euclidean, distance.Float32}, {distance.Cosine, distance.Float32}, {distance.Euclidean, distance.Float16}, {distance.Cosine, distance.Int8}, {distance.Cosine, distance.Int8}})
			dim := vkit.Pick(r, []int{1, 2, 3, 8, 16, 33, 64})
			n := r.Range(12, 40)
			scale := vkit.Pick(r, []float32{1, 1, 100, 0.01})
			h, err := New(vkit.Pick(r, []int{4, 8, 16}), vkit.Pick(r, []int{16, 100}), c.m, c.p, "", cs.SubDir("arena"))
			if err != nil {
				cs.Fail("hnsw.New(%s,%s): %v", c.m, c.p, err)
			}
			defer h.Close()
			x := &c18hIndex{cs: cs, h: h, metric: c.m, prec: c.p, dim: dim}
			cs.Op("hnsw.New(%s, %s) with an arena; %d vectors of dim %d, scale %v", c.m, c.p, n, dim, scale)
			vecs := make([][]float32, n)
			for i := range vecs {
				vecs[i] = c18hVec(r, dim, scale)
			}
			if c.p == distance.Int8 && r.Chance(0.5) {
				h.TrainQuantizer(vecs) // as VCompress does; otherwise the first Add trains
			}
			for i, v := range vecs {
				id := fmt.Sprintf("n%03d", i)
				if _, err := h.Add(id, append([]float32(nil), v...)); err != nil {
					cs.Fail("Add(%s): %v", id, err)
				}
				x.ids = append(x.ids, id)
			}
			// ---- 1. node-to-node distances: every pair, both orders, and every node with itself
			type key struct{ a, b string }
			before := map[key]float64{}
			pairs := func(when string, record bool) {
				for i, ia := range x.ids {
					na := x.node(ia)
					for _, ib := range x.ids[i:] {
						nb := x.node(ib)
						d1, e1 := h.distanceBetweenNodes(na, nb)
						d2, e2 := h.distanceBetweenNodes(nb, na)
						if e1 != nil || e2 != nil {
							cs.Fail("%s: distanceBetweenNodes(%s,%s): %v %v", when, ia, ib, e1, e2)
						}
						ref, tol := x.refPair(na, nb)
						if math.IsNaN(d1) || math.Abs(d1-ref) > tol {
							cs.Fail("%s: %s/%s dim %d: distanceBetweenNodes(%s,%s) = %.12g, reference loop over the stored values %.12g, tolerance %.3g", when, c.m, c.p, dim, ia, ib, d1, ref, tol)
						}
						if math.Abs(d1-d2) > tol {
							cs.Fail("%s: %s/%s dim %d: distanceBetweenNodes(%s,%s) = %.12g but (%s,%s) = %.12g", when, c.m, c.p, dim, ia, ib, d1, ib, ia, d2)
						}
						if d1 < -tol {
							cs.Fail("%s: %s/%s dim %d: distanceBetweenNodes(%s,%s) = %.12g is negative beyond the tolerance %.3g", when, c.m, c.p, dim, ia, ib, d1, tol)
						}
						// (not compared bit-for-bit with the value before a relocation: the float32
						// kernels sum in an order that depends on the alignment of the operands, which a
						// relocation changes; the stored vectors themselves are compared bit-for-bit)
						if record {
							before[key{ia, ib}] = d1
						} else if w, ok := before[key{ia, ib}]; ok && math.Abs(w-d1) > 2*tol {
							cs.Fail("%s: %s/%s dim %d: distanceBetweenNodes(%s,%s) = %.17g, was %.17g before the relocation (same stored vectors; twice the kernel tolerance is %.3g)", when, c.m, c.p, dim, ia, ib, d1, w, 2*tol)
						}
						ctx.Count("hnsw.node_pairs_checked."+string(c.p), 1)
					}
				}
			}
			pairs("after insert", false)
			// ---- 2. relocation with the index as NodePointerUpdater
			var dead []string
			for _, p := range r.Perm(n)[:r.Range(2, n/3)] {
				dead = append(dead, x.ids[p])
			}
			var deadIID []uint32
			for _, id := range dead {
				iid, _ := h.GetInternalID(id)
				deadIID = append(deadIID, iid)
				h.Delete(id)
			}
			cs.Op("Delete %v; vacuum; arena.FreeSlot of their slots", dead)
			h.MaintenanceRun("vacuum")
			var live []string
			for _, id := range x.ids {
				isDead := false
				for _, d := range dead {
					isDead = isDead || d == id
				}
				if !isDead {
					live = append(live, id)
				}
			}
			x.ids = live
			want := map[string][]float32{}
			for _, id := range x.ids {
				nd, ok := h.GetNodeData(id)
				if !ok {
					cs.Fail("after vacuum: GetNodeData(%s) of a live vector: not found", id)
				}
				want[id] = append([]float32(nil), nd.Vector...)
			}
			before = map[key]float64{}
			pairs("after vacuum", true)
			if h.arena == nil {
				cs.Fail("harness: index created with an arena directory has no arena")
			}
			for _, iid := range deadIID {
				h.arena.FreeSlot(iid)
			}
			st0 := h.arena.GetState()
			ac := mmap.NewAsyncCompactor(h.arena, mmap.ArenaCompactionConfig{Enabled: true, Interval: time.Hour, Threshold: 0, BatchSize: 100, BatchDelay: time.Nanosecond})
			ac.SetNodeUpdater(h)
			cs.Op("RunCycle of a compactor whose NodePointerUpdater is the index")
			ac.RunCycle()
			st1 := h.arena.GetState()
			moved := 0
			for i := range st0.SlotTable {
				if i < len(st1.SlotTable) && st0.SlotTable[i] != st1.SlotTable[i] {
					moved++
				}
			}
			ctx.Count("hnsw.relocations", int64(moved))
			check := func(when string) {
				for _, id := range x.ids {
					nd, ok := h.GetNodeData(id)
					if !ok {
						cs.Fail("%s: GetNodeData(%s) of a live vector: not found", when, id)
					}
					for i := range nd.Vector {
						if math.Float32bits(nd.Vector[i]) != math.Float32bits(want[id][i]) {
							cs.Fail("%s: %s/%s dim %d: GetNodeData(%s)[%d] = %v, was %v before the relocation", when, c.m, c.p, dim, id, i, nd.Vector[i], want[id][i])
						}
					}
					ctx.Count("hnsw.vectors_checked_after_relocation", 1)
				}
				pairs(when, false)
			}
			check(fmt.Sprintf("after RunCycle (%d vectors relocated)", moved))
			// new vectors take the slots the relocated ones left
			k := r.Range(1, len(dead)+2)
			cs.Op("Add %d new vectors (slot reuse)", k)
			for i := 0; i < k; i++ {
				id := fmt.Sprintf("x%03d", i)
				if _, err := h.Add(id, c18hVec(r, dim, scale)); err != nil {
					cs.Fail("Add(%s): %v", id, err)
				}
			}
			check(fmt.Sprintf("after RunCycle (%d vectors relocated) and %d new vectors", moved, k))
			ctx.Eval(1)
			if moved > 0 {
				ctx.Distinct(fmt.Sprintf("hnsw/%s/%s/%d/%d", c.m, c.p, dim, cs.Idx))
			}
		})
	})
}

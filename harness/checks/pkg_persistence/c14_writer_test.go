package persistence_test

import (
	"bufio"
	"bytes"
	"fmt"
	"os"
	"path/filepath"
	"sync"
	"sync/atomic"
	"testing"
	"time"

	"github.com/sanonone/kektordb/internal/zzverif/vkit"
	"github.com/sanonone/kektordb/pkg/persistence"
	"github.com/sanonone/kektordb/pkg/verifhook"
)

// readPayloads returns the set of SET-command keys present in a framed log file.
func c14ReadKeys(path string) (map[string]bool, error) {
	f, err := os.Open(path)
	if err != nil {
		return nil, err
	}
	defer f.Close()
	r := bufio.NewReader(f)
	out := map[string]bool{}
	for {
		payload, _, err := persistence.ReadFrame(r)
		if err != nil {
			break
		}
		cmd, err := persistence.ParseCommand(bufio.NewReader(bytes.NewReader(payload)))
		if err != nil {
			return out, fmt.Errorf("unparseable frame in log: %v", err)
		}
		if len(cmd.Args) > 0 {
			out[string(cmd.Args[0])] = true
		}
	}
	return out, nil
}

// TestVerifC14Writer checks the Flush / Sync / Close / snapshot-mode contract of the lazy
// writer: a control call covers every Write that returned before the call was issued.
// "Before" is decided by one atomic counter at the client boundary, never by the clock.
func TestVerifC14Writer(t *testing.T) {
	vkit.Run(t, "C14", func(ctx *vkit.Ctx) {
		ctx.Group("writer", ctx.N(600, 12000), func(cs *vkit.Case) {
			dir := cs.TempDir()
			path := filepath.Join(dir, "w.aof")
			base, err := persistence.NewAOFWriter(path, vkit.Pick(cs.R, []int{0, 64, 4096, 65536}))
			if err != nil {
				cs.Fail("NewAOFWriter: %v", err)
			}
			maxBuf := vkit.Pick(cs.R, []int{1, 8, 1000})
			nw := cs.R.Range(1, 8)
			per := cs.R.Range(5, ctx.N(200, 1500))
			// "under load": in some cases more writes than the write queue holds (16384) against a
			// writer goroutine that flushes entry by entry, so that Write blocks on the full queue
			// while the control call is issued
			full := cs.R.Chance(0.04)
			if full {
				maxBuf, nw, per = 1, 8, cs.R.Range(2200, 4000)
				ctx.Count("writer.queue_overcommitted_cases", 1)
			}
			lw := persistence.NewLazyAOFWriterWithConfig(base, time.Duration(cs.R.Range(1, 200))*time.Millisecond, time.Second, maxBuf)
			mode := vkit.Pick(cs.R, []string{"flush", "sync", "close", "snapshot", "flush_many", "snapshot_close", "snapshot_truncate", "snapshot_replace"})
			cs.Op("writers=%d per=%d mode=%s maxbuf=%d", nw, per, mode, maxBuf)
			var clock atomic.Int64 // logical time: one tick per acknowledged write / control call
			acked := make([][]int64, nw)
			started := make([][]int64, nw) // clock reading taken before the Write call
			var wg sync.WaitGroup
			stop := make(chan struct{})
			for w := 0; w < nw; w++ {
				acked[w] = make([]int64, per)
				started[w] = make([]int64, per)
				wg.Add(1)
				go func(w int) {
					defer wg.Done()
					for i := 0; i < per; i++ {
						select {
						case <-stop:
							return
						default:
						}
						key := fmt.Sprintf("w%d_%d", w, i)
						started[w][i] = clock.Load()
						if err := lw.Write(persistence.FormatCommand("SET", []byte(key), []byte("v"))); err != nil {
							return // writer closed: not acknowledged
						}
						atomic.StoreInt64(&acked[w][i], clock.Add(1))
					}
				}(w)
			}
			type ctl struct {
				kind   string
				issued int64
				keys   map[string]bool
				shadow []string
			}
			var ctls []ctl
			beginReturned := int64(0) // tick taken right after BeginSnapshotMode returned
			nctl := 1
			if mode == "flush_many" {
				nctl = cs.R.Range(3, 12)
			}
			for c := 0; c < nctl; c++ {
				for i := 0; i < cs.R.Range(0, 2000); i++ { // let the writers run for a while (no verdict depends on it)
					_ = clock.Load()
				}
				issued := clock.Add(1)
				var cerr error
				k := mode
				switch mode {
				case "flush", "flush_many":
					cerr = lw.Flush()
				case "sync":
					cerr = lw.Sync()
				case "close":
					cerr = lw.Close()
				case "snapshot", "snapshot_close", "snapshot_truncate", "snapshot_replace":
					cerr = lw.BeginSnapshotMode()
					beginReturned = clock.Add(1)
					k = "snapshot"
				}
				if cerr != nil {
					cs.Fail("%s returned error: %v", k, cerr)
				}
				keys, rerr := c14ReadKeys(path)
				if rerr != nil {
					cs.Fail("%v", rerr)
				}
				ctls = append(ctls, ctl{kind: k, issued: issued, keys: keys})
				ctx.Count("control."+k, 1)
			}
			var shadow []string
			if mode == "snapshot_truncate" || mode == "snapshot_replace" {
				// what SaveSnapshot / RewriteAOF do between Begin and End: the file is truncated /
				// replaced while writes keep arriving; those must go to the shadow buffer, not
				// into the file that is cut
				for i := 0; i < cs.R.Range(0, 3000); i++ {
					_ = clock.Load()
				}
				var cerr error
				if mode == "snapshot_truncate" {
					cerr = lw.Truncate()
				} else {
					repl := filepath.Join(dir, "repl.aof")
					rw, err := persistence.NewAOFWriter(repl, 0)
					if err != nil {
						cs.Fail("NewAOFWriter(replacement): %v", err)
					}
					rw.Write(persistence.FormatCommand("SET", []byte("replacement"), []byte("v")))
					rw.Flush()
					rw.Close()
					cerr = lw.ReplaceWith(repl)
				}
				if cerr != nil {
					cs.Fail("%s: Truncate/ReplaceWith returned error: %v", mode, cerr)
				}
				ctx.Count("control."+mode, 1)
			}
			if mode == "snapshot" || mode == "snapshot_truncate" || mode == "snapshot_replace" {
				// writes acknowledged while snapshot mode is on must come back from EndSnapshotMode
				for i := 0; i < cs.R.Range(0, 3000); i++ {
					_ = clock.Load()
				}
				endIssued := clock.Add(1)
				sh, err := lw.EndSnapshotMode()
				if err != nil {
					cs.Fail("EndSnapshotMode: %v", err)
				}
				shadow = sh
				ctls = append(ctls, ctl{kind: "end_snapshot", issued: endIssued})
			}
			closeIssued := int64(0)
			if mode == "snapshot_close" {
				// shutdown while snapshot mode is on (the snapshot / compaction that switched it
				// on never gets to end it): Close persists every write acknowledged before it,
				// those made during snapshot mode included
				for i := 0; i < cs.R.Range(0, 3000); i++ {
					_ = clock.Load()
				}
				closeIssued = clock.Add(1)
				if err := lw.Close(); err != nil {
					cs.Fail("Close in snapshot mode: %v", err)
				}
				ctx.Count("control.close_in_snapshot_mode", 1)
			}
			close(stop)
			wg.Wait()
			if mode != "close" && mode != "snapshot_close" {
				lw.Close()
			}
			final, _ := c14ReadKeys(path)
			shadowKeys := map[string]bool{}
			for _, s := range shadow {
				cmd, err := persistence.ParseCommand(bufio.NewReader(bytes.NewReader([]byte(s))))
				if err == nil && len(cmd.Args) > 0 {
					shadowKeys[string(cmd.Args[0])] = true
				}
			}
			covered, shadowCovered := 0, 0
			for w := 0; w < nw; w++ {
				for i := 0; i < per; i++ {
					a := atomic.LoadInt64(&acked[w][i])
					if a == 0 {
						continue
					}
					key := fmt.Sprintf("w%d_%d", w, i)
					for _, c := range ctls {
						switch c.kind {
						case "flush", "flush_many", "sync", "close", "snapshot":
							if a < c.issued {
								covered++
								if !c.keys[key] {
									cs.Fail("write %s was acknowledged (tick %d) before %s was issued (tick %d) but is not in the file after it returned", key, a, c.kind, c.issued)
								}
							}
						}
					}
					if mode == "snapshot" || mode == "snapshot_truncate" || mode == "snapshot_replace" {
						begin, end := ctls[0].issued, ctls[len(ctls)-1].issued
						// with a truncate / replace in between, what was in the file before snapshot
						// mode is gone by design: the demand is on the writes INVOKED after
						// BeginSnapshotMode had returned (a write invoked earlier may have reached
						// the file before the switch even if its acknowledgement was recorded later)
						inWindow := started[w][i] >= beginReturned
						if (mode == "snapshot" || inWindow) && a < end && !final[key] && !shadowKeys[key] {
							cs.Fail("write %s invoked (tick %d) after BeginSnapshotMode returned (tick %d) and acknowledged (tick %d) before EndSnapshotMode was issued (tick %d, mode %s) is neither in the file nor in the returned shadow writes", key, started[w][i], beginReturned, a, end, mode)
						}
						if inWindow && a < end {
							shadowCovered++
						}
						if a < begin && shadowKeys[key] && !ctls[0].keys[key] {
							cs.Fail("write %s acknowledged before BeginSnapshotMode drifted into the shadow buffer", key)
						}
					} else if mode == "snapshot_close" {
						if a < closeIssued && !final[key] {
							cs.Fail("write %s acknowledged (tick %d) before Close (tick %d, issued while snapshot mode was on) is not in the file", key, a, closeIssued)
						}
					} else if !final[key] && mode != "close" {
						cs.Fail("write %s acknowledged (tick %d) before the final Close is not in the file", key, a)
					}
				}
			}
			ctx.Count("acked_writes_covered_by_a_control_call", int64(covered))
			ctx.Count("acked_writes_in_snapshot_mode_window", int64(shadowCovered))
			ctx.Eval(1)
			if covered > 0 {
				ctx.Distinct(fmt.Sprintf("%s/%d/%d/%d/%v", mode, nw, per/50, covered/100, full))
			}
			ctx.Sample("case", 3, map[string]any{"mode": mode, "writers": nw, "writes_per_writer": per, "covered": covered})
		})
	})
}

// TestVerifC14WriterBacklog forces the schedule the free-running group rarely produces: a
// control call that the writer goroutine picks up while acknowledged writes still sit in its
// queue. The writer goroutine is parked at its flush point (hook lazy.flushed); meanwhile N
// writes are acknowledged and the control call is issued; then the goroutine is released and
// chooses between the queue and the call. Whatever it chooses, every one of the N writes was
// acknowledged before the call was issued and must be in the file when the call returns (for
// BeginSnapshotMode: in the file, not in the shadow buffer).
func TestVerifC14WriterBacklog(t *testing.T) {
	vkit.Run(t, "C14", func(ctx *vkit.Ctx) {
		ctx.Group("backlog", ctx.N(200, 4000), func(cs *vkit.Case) {
			defer verifhook.Reset()
			dir := cs.TempDir()
			path := filepath.Join(dir, "w.aof")
			base, err := persistence.NewAOFWriter(path, vkit.Pick(cs.R, []int{0, 64, 4096, 65536}))
			if err != nil {
				cs.Fail("NewAOFWriter: %v", err)
			}
			// no ticker flush and no size-triggered flush can interfere within the case
			lw := persistence.NewLazyAOFWriterWithConfig(base, time.Hour, time.Hour, 1<<20)
			mode := []string{"flush", "sync", "close", "snapshot"}[cs.Idx%4]
			n := cs.R.Range(1, 400)
			cs.Op("mode=%s backlog=%d", mode, n)
			parked := make(chan struct{})
			release := make(chan struct{})
			var once sync.Once
			verifhook.Set("lazy.flushed", func(string, any) {
				first := false
				once.Do(func() { first = true })
				if first {
					close(parked)
					<-release
				}
			})
			if err := lw.Write(persistence.FormatCommand("SET", []byte("first"), []byte("v"))); err != nil {
				cs.Fail("Write: %v", err)
			}
			flushed := make(chan error, 1)
			go func() { flushed <- lw.Flush() }()
			select {
			case <-parked:
			case <-time.After(20 * time.Second):
				ctx.Inconclusive("the writer goroutine did not reach its flush point")
				close(release)
				return
			}
			for i := 0; i < n; i++ {
				if err := lw.Write(persistence.FormatCommand("SET", []byte(fmt.Sprintf("b%d", i)), []byte("v"))); err != nil {
					cs.Fail("Write %d while the writer goroutine is busy: %v", i, err)
				}
			}
			done := make(chan error, 1)
			go func() {
				switch mode {
				case "flush":
					done <- lw.Flush()
				case "sync":
					done <- lw.Sync()
				case "close":
					done <- lw.Close()
				case "snapshot":
					done <- lw.BeginSnapshotMode()
				}
			}()
			time.Sleep(time.Duration(cs.R.Range(0, 3)) * time.Millisecond) // lets the call reach the command channel; no verdict depends on it
			close(release)
			if err := <-flushed; err != nil {
				cs.Fail("Flush: %v", err)
			}
			if err := <-done; err != nil {
				cs.Fail("%s returned error: %v", mode, err)
			}
			keys, rerr := c14ReadKeys(path)
			if rerr != nil {
				cs.Fail("%v", rerr)
			}
			missing := 0
			for i := 0; i < n; i++ {
				if !keys[fmt.Sprintf("b%d", i)] {
					missing++
				}
			}
			if missing > 0 {
				cs.Fail("%d of %d writes acknowledged before %s was issued are not in the file after it returned", missing, n, mode)
			}
			if mode == "snapshot" {
				sh, err := lw.EndSnapshotMode()
				if err != nil {
					cs.Fail("EndSnapshotMode: %v", err)
				}
				if len(sh) != 0 {
					cs.Fail("%d writes acknowledged before BeginSnapshotMode drifted into the shadow buffer", len(sh))
				}
			}
			if mode != "close" {
				lw.Close()
			}
			ctx.Count("backlog."+mode, 1)
			ctx.Count("backlog.writes_covered", int64(n))
			ctx.Eval(1)
			ctx.Distinct(fmt.Sprintf("backlog/%s/%d", mode, n/8))
		})
	})
}

package rag_test

// C20 (adaptive retrieval part) — RetrieveWithContext over a stub store: never above the
// token budget, never deeper than the depth limit, no further expansion once the node cap
// is reached, no chunk twice, terminates on cyclic graphs.

import (
	"errors"
	"fmt"
	"runtime/debug"
	"sort"
	"strings"
	"testing"
	"unicode/utf8"

	"github.com/sanonone/kektordb/internal/zzverif/vkit"
	"github.com/sanonone/kektordb/pkg/core"
	"github.com/sanonone/kektordb/pkg/engine"
	"github.com/sanonone/kektordb/pkg/rag"
)

const c20MaxRelCalls = 1_000_000

var c20DefaultRelations = []string{"next", "prev", "parent", "child", "mentions", "related_to"}
var c20RelUniverse = []string{"next", "prev", "parent", "child", "mentions", "related_to", "x_custom", "blocked"}

type c20Abort struct{ calls int }

// c20Store is the stub AdaptiveStore. It serves a generated chunk graph, counts calls and
// watches the node cap from the outside: "discovered" = distinct non-seed nodes that the
// retriever has been told about through relations it is allowed to follow.
type c20Store struct {
	nodes     map[string]core.VectorData
	rels      map[string]map[string][]string
	seeds     []string
	searchErr bool

	allowed    map[string]bool
	cap        int
	returned   []string // what VSearch handed out
	seedSet    map[string]bool
	discovered map[string]bool
	relCalls   int
	getCalls   int
	searches   int
	afterCap   int    // VGetRelations calls issued although the cap had been reached
	capWitness string // first such call
	capReached bool
}

func (s *c20Store) VSearch(indexName string, query []float32, k int, filter string, text string, ef int, alpha float64, gq *engine.GraphQuery) ([]string, error) {
	s.searches++
	if s.searchErr {
		return nil, errors.New("stub: search failed")
	}
	n := len(s.seeds)
	if k < n {
		n = k
	}
	if n < 0 {
		n = 0
	}
	s.returned = append([]string{}, s.seeds[:n]...)
	for _, id := range s.returned {
		s.seedSet[id] = true
	}
	return append([]string{}, s.returned...), nil
}

func (s *c20Store) VGetRelations(indexName, src string) map[string][]string {
	s.relCalls++
	if s.relCalls > c20MaxRelCalls {
		panic(c20Abort{s.relCalls})
	}
	if len(s.discovered) >= s.cap {
		s.afterCap++
		if s.capWitness == "" {
			s.capWitness = fmt.Sprintf("VGetRelations call #%d (node %q) was issued although %d distinct nodes had already been discovered by expansion (MaxExpansionNodes=%d)", s.relCalls, src, len(s.discovered), s.cap)
		}
	}
	rm := s.rels[src]
	for rel, ts := range rm {
		if !s.allowed[rel] {
			continue
		}
		for _, t := range ts {
			if !s.seedSet[t] {
				s.discovered[t] = true
			}
		}
	}
	if len(s.discovered) >= s.cap {
		s.capReached = true
	}
	return rm
}

func (s *c20Store) VGet(indexName, id string) (core.VectorData, error) {
	s.getCalls++
	d, ok := s.nodes[id]
	if !ok {
		return core.VectorData{}, errors.New("stub: not found")
	}
	return d, nil
}

// c20Graph is the generated scenario.
type c20Graph struct {
	Shapes []string
	N      int
	store  *c20Store
	cfg    rag.AdaptiveContextConfig
	k      int
	edges  int
	cyclic bool
	hub    bool
}

func (g *c20Graph) link(a, rel, b string) {
	m := g.store.rels[a]
	if m == nil {
		m = map[string][]string{}
		g.store.rels[a] = m
	}
	m[rel] = append(m[rel], b)
	g.edges++
}

func c20Content(r *vkit.Rand) string {
	var n int
	switch r.Intn(10) {
	case 0:
		return ""
	case 1, 2:
		n = r.Range(1, 8) // estimates that round down to 0 tokens
	case 3, 4, 5, 6:
		n = r.Range(8, 400)
	case 7, 8:
		n = r.Range(400, 2000)
	default:
		n = r.Range(2000, 5000)
	}
	var s string
	switch r.Intn(4) {
	case 0: // low density: one word repeated
		w := c20Word(r, 0) + " "
		s = strings.Repeat(w, n/len(w)+1)
	case 1:
		s = c20Text(r, vkit.Pick(r, []string{"italian", "cjk", "emoji", "mixed"}), n/5+1)
	default:
		s = c20Text(r, "english", n/6+1)
	}
	if len(s) > n {
		s = s[:n]
	}
	return s
}

func c20GenGraph(r *vkit.Rand, hubOK bool) *c20Graph {
	g := &c20Graph{store: &c20Store{
		nodes: map[string]core.VectorData{}, rels: map[string]map[string][]string{},
		seedSet: map[string]bool{}, discovered: map[string]bool{}, allowed: map[string]bool{},
	}}
	n := r.Range(1, 40)
	if r.Chance(0.1) {
		n = r.Range(40, 300)
	}
	ids := make([]string, n)
	for i := range ids {
		ids[i] = fmt.Sprintf("c%d", i)
	}
	rel := func() string {
		if r.Chance(0.75) {
			return vkit.Pick(r, c20DefaultRelations)
		}
		return vkit.Pick(r, c20RelUniverse)
	}
	sub := func() []string { // a random contiguous or scattered subset, at least 1 node
		m := r.Range(1, len(ids))
		p := r.Perm(len(ids))[:m]
		if r.Chance(0.5) {
			sort.Ints(p)
		}
		out := make([]string, m)
		for i, x := range p {
			out[i] = ids[x]
		}
		return out
	}
	nshapes := r.Range(1, 3)
	for s := 0; s < nshapes; s++ {
		shape := vkit.Pick(r, []string{"chain", "cycle", "selfloop", "hub", "disconnected", "random", "complete", "tree", "bidir-chain", "dangling"})
		if shape == "hub" && !hubOK {
			shape = "cycle"
		}
		g.Shapes = append(g.Shapes, shape)
		switch shape {
		case "chain":
			ns := sub()
			rl := rel()
			for i := 0; i+1 < len(ns); i++ {
				g.link(ns[i], rl, ns[i+1])
			}
		case "bidir-chain":
			ns := sub()
			for i := 0; i+1 < len(ns); i++ {
				g.link(ns[i], "next", ns[i+1])
				g.link(ns[i+1], "prev", ns[i])
			}
			g.cyclic = g.cyclic || len(ns) > 1
		case "cycle":
			ns := sub()
			rl := rel()
			for i := range ns {
				g.link(ns[i], rl, ns[(i+1)%len(ns)])
			}
			g.cyclic = true
		case "selfloop":
			for _, a := range sub() {
				g.link(a, rel(), a)
				if r.Chance(0.3) {
					g.link(a, rel(), a) // parallel self-loop
				}
			}
			g.cyclic = true
		case "hub": // degree 500, spokes are extra nodes; some spokes link back / onwards
			c := vkit.Pick(r, ids)
			rl := rel()
			base := len(ids)
			for i := 0; i < 500; i++ {
				id := fmt.Sprintf("h%d_%d", s, i)
				ids = append(ids, id)
				r2 := rl
				if r.Chance(0.1) {
					r2 = rel()
				}
				g.link(c, r2, id)
				if r.Chance(0.2) {
					g.link(id, rel(), c)
					g.cyclic = true
				}
				if r.Chance(0.1) {
					g.link(id, rel(), ids[r.Intn(len(ids))])
				}
			}
			_ = base
			g.hub = true
		case "disconnected": // nothing to add: seeds will fall into separate components
		case "random":
			m := r.Range(1, 3*len(ids))
			for i := 0; i < m; i++ {
				g.link(vkit.Pick(r, ids), rel(), vkit.Pick(r, ids))
			}
			g.cyclic = true // almost surely; only used for bookkeeping
		case "complete":
			ns := sub()
			if len(ns) > 12 {
				ns = ns[:12]
			}
			for _, a := range ns {
				for _, b := range ns {
					g.link(a, rel(), b)
				}
			}
			g.cyclic = true
		case "tree":
			ns := sub()
			for i := 1; i < len(ns); i++ {
				p := ns[(i-1)/2]
				g.link(p, "child", ns[i])
				if r.Chance(0.7) {
					g.link(ns[i], "parent", p)
					g.cyclic = true
				}
			}
		case "dangling": // edges to ids that have no stored chunk
			for _, a := range sub() {
				g.link(a, rel(), fmt.Sprintf("ghost%d", r.Intn(5)))
			}
		}
	}
	g.N = len(ids)
	// chunk records
	ndocs := r.Range(1, 4)
	for i, id := range ids {
		if r.Chance(0.03) {
			continue // relation target / seed without a stored chunk
		}
		md := map[string]any{}
		switch r.Intn(10) {
		case 0:
			md["text"] = c20Content(r)
		case 1: // no content at all
		default:
			md["content"] = c20Content(r)
		}
		switch r.Intn(6) {
		case 0: // orphan
		case 1:
			md["parent_id"] = ""
		default:
			md["parent_id"] = fmt.Sprintf("doc%d", r.Intn(ndocs))
		}
		switch r.Intn(5) {
		case 0:
		case 1:
			md["chunk_index"] = float64(i)
		case 2:
			md["chunk_index"] = fmt.Sprintf("%d", r.Intn(50))
		default:
			md["chunk_index"] = r.Intn(50)
		}
		g.store.nodes[id] = core.VectorData{ID: id, Vector: []float32{1, 0}, Metadata: md}
	}
	// seeds: distinct ids (a search never returns an id twice)
	ns := r.Range(1, 10)
	if ns > len(ids) {
		ns = len(ids)
	}
	for _, x := range r.Perm(len(ids))[:ns] {
		g.store.seeds = append(g.store.seeds, ids[x])
	}
	g.k = r.Range(1, 12)
	g.store.searchErr = r.Chance(0.01)

	// configuration
	c := rag.AdaptiveContextConfig{}
	c.MaxTokens = vkit.Pick(r, []int{0, 1, 2, 5, 20, 50, 120, 300, 1000, 4096, 100000})
	if r.Chance(0.3) {
		c.MaxTokens = r.Range(1, 3000)
	}
	c.CharsPerToken = vkit.Pick(r, []float64{0, 0.5, 1, 2.5, 3.7, 4, 4, 16})
	c.ExpansionStrategy = vkit.Pick(r, []string{"greedy", "density", "graph", "graph", "graph", "", "bfs?"})
	c.GraphExpansionDepth = r.Range(1, 4)
	if r.Chance(0.05) {
		c.GraphExpansionDepth = 0 // -> 2
	}
	c.MaxExpansionNodes = r.Range(1, 200)
	switch r.Intn(10) {
	case 0:
		c.MaxExpansionNodes = 0 // -> 200
	case 1, 2, 3, 4, 5:
		c.MaxExpansionNodes = r.Range(1, 12)
	}
	switch r.Intn(4) {
	case 0: // defaults
	case 1:
		c.GraphRelations = append([]string{}, c20DefaultRelations...)
	default:
		for _, x := range c20RelUniverse {
			if r.Chance(0.5) {
				c.GraphRelations = append(c.GraphRelations, x)
			}
		}
	}
	if r.Chance(0.7) {
		c.EdgeWeights = map[string]float64{}
		for _, x := range c20RelUniverse {
			if r.Chance(0.6) {
				c.EdgeWeights[x] = vkit.Pick(r, []float64{0, 0.1, 0.4, 0.95, 1, 1.5, -0.5, r.Float64()})
			}
		}
	}
	c.DensityMinRatio = vkit.Pick(r, []float64{0, 0.2, 0.5, 0.9, 1, r.Float64()})
	if !r.Chance(0.2) {
		c.SemanticWeight, c.GraphWeight, c.DensityWeight = r.Float64(), r.Float64(), r.Float64()
		if r.Chance(0.2) {
			c.SemanticWeight = -c.SemanticWeight
		}
		if r.Chance(0.1) {
			c.GraphWeight = 0
		}
	}
	g.cfg = c
	return g
}

// c20Effective resolves the documented defaults of NewAdaptiveRetriever.
func c20Effective(c rag.AdaptiveContextConfig) (maxTok int, cpt float64, depth, cap int, rels []string, strat string) {
	maxTok, cpt, depth, cap, rels = c.MaxTokens, c.CharsPerToken, c.GraphExpansionDepth, c.MaxExpansionNodes, c.GraphRelations
	if maxTok == 0 {
		maxTok = 4096
	}
	if cpt == 0 {
		cpt = 4.0
	}
	if depth == 0 {
		depth = 2
	}
	if cap == 0 {
		cap = 200
	}
	if len(rels) == 0 {
		rels = c20DefaultRelations
	}
	strat = c.ExpansionStrategy
	if strat != "greedy" && strat != "density" {
		strat = "graph"
	}
	return
}

func c20ChunkText(md map[string]any) string {
	if v, ok := md["content"]; ok {
		return v.(string)
	}
	if v, ok := md["text"]; ok {
		return v.(string)
	}
	return ""
}

type c20RetStats struct {
	Selected, RelCalls, Discovered int
	CapReached, BudgetBound        bool
	MaxDist                        int
	CtxTextOver                    bool
}

// c20Retrieve runs the scenario and applies every oracle. knownCap = guard of D-C20-3.
func c20Retrieve(g *c20Graph, knownCap bool) (st c20RetStats, msg string) {
	s := g.store
	maxTok, cpt, depth, cap, rels, strat := c20Effective(g.cfg)
	for _, x := range rels {
		s.allowed[x] = true
	}
	s.cap = cap

	var cw *rag.ContextWindow
	var err error
	func() {
		defer func() {
			if r := recover(); r != nil {
				if a, ok := r.(c20Abort); ok {
					msg = fmt.Sprintf("non-termination witness: RetrieveWithContext issued %d VGetRelations calls on a graph of %d nodes / %d edges (stub aborted the call)", a.calls, g.N, g.edges)
					return
				}
				msg = fmt.Sprintf("panic in RetrieveWithContext: %v\n%s", r, debug.Stack())
			}
		}()
		ar := rag.NewAdaptiveRetriever(s, g.cfg)
		cw, err = ar.RetrieveWithContext("idx", []float32{1, 0}, g.k)
	}()
	st.RelCalls, st.Discovered, st.CapReached = s.relCalls, len(s.discovered), s.capReached
	if msg != "" {
		return
	}
	if s.searchErr {
		if err == nil {
			msg = "the store's search failed but RetrieveWithContext reported success"
		}
		return
	}
	if err != nil || cw == nil {
		msg = fmt.Sprintf("RetrieveWithContext failed on a healthy store: err=%v window=%v", err, cw)
		return
	}

	// reference BFS over allowed relations from the seeds the search returned
	dist := map[string]int{}
	frontier := []string{}
	for _, id := range s.returned {
		if _, ok := dist[id]; !ok {
			dist[id] = 0
			frontier = append(frontier, id)
		}
	}
	for d := 1; d <= depth && len(frontier) > 0; d++ {
		var next []string
		for _, a := range frontier {
			for rel, ts := range s.rels[a] {
				if !s.allowed[rel] {
					continue
				}
				for _, b := range ts {
					if _, ok := dist[b]; !ok {
						dist[b] = d
						next = append(next, b)
					}
				}
			}
		}
		frontier = next
	}

	seen := map[string]bool{}
	sumBytes, sumRunes := 0, 0
	for i, ch := range cw.Chunks {
		if seen[ch.ID] {
			msg = fmt.Sprintf("chunk %q appears twice in the context (position %d of %d)", ch.ID, i, len(cw.Chunks))
			return
		}
		seen[ch.ID] = true
		stored, ok := s.nodes[ch.ID]
		if !ok {
			msg = fmt.Sprintf("context contains chunk %q which the store does not hold", ch.ID)
			return
		}
		d, reach := dist[ch.ID]
		if !reach {
			msg = fmt.Sprintf("selected chunk %q is not within GraphExpansionDepth=%d allowed-relation hops of any seed %v (allowed relations %v, strategy %q)", ch.ID, depth, s.returned, rels, strat)
			return
		}
		if d > st.MaxDist {
			st.MaxDist = d
		}
		txt := c20ChunkText(stored.Metadata)
		sumBytes += int(float64(len(txt)) / cpt)
		sumRunes += int(float64(utf8.RuneCountInString(txt)) / cpt)
	}
	st.Selected = len(cw.Chunks)
	if cw.TotalTokens > maxTok {
		msg = fmt.Sprintf("TotalTokens=%d exceeds MaxTokens=%d (%d chunks selected)", cw.TotalTokens, maxTok, len(cw.Chunks))
		return
	}
	if cw.TotalTokens != sumBytes && cw.TotalTokens != sumRunes {
		msg = fmt.Sprintf("TotalTokens=%d is not the estimate of the %d selected chunks (sum of int(len/CharsPerToken) = %d by bytes, %d by runes; CharsPerToken=%v)", cw.TotalTokens, len(cw.Chunks), sumBytes, sumRunes, cpt)
		return
	}
	if sumRunes > maxTok {
		msg = fmt.Sprintf("recomputed estimate of the selected chunks (%d tokens by runes) exceeds MaxTokens=%d", sumRunes, maxTok)
		return
	}
	// some candidate within reach was left out => the budget (or the density filter) was binding
	for id, d := range dist {
		if _, held := s.nodes[id]; held && !seen[id] && d <= 1 {
			st.BudgetBound = true
			break
		}
	}
	st.CtxTextOver = int(float64(len(cw.ContextText))/cpt) > maxTok

	if s.afterCap > 0 {
		if knownCap && (strat == "greedy" || strat == "density") {
			return // D-C20-3 (known): expandGreedy never looks at MaxExpansionNodes
		}
		msg = fmt.Sprintf("node cap ignored (strategy %q): %s; %d such calls in total", strat, s.capWitness, s.afterCap)
	}
	return
}

func TestVerifC20Adaptive(t *testing.T) {
	vkit.Run(t, "C20", func(ctx *vkit.Ctx) {
		ctx.Assume("a store's VSearch returns each id at most once and at most k ids")
		ctx.Assume("the node cap is read leniently: only nodes discovered by expansion (not the seeds) count towards MaxExpansionNodes")
		ctx.Assume("token estimate of a chunk = int(len(content)/CharsPerToken); byte-based (as implemented) and rune-based sums are both accepted for TotalTokens")

		ctx.Probe("D-C20-3", func(cs *vkit.Case) string {
			// two seeds; the first one is a hub with 10 neighbours; cap 3: after the first
			// expansion 10 >= 3 nodes are discovered, the second expansion must not happen.
			g := &c20Graph{N: 12, store: &c20Store{
				nodes: map[string]core.VectorData{}, rels: map[string]map[string][]string{},
				seedSet: map[string]bool{}, discovered: map[string]bool{}, allowed: map[string]bool{},
			}}
			for _, id := range []string{"s0", "s1"} {
				g.store.nodes[id] = core.VectorData{ID: id, Metadata: map[string]any{"content": "seed chunk"}}
			}
			for i := 0; i < 10; i++ {
				id := fmt.Sprintf("n%d", i)
				g.store.nodes[id] = core.VectorData{ID: id, Metadata: map[string]any{"content": "neighbour chunk"}}
				g.link("s0", "next", id)
			}
			g.link("s1", "next", "n0")
			g.store.seeds = []string{"s0", "s1"}
			g.k = 2
			g.cfg = rag.AdaptiveContextConfig{ExpansionStrategy: "greedy", MaxExpansionNodes: 3, GraphExpansionDepth: 1, MaxTokens: 1000}
			cs.Op("probe greedy seeds=[s0 s1] s0-next->n0..n9 s1-next->n0 MaxExpansionNodes=3")
			_, m := c20Retrieve(g, false)
			return m
		})
		knownCap := ctx.IsKnown("D-C20-3")

		ctx.Group("graphs", ctx.N(2000, 100000), func(cs *vkit.Case) {
			g := c20GenGraph(cs.R, true)
			maxTok, cpt, depth, cap, rels, strat := c20Effective(g.cfg)
			cs.Op("retrieve shapes=%v nodes=%d edges=%d seeds=%v k=%d strategy=%q(%s) depth=%d cap=%d maxTokens=%d charsPerToken=%v relations=%v weights=%v/%v/%v edgeWeights=%v",
				g.Shapes, g.N, g.edges, g.store.seeds, g.k, g.cfg.ExpansionStrategy, strat, depth, cap, maxTok, cpt, rels,
				g.cfg.SemanticWeight, g.cfg.GraphWeight, g.cfg.DensityWeight, g.cfg.EdgeWeights)
			st, msg := c20Retrieve(g, knownCap)
			if msg != "" {
				cs.Attach("config", g.cfg)
				cs.Attach("relations", g.store.rels)
				cs.Attach("seeds_returned", g.store.returned)
				lens := map[string]int{}
				for id, n := range g.store.nodes {
					lens[id] = len(c20ChunkText(n.Metadata))
				}
				cs.Attach("content_bytes", lens)
				cs.Fail("%s", msg)
			}
			ctx.Eval(1)
			ctx.Count("retr.graphs", 1)
			ctx.Count("retr.strategy."+strat, 1)
			ctx.Count("retr.VGetRelations_calls", int64(st.RelCalls))
			ctx.Count("retr.selected_chunks", int64(st.Selected))
			for _, sh := range g.Shapes {
				ctx.Count("retr.shape."+sh, 1)
			}
			if g.store.searchErr {
				ctx.Count("retr.search_error_cases", 1)
				return
			}
			if st.CapReached {
				ctx.Count("retr.cap_reached", 1)
				ctx.Count("retr.cap_reached."+strat, 1)
				if g.store.afterCap > 0 {
					ctx.Count("retr.guard_D-C20-3_calls_after_cap(greedy/density)", int64(g.store.afterCap))
				}
			}
			if st.BudgetBound {
				ctx.Count("retr.candidate_left_out(budget_or_density)", 1)
			}
			if st.MaxDist >= depth {
				ctx.Count("retr.selected_at_depth_limit", 1)
			}
			if st.CtxTextOver {
				ctx.Count("retr.observe.context_text_estimate_above_budget(not_asserted)", 1)
			}
			if st.RelCalls > 0 && st.Selected > 0 && (g.cyclic || g.hub) {
				ctx.Distinct(fmt.Sprintf("retr|%v|%s|d%d|cap%v|bud%v|sel%d|calls%d", g.Shapes, strat, depth, st.CapReached, st.BudgetBound, st.Selected, st.RelCalls))
			}
			ctx.Sample("retrieve", 2, map[string]any{"op": cs.Ops()[len(cs.Ops())-1], "selected": st.Selected, "VGetRelations_calls": st.RelCalls, "cap_reached": st.CapReached})
		})
	})
}

package rag_test

// C20 (splitter part) — document splitting with the built-in strategies is total,
// deterministic, never loses non-whitespace content and never produces a chunk longer than
// the configured size plus overlap.

import (
	"fmt"
	"reflect"
	"runtime/debug"
	"strings"
	"testing"
	"unicode"
	"unicode/utf8"

	"github.com/sanonone/kektordb/internal/zzverif/vkit"
	"github.com/sanonone/kektordb/pkg/rag"
)

type c20SplitCfg struct {
	Strat    string
	Size, Ov int
}

var (
	c20Strats = []string{"recursive", "markdown", "code", "fixed"}
	c20Sizes  = []int{1, 2, 7, 50, 500}
)

// c20Matrix = every built-in strategy × sizes {1,2,7,50,500} × overlaps {0,1,size/2,size-1}
// (duplicates of the overlap set removed): 64 configurations.
func c20Matrix() []c20SplitCfg {
	var out []c20SplitCfg
	for _, st := range c20Strats {
		for _, sz := range c20Sizes {
			seen := map[int]bool{}
			for _, ov := range []int{0, 1, sz / 2, sz - 1} {
				if !seen[ov] {
					seen[ov] = true
					out = append(out, c20SplitCfg{st, sz, ov})
				}
			}
		}
	}
	return out
}

// c20SplitStats are per-case counters flushed once (keeps the evidence mutex out of the hot loop).
type c20SplitStats struct {
	calls, chunks, multi, d19Guarded, d23Guarded, d23Observed, maxChunks int64
}

// c20Seps returns the separators the splitter built for this configuration (exported
// fields of the exported splitter type) split into the non-empty ones and those that
// carry non-whitespace runes.
func c20Seps(sp rag.Splitter) (nonEmpty, nonWS []string) {
	rs, ok := sp.(*rag.RecursiveCharacterSplitter)
	if !ok {
		return nil, nil
	}
	for _, s := range rs.Separators {
		if s == "" {
			continue
		}
		nonEmpty = append(nonEmpty, s)
		if strings.IndexFunc(s, func(c rune) bool { return !unicode.IsSpace(c) }) >= 0 {
			nonWS = append(nonWS, s)
		}
	}
	return
}

// c20NonWSBytes returns the bytes of s that do not belong to a (validly encoded)
// whitespace rune.
func c20NonWSBytes(s string) []byte {
	out := make([]byte, 0, len(s))
	for i := 0; i < len(s); {
		c, n := utf8.DecodeRuneInString(s[i:])
		if !(unicode.IsSpace(c) && (c != utf8.RuneError || n > 1)) {
			out = append(out, s[i:i+n]...)
		}
		i += n
	}
	return out
}

// c20Kept decides "nothing vanished". First reading: the non-whitespace runes of the input
// are a subsequence of the non-whitespace runes of the chunks (each chunk decoded on its
// own). For inputs that are not valid UTF-8 a second reading is accepted as well: dropping
// a whitespace separator can glue two invalid bytes into one valid rune ("\xc3\n\x80" ->
// "\xc3\x80" = "À"); no byte was lost, so the byte sequence of the input's non-whitespace
// runes being a subsequence of the chunks' bytes also counts as kept.
func c20Kept(text string, need []rune, chunks []string) (bool, int, int) {
	have := make([]rune, 0, len(need)+16)
	for _, c := range chunks {
		have = c20NonWS(have, c)
	}
	ok, at := c20Subseq(need, have)
	if ok || utf8.ValidString(text) {
		return ok, at, len(have)
	}
	nb := c20NonWSBytes(text)
	j := 0
	for _, c := range chunks {
		for i := 0; i < len(c) && j < len(nb); i++ {
			if c[i] == nb[j] {
				j++
			}
		}
	}
	return j == len(nb), at, len(have)
}

func c20ContainsAny(text string, seps []string) bool {
	for _, s := range seps {
		if strings.Contains(text, s) {
			return true
		}
	}
	return false
}

// c20SplitOnce runs one (configuration, text) evaluation with every oracle of the
// property. known19/known23 are the generator guards of the recorded findings (false in
// probes: probes always see the full oracle). It returns "" or the violation text.
func c20SplitOnce(cfg c20SplitCfg, text string, needAll []rune, known19, known23 bool, st *c20SplitStats) (msg string) {
	var chunks []string
	defer func() {
		if r := recover(); r != nil {
			msg = fmt.Sprintf("panic in SplitText (strategy=%q size=%d overlap=%d): %v\n%s", cfg.Strat, cfg.Size, cfg.Ov, r, debug.Stack())
		}
	}()
	rcfg := rag.Config{ChunkSize: cfg.Size, ChunkOverlap: cfg.Ov, ChunkingStrategy: cfg.Strat}
	sp := rag.NewSplitterFactory(rcfg)
	chunks = sp.SplitText(text)
	again := rag.NewSplitterFactory(rcfg).SplitText(text)
	st.calls += 2
	st.chunks += int64(len(chunks))
	if int64(len(chunks)) > st.maxChunks {
		st.maxChunks = int64(len(chunks))
	}
	if len(chunks) > 1 {
		st.multi++
	}
	if !(len(chunks) == 0 && len(again) == 0) && !reflect.DeepEqual(chunks, again) {
		return fmt.Sprintf("SplitText is not deterministic (strategy=%q size=%d overlap=%d): first call %d chunks, second call %d chunks", cfg.Strat, cfg.Size, cfg.Ov, len(chunks), len(again))
	}

	// effective settings as documented by NewSplitterFactory: size<=0 -> 500, overlap<0 -> 0
	size, ov := cfg.Size, cfg.Ov
	if size <= 0 {
		size = 500
	}
	if ov < 0 {
		ov = 0
	}
	nonEmpty, nonWS := c20Seps(sp)

	// --- bound: every chunk <= size + overlap runes
	bound := size + ov
	guard23 := known23 && ov > 0 && c20ContainsAny(text, nonEmpty)
	if guard23 {
		// D-C20-2 (known): at every level that has a non-empty separator mergeSplits re-appends
		// the retained overlap tail (<= overlap runes) plus the separator in front of the next
		// piece without re-checking the size. What that mechanism can produce is bounded by
		// max(size, overlap+1) + levels*(overlap + longest separator); anything above is a
		// different violation and is still reported.
		st.d23Guarded++
		maxSep := 0
		for _, s := range nonEmpty {
			if n := c20Runes(s); n > maxSep {
				maxSep = n
			}
		}
		base := size
		if ov+1 > base {
			base = ov + 1
		}
		bound = base + len(nonEmpty)*(ov+maxSep)
	}
	over := false
	for i, c := range chunks {
		n := c20Runes(c)
		if n > size+ov {
			over = true
		}
		if n > bound {
			what := "size+overlap"
			if guard23 {
				what = "even the allowance for known finding D-C20-2"
			}
			return fmt.Sprintf("chunk %d of %d has %d runes > %d (%s; strategy=%q size=%d overlap=%d): %q", i, len(chunks), n, bound, what, cfg.Strat, size, ov, c20Show(c))
		}
	}
	if over {
		st.d23Observed++
	}

	// --- nothing vanishes: non-whitespace runes of the input are a subsequence of the
	// concatenated non-whitespace runes of the chunks (decoded chunk by chunk)
	ok, at, nhave := c20Kept(text, needAll, chunks)
	if ok {
		return ""
	}
	if known19 && len(nonWS) > 0 && c20ContainsAny(text, nonWS) {
		// D-C20-1 (known): occurrences of the separators "\nfunc", "\ntype", "\nclass",
		// "\n## ", "\n### " are consumed by strings.Split and not restored at chunk
		// boundaries. Guard: only those separator occurrences themselves may vanish; every
		// other non-whitespace rune is still demanded.
		st.d19Guarded++
		reduced := text
		for _, s := range nonWS {
			reduced = strings.ReplaceAll(reduced, s, " ")
		}
		need := c20NonWS(nil, reduced)
		if ok2, at2, _ := c20Kept(reduced, need, chunks); !ok2 {
			return fmt.Sprintf("content lost beyond known finding D-C20-1 (strategy=%q size=%d overlap=%d): non-whitespace rune #%d %q of the input (separator occurrences removed) is missing from the chunks; %d chunks", cfg.Strat, size, ov, at2, string(need[at2]), len(chunks))
		}
		return ""
	}
	return fmt.Sprintf("content lost (strategy=%q size=%d overlap=%d): non-whitespace rune #%d %q of the input is missing from the chunks (input has %d non-whitespace runes, chunks have %d); %d chunks, first chunks %q", cfg.Strat, size, ov, at, string(needAll[at]), len(needAll), nhave, len(chunks), c20Head(chunks))
}

func c20Head(ch []string) []string {
	if len(ch) > 6 {
		ch = ch[:6]
	}
	out := make([]string, len(ch))
	for i, c := range ch {
		out[i] = c20Show(c)
	}
	return out
}

func (st *c20SplitStats) flush(ctx *vkit.Ctx) {
	ctx.Count("split.calls", st.calls)
	ctx.Count("split.chunks", st.chunks)
	ctx.Count("split.evals_with_2plus_chunks", st.multi)
	if st.d19Guarded > 0 {
		ctx.Count("split.guard_D-C20-1_applied(separator_text_lost)", st.d19Guarded)
	}
	if st.d23Guarded > 0 {
		ctx.Count("split.guard_D-C20-2_region(overlap>0,multi-level)", st.d23Guarded)
	}
	if st.d23Observed > 0 {
		ctx.Count("split.chunk_above_size+overlap_observed_under_guard", st.d23Observed)
	}
}

func TestVerifC20Split(t *testing.T) {
	vkit.Run(t, "C20", func(ctx *vkit.Ctx) {
		ctx.Assume("invalid UTF-8 is compared rune-wise the way Go decodes it (each invalid byte = one U+FFFD); chunks are decoded one by one")
		ctx.Assume("effective splitter settings are those documented in NewSplitterFactory (size<=0 -> 500, overlap<0 -> 0)")

		// ---- fixed scenarios of recorded findings (full oracle, no guard)
		ctx.Probe("D-C20-1", func(cs *vkit.Case) string {
			var st c20SplitStats
			for _, p := range []struct {
				cfg  c20SplitCfg
				text string
			}{
				{c20SplitCfg{"code", 4, 0}, "ab\nfunc cd"},
				{c20SplitCfg{"markdown", 3, 0}, "ab\n## cd"},
				{c20SplitCfg{"code", 50, 0}, "\nfunc\nfunc"},
			} {
				cs.Op("probe split %+v %q", p.cfg, p.text)
				if m := c20SplitOnce(p.cfg, p.text, c20NonWS(nil, p.text), false, false, &st); m != "" {
					return fmt.Sprintf("input %q: %s", p.text, m)
				}
			}
			return ""
		})
		ctx.Probe("D-C20-2", func(cs *vkit.Case) string {
			var st c20SplitStats
			for _, p := range []struct {
				cfg  c20SplitCfg
				text string
			}{
				{c20SplitCfg{"recursive", 2, 1}, "a bc"},
				{c20SplitCfg{"markdown", 5, 4}, "lyn\n\nlyn ùùare"},
			} {
				cs.Op("probe split %+v %q", p.cfg, p.text)
				if m := c20SplitOnce(p.cfg, p.text, c20NonWS(nil, p.text), false, false, &st); m != "" {
					return fmt.Sprintf("input %q: %s", p.text, m)
				}
			}
			return ""
		})
		k19, k23 := ctx.IsKnown("D-C20-1"), ctx.IsKnown("D-C20-2")

		matrix := c20Matrix()
		run := func(cs *vkit.Case, class, text string, cfgs []c20SplitCfg) {
			cs.Op("split class=%s bytes=%d configs=%d text=%q", class, len(text), len(cfgs), c20Show(text))
			need := c20NonWS(nil, text)
			var st c20SplitStats
			for _, cfg := range cfgs {
				if m := c20SplitOnce(cfg, text, need, k19, k23, &st); m != "" {
					st.flush(ctx)
					cs.Attach("input", text)
					cs.Attach("input_quoted", fmt.Sprintf("%q", text))
					cs.Attach("config", cfg)
					cs.Fail("%s", m)
				}
				ctx.Touch()
			}
			st.flush(ctx)
			ctx.Eval(1)
			ctx.Count("split.strings", 1)
			ctx.Count("split.class."+class, 1)
			if st.multi > 0 && len(need) > 0 {
				ctx.Distinct(fmt.Sprintf("split|%s|%d|%d", class, len(need)/8, st.chunks))
			}
			ctx.Sample("split", 2, map[string]any{"class": class, "text": c20Show(text), "configs": len(cfgs), "chunks_total": st.chunks})
		}

		// 1. every string against the whole matrix
		ctx.Group("split-matrix", ctx.N(5000, 250000), func(cs *vkit.Case) {
			class, text := c20Gen(cs.R, 250)
			run(cs, class, text, matrix)
		})

		// 2. random settings, aliases of the built-in strategies, defaulted settings
		ctx.Group("split-random", ctx.N(2000, 100000), func(cs *vkit.Case) {
			class, text := c20Gen(cs.R, 1500)
			var cfgs []c20SplitCfg
			for i := 0; i < 8; i++ {
				c := c20SplitCfg{Strat: vkit.Pick(cs.R, []string{"recursive", "markdown", "code", "fixed", "md", "go", "python", "", "no-such-strategy"})}
				switch cs.R.Intn(12) {
				case 0:
					c.Size = 0 // -> 500
				case 1:
					c.Size = -3 // -> 500
				case 2, 3, 4:
					c.Size = cs.R.Range(1, 12)
				default:
					c.Size = cs.R.Range(1, 600)
				}
				eff := c.Size
				if eff <= 0 {
					eff = 500
				}
				switch cs.R.Intn(10) {
				case 0:
					c.Ov = -1 // -> 0
				case 1:
					c.Ov = cs.R.Range(eff, 2*eff) // overlap >= size: not rejected by the factory
				default:
					c.Ov = cs.R.Range(0, eff-1)
				}
				cfgs = append(cfgs, c)
			}
			run(cs, class, text, cfgs)
		})

		// 3. the very large inputs (100 KB word, 200 KB text) against a few configurations whose
		// output stays below ~3·10^6 runes
		ctx.Group("split-huge", ctx.N(24, 600), func(cs *vkit.Case) {
			class, text := c20Huge(cs.R)
			var cfgs []c20SplitCfg
			for i := 0; i < 4; i++ {
				sz := vkit.Pick(cs.R, c20Sizes)
				ov := vkit.Pick(cs.R, []int{0, 1, sz / 2})
				if sz <= 7 && cs.R.Chance(0.5) {
					ov = sz - 1
				}
				if ov >= sz && sz > 1 {
					ov = sz - 1
				}
				cfgs = append(cfgs, c20SplitCfg{vkit.Pick(cs.R, c20Strats), sz, ov})
			}
			run(cs, class, text, cfgs)
			ctx.Count("split.huge_inputs", 1)
		})
	})
}

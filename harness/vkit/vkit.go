// Package vkit is the shared base of the kektordb runtime monitors: seeded PRNG,
// case scheduling (sharding / single-case replay), operation logging, violation and
// evidence writers. It has no dependency on kektordb packages so it can be imported
// from white-box test files injected into any package.
package vkit

import (
	"encoding/json"
	"fmt"
	"hash/fnv"
	"io"
	"log"
	"log/slog"
	"math/rand/v2"
	"os"
	"path/filepath"
	"runtime"
	"runtime/debug"
	"sort"
	"strconv"
	"strings"
	"sync"
	"sync/atomic"
	"syscall"
	"testing"
	"time"
)

// KnownEntry mirrors one record of /verif/known_findings.json.
type KnownEntry struct {
	ID       string `json:"id"`
	Property string `json:"property"`
	Status   string `json:"status"` // "known" | "fixed"
	Commit   string `json:"commit,omitempty"`
	What     string `json:"what"`
}

type Ctx struct {
	Prop    string
	Tier    string
	Seed    int64
	Shard   int
	NShards int
	Out     string
	OnlyGrp string // replay: run only this group/case
	OnlyIdx int

	T *testing.T

	mu           sync.Mutex
	evals        int64
	distinct     map[uint64]struct{}
	counters     map[string]int64
	samples      []any
	sampleKeys   map[string]int
	violations   []map[string]any
	known        map[string]KnownEntry
	knownHits    map[string]string
	knownMiss    map[string]string
	inconclusive []string
	assumptions  []string
	opsLog       *os.File
	start        time.Time
	caseSeq      map[string]int
	progress     atomic.Int64
	curCase      atomic.Value // string
	curOps       atomic.Value // []string snapshot (last ops)
}

type failSentinel struct{}

// Quiet silences the product's logging (it logs every search at Info level).
func Quiet() {
	slog.SetDefault(slog.New(slog.NewTextHandler(io.Discard, nil)))
	log.SetOutput(io.Discard)
}

func envInt(name string, def int64) int64 {
	if v := os.Getenv(name); v != "" {
		if n, err := strconv.ParseInt(v, 10, 64); err == nil {
			return n
		}
	}
	return def
}

// Run is the entry point used by every TestVerif* function.
func Run(t *testing.T, prop string, body func(ctx *Ctx)) {
	Quiet()
	ctx := &Ctx{
		Prop: prop, T: t,
		Tier:       os.Getenv("VERIF_TIER"),
		Seed:       envInt("VERIF_SEED", 1),
		Out:        os.Getenv("VERIF_OUT"),
		NShards:    1,
		OnlyIdx:    -1,
		distinct:   map[uint64]struct{}{},
		counters:   map[string]int64{},
		sampleKeys: map[string]int{},
		known:      map[string]KnownEntry{},
		knownHits:  map[string]string{},
		knownMiss:  map[string]string{},
		caseSeq:    map[string]int{},
		start:      time.Now(),
	}
	if ctx.Tier == "" {
		ctx.Tier = "quick"
	}
	if sh := os.Getenv("VERIF_SHARD"); sh != "" {
		fmt.Sscanf(sh, "%d/%d", &ctx.Shard, &ctx.NShards)
		if ctx.NShards < 1 {
			ctx.NShards = 1
		}
	}
	if ctx.Out == "" {
		d, _ := os.MkdirTemp("", "verif-out-")
		ctx.Out = d
	}
	os.MkdirAll(ctx.Out, 0o755)
	if c := os.Getenv("VERIF_CASE"); c != "" { // "<group>/<idx>"
		i := strings.LastIndex(c, "/")
		if i > 0 {
			ctx.OnlyGrp = c[:i]
			n, _ := strconv.Atoi(c[i+1:])
			ctx.OnlyIdx = n
		}
	}
	if kp := os.Getenv("VERIF_KNOWN"); kp != "" {
		if b, err := os.ReadFile(kp); err == nil {
			var doc struct {
				Findings []KnownEntry `json:"findings"`
			}
			if json.Unmarshal(b, &doc) == nil {
				for _, k := range doc.Findings {
					ctx.known[k.ID] = k
				}
			}
		}
	}
	f, err := os.OpenFile(filepath.Join(ctx.Out, fmt.Sprintf("ops-%d.log", ctx.Shard)), os.O_CREATE|os.O_WRONLY|os.O_TRUNC, 0o644)
	if err == nil {
		ctx.opsLog = f
		defer f.Close()
	}
	debug.SetGCPercent(200)
	stop := make(chan struct{})
	go ctx.watchdog(stop)
	body(ctx)
	close(stop)
	ctx.writeResult()
}

// Touch tells the watchdog that the check is making progress (Op, Eval and Count call it).
func (c *Ctx) Touch() { c.progress.Add(1) }

// watchdog implements the hang rule of DESIGN.md section 1: a stall is a violation only
// with a witness in the goroutine dump (goroutines parked on locks/channels inside
// kektordb frames, or still running inside kektordb code); otherwise it is inconclusive.
func (c *Ctx) watchdog(stop chan struct{}) {
	stall := time.Duration(envInt("VERIF_STALL_S", 120)) * time.Second
	giveUp := time.Duration(envInt("VERIF_GIVEUP_S", 1800)) * time.Second
	last := c.progress.Load()
	lastChange := time.Now()
	cpuAtChange := processCPU()
	tick := time.NewTicker(time.Second)
	defer tick.Stop()
	for {
		select {
		case <-stop:
			return
		case <-tick.C:
		}
		if p := c.progress.Load(); p != last {
			last, lastChange, cpuAtChange = p, time.Now(), processCPU()
			continue
		}
		idle := time.Since(lastChange)
		if idle < stall {
			continue
		}
		// The machine may simply be overloaded: wall-clock alone never decides. A deadlock
		// needs blocked kektordb goroutines and nothing runnable; a spin needs the process
		// to have burnt CPU for (almost) the whole stall window without progress.
		dump := DumpGoroutines()
		class, frames := ClassifyDump(dump)
		cpu := processCPU() - cpuAtChange
		verdict := ""
		switch {
		case strings.HasPrefix(class, "deadlock"):
			verdict = class
		case strings.HasPrefix(class, "spin") && cpu >= stall*8/10:
			// A busy process is not yet a spinning goroutine (garbage collection under memory
			// pressure, an overloaded machine): the same kektordb function must be found
			// executing in three dumps taken a few seconds apart.
			same := map[string]int{}
			for _, f := range frames {
				same[f] = 1
			}
			for round := 0; round < 2; round++ {
				time.Sleep(3 * time.Second)
				_, fr := ClassifyDump(DumpGoroutines())
				seen := map[string]bool{}
				for _, f := range fr {
					seen[f] = true
				}
				for f := range same {
					if seen[f] {
						same[f]++
					}
				}
			}
			var stuck []string
			for f, n := range same {
				if n == 3 {
					stuck = append(stuck, f)
				}
			}
			if len(stuck) > 0 && c.progress.Load() == last {
				sort.Strings(stuck)
				frames = stuck
				verdict = fmt.Sprintf("%s; process used %v CPU without progress", class, cpu.Round(time.Second))
			}
		}
		if verdict == "" && idle < giveUp {
			continue // starved or slow: keep waiting
		}
		cur, _ := c.curCase.Load().(string)
		grp, idx := cur, 0
		if i := strings.LastIndex(cur, "/"); i > 0 {
			grp = cur[:i]
			idx, _ = strconv.Atoi(cur[i+1:])
		}
		if verdict != "" {
			c.Violation(grp, idx, fmt.Sprintf("no progress for %v: %s (%s)", idle.Round(time.Second), verdict, strings.Join(frames, " | ")), nil,
				map[string]any{"goroutine_dump": strings.Split(dump, "\n")})
		} else {
			c.Inconclusive(fmt.Sprintf("no progress for %v in case %s without a deadlock or spin witness (cpu used %v)", idle.Round(time.Second), cur, cpu.Round(time.Second)))
		}
		c.writeResult()
		os.Exit(3)
	}
}

func processCPU() time.Duration {
	var ru syscall.Rusage
	if syscall.Getrusage(syscall.RUSAGE_SELF, &ru) != nil {
		return 0
	}
	return time.Duration(ru.Utime.Nano() + ru.Stime.Nano())
}

// ClassifyDump looks for a deadlock / non-termination witness in a goroutine dump.
// "deadlock…": at least one goroutine is parked on a lock/channel inside kektordb code and no
// goroutine is running or runnable inside kektordb or harness code; "spin…": some goroutine is
// running/runnable inside kektordb code (only a witness together with CPU consumption).
func ClassifyDump(dump string) (string, []string) {
	var blocked, running []string
	anyRunnable := false
	for _, g := range strings.Split(dump, "\n\n") {
		lines := strings.Split(g, "\n")
		if len(lines) == 0 || !strings.HasPrefix(lines[0], "goroutine ") {
			continue
		}
		head := lines[0]
		if strings.Contains(g, "vkit.(*Ctx).watchdog") || strings.Contains(g, "vkit.DumpGoroutines") {
			continue
		}
		frame := ""
		harness := false
		for _, l := range lines[1:] {
			if strings.HasPrefix(l, "\t") {
				continue
			}
			if strings.Contains(l, "/zzverif/") || strings.Contains(l, "zz_verif_") || strings.Contains(l, ".TestVerif") {
				harness = true
				continue
			}
			if frame == "" && strings.Contains(l, "github.com/sanonone/kektordb/") {
				frame = strings.TrimSpace(l)
				if i := strings.LastIndex(frame, "("); i > 0 { // cut the argument list only
					frame = frame[:i]
				}
			}
		}
		runnable := strings.Contains(head, "[running") || strings.Contains(head, "[runnable") || strings.Contains(head, "[syscall") || strings.Contains(head, "[sleep") || strings.Contains(head, "[IO wait")
		if runnable && (harness || frame != "") {
			anyRunnable = true
		}
		if frame == "" {
			continue
		}
		switch {
		case strings.Contains(head, "[sync.") || strings.Contains(head, "[semacquire") || strings.Contains(head, "[chan send") || strings.Contains(head, "[chan receive") || strings.Contains(head, "[select"):
			// background loops of the product legitimately sit in select / chan receive
			if strings.Contains(frame, "backgroundTasks") || strings.Contains(frame, ".run") || strings.Contains(frame, "Compactor") || strings.Contains(frame, "Loop") {
				continue
			}
			blocked = append(blocked, frame+" "+head[strings.Index(head, "["):])
		case strings.Contains(head, "[running") || strings.Contains(head, "[runnable"):
			running = append(running, frame)
		}
	}
	if len(blocked) > 0 && !anyRunnable {
		return "deadlock: goroutines blocked inside kektordb and nothing runnable", blocked
	}
	if len(running) > 0 {
		return "spin: goroutine executing inside kektordb", running
	}
	return "", nil
}

func (c *Ctx) Quick() bool { return c.Tier != "thorough" }

// N picks the quick or thorough size.
func (c *Ctx) N(quick, thorough int) int {
	if c.Quick() {
		return quick
	}
	return thorough
}

// IsKnown reports whether finding id is recorded with status "known" (generator guard).
func (c *Ctx) IsKnown(id string) bool {
	k, ok := c.known[id]
	return ok && k.Status == "known" && k.Property == c.Prop
}

func (c *Ctx) Assume(s string) {
	c.mu.Lock()
	defer c.mu.Unlock()
	for _, a := range c.assumptions {
		if a == s {
			return
		}
	}
	c.assumptions = append(c.assumptions, s)
}

func (c *Ctx) Count(name string, n int64) {
	c.progress.Add(1)
	c.mu.Lock()
	c.counters[name] += n
	c.mu.Unlock()
}

func (c *Ctx) Counter(name string) int64 {
	c.mu.Lock()
	defer c.mu.Unlock()
	return c.counters[name]
}

func (c *Ctx) Eval(n int64) {
	c.progress.Add(1)
	c.mu.Lock()
	c.evals += n
	c.mu.Unlock()
}

func hash64(s string) uint64 {
	h := fnv.New64a()
	h.Write([]byte(s))
	return h.Sum64()
}

// Distinct registers a non-trivial case under its distinctness key.
func (c *Ctx) Distinct(key string) {
	h := hash64(key)
	c.mu.Lock()
	c.distinct[h] = struct{}{}
	c.mu.Unlock()
}

// Sample keeps up to max samples per kind.
func (c *Ctx) Sample(kind string, max int, v any) {
	c.mu.Lock()
	defer c.mu.Unlock()
	if c.sampleKeys[kind] >= max {
		return
	}
	c.sampleKeys[kind]++
	c.samples = append(c.samples, map[string]any{"kind": kind, "case": v})
}

func (c *Ctx) Inconclusive(reason string) {
	c.mu.Lock()
	c.inconclusive = append(c.inconclusive, reason)
	c.mu.Unlock()
}

// Violation records a violation with an arbitrary witness and returns the replay path.
func (c *Ctx) Violation(group string, idx int, msg string, ops []string, extra map[string]any) string {
	c.mu.Lock()
	defer c.mu.Unlock()
	n := len(c.violations)
	w := map[string]any{
		"property": c.Prop, "seed": c.Seed, "tier": c.Tier,
		"case": fmt.Sprintf("%s/%d", group, idx), "message": msg, "ops": ops,
	}
	for k, v := range extra {
		w[k] = v
	}
	path := filepath.Join(c.Out, fmt.Sprintf("violation-%d-%d.json", c.Shard, n))
	b, _ := json.MarshalIndent(w, "", " ")
	os.WriteFile(path, b, 0o644)
	w["_path"] = path
	c.violations = append(c.violations, w)
	return path
}

func (c *Ctx) NumViolations() int {
	c.mu.Lock()
	defer c.mu.Unlock()
	return len(c.violations)
}

// Probe runs the fixed scenario of a recorded finding. fn returns "" when the scenario
// behaves correctly, or a description of the failure. A failing probe of a finding listed
// as "known" becomes a KNOWN-FINDING line; a failing probe of a "fixed" (or unlisted)
// finding is an ordinary violation.
func (c *Ctx) Probe(id string, fn func(cs *Case) string) {
	if c.OnlyIdx >= 0 && c.OnlyGrp != "probe:"+id {
		return
	}
	if c.Shard != 0 && c.OnlyIdx < 0 {
		return
	}
	var msg string
	cs := c.newCase("probe:"+id, 0)
	func() {
		defer cs.cleanup()
		defer func() {
			if r := recover(); r != nil {
				if _, ok := r.(failSentinel); ok {
					msg = cs.failMsg
					return
				}
				msg = fmt.Sprintf("panic: %v\n%s", r, debug.Stack())
			}
		}()
		msg = fn(cs)
	}()
	c.Count("probe."+id, 1)
	k, listed := c.known[id]
	if msg == "" {
		if listed && k.Status == "known" {
			c.mu.Lock()
			c.knownMiss[id] = "probe did not reproduce"
			c.mu.Unlock()
		}
		return
	}
	if listed && k.Status == "known" {
		c.mu.Lock()
		c.knownHits[id] = msg
		c.mu.Unlock()
		return
	}
	c.Violation("probe:"+id, 0, msg, cs.ops, nil)
}

// Case is one generated scenario with its own PRNG stream.
type Case struct {
	C       *Ctx
	Group   string
	Idx     int
	R       *Rand
	ops     []string
	tmp     string
	failMsg string
	extra   map[string]any
}

func (c *Ctx) newCase(group string, idx int) *Case {
	s1 := uint64(c.Seed)*0x9E3779B97F4A7C15 + hash64(c.Prop+"/"+group)
	s2 := uint64(idx)*0xD1B54A32D192ED03 + 0x2545F4914F6CDD1D
	return &Case{C: c, Group: group, Idx: idx, R: &Rand{rand.New(rand.NewPCG(s1, s2))}}
}

// Group runs n cases; case i is executed by shard i % NShards. A case that calls Fail (or
// panics) is recorded as a violation; later cases still run.
func (c *Ctx) Group(name string, n int, fn func(cs *Case)) {
	for i := 0; i < n; i++ {
		if c.OnlyIdx >= 0 {
			if c.OnlyGrp != name || c.OnlyIdx != i {
				continue
			}
		} else if i%c.NShards != c.Shard {
			continue
		}
		if c.NumViolations() >= 5 {
			return
		}
		c.RunCase(name, i, fn)
	}
}

func (c *Ctx) RunCase(name string, i int, fn func(cs *Case)) {
	cs := c.newCase(name, i)
	defer cs.cleanup()
	defer func() {
		if r := recover(); r != nil {
			if _, ok := r.(failSentinel); ok {
				c.Violation(name, i, cs.failMsg, cs.ops, cs.extra)
				return
			}
			c.Violation(name, i, fmt.Sprintf("panic: %v\n%s", r, debug.Stack()), cs.ops, cs.extra)
		}
	}()
	if c.opsLog != nil {
		fmt.Fprintf(c.opsLog, "== case %s/%d\n", name, i)
	}
	c.curCase.Store(fmt.Sprintf("%s/%d", name, i))
	c.progress.Add(1)
	fn(cs)
}

func (cs *Case) cleanup() {
	if cs.tmp != "" {
		os.RemoveAll(cs.tmp)
	}
}

// Op logs an operation BEFORE it is executed (the log survives a process-fatal fault).
func (cs *Case) Op(format string, a ...any) {
	cs.C.progress.Add(1)
	s := fmt.Sprintf(format, a...)
	if len(s) > 2000 {
		s = s[:2000] + "…"
	}
	cs.ops = append(cs.ops, s)
	if len(cs.ops) > 4000 {
		cs.ops = cs.ops[len(cs.ops)-3000:]
	}
	if cs.C.opsLog != nil {
		cs.C.opsLog.WriteString(s + "\n")
	}
}

func (cs *Case) Ops() []string { return cs.ops }

// Attach adds structured data to the witness written if this case fails.
func (cs *Case) Attach(key string, v any) {
	if cs.extra == nil {
		cs.extra = map[string]any{}
	}
	cs.extra[key] = v
}

// Fail aborts the case with a violation.
func (cs *Case) Fail(format string, a ...any) {
	cs.failMsg = fmt.Sprintf(format, a...)
	panic(failSentinel{})
}

func (cs *Case) TempDir() string {
	if cs.tmp == "" {
		base := os.Getenv("VERIF_TMP")
		d, err := os.MkdirTemp(base, "vcase-")
		if err != nil {
			panic(err)
		}
		cs.tmp = d
	}
	return cs.tmp
}

// SubDir returns a fresh directory below the case temp dir.
func (cs *Case) SubDir(name string) string {
	p := filepath.Join(cs.TempDir(), name)
	os.MkdirAll(p, 0o755)
	return p
}

func (c *Ctx) writeResult() {
	c.mu.Lock()
	defer c.mu.Unlock()
	hs := make([]uint64, 0, len(c.distinct))
	for h := range c.distinct {
		hs = append(hs, h)
	}
	sort.Slice(hs, func(i, j int) bool { return hs[i] < hs[j] })
	hstr := make([]string, len(hs))
	for i, h := range hs {
		hstr[i] = strconv.FormatUint(h, 36)
	}
	vio := []map[string]any{}
	for _, v := range c.violations {
		vio = append(vio, map[string]any{"path": v["_path"], "message": v["message"], "case": v["case"]})
	}
	res := map[string]any{
		"property": c.Prop, "tier": c.Tier, "seed": c.Seed, "shard": c.Shard, "nshards": c.NShards,
		"evaluations": c.evals, "distinct": hstr, "counters": c.counters, "samples": c.samples,
		"violations": vio, "known_hits": c.knownHits, "known_miss": c.knownMiss,
		"inconclusive": c.inconclusive, "assumptions": c.assumptions,
		"wall_s": time.Since(c.start).Seconds(), "gomaxprocs": runtime.GOMAXPROCS(0),
	}
	b, _ := json.Marshal(res)
	name := fmt.Sprintf("result-%d.json", c.Shard)
	if sfx := os.Getenv("VERIF_RESULT_SUFFIX"); sfx != "" {
		name = fmt.Sprintf("result-%d-%s.json", c.Shard, sfx)
	}
	os.WriteFile(filepath.Join(c.Out, name), b, 0o644)
}

// ---------------------------------------------------------------------------------------

// Rand is a thin helper over math/rand/v2.
type Rand struct{ *rand.Rand }

func NewRand(seed, stream uint64) *Rand { return &Rand{rand.New(rand.NewPCG(seed, stream))} }

func (r *Rand) Intn(n int) int {
	if n <= 0 {
		return 0
	}
	return r.IntN(n)
}
func (r *Rand) Range(lo, hi int) int { // inclusive
	if hi <= lo {
		return lo
	}
	return lo + r.IntN(hi-lo+1)
}
func (r *Rand) Chance(p float64) bool { return r.Float64() < p }
func Pick[T any](r *Rand, xs []T) T   { return xs[r.IntN(len(xs))] }
func (r *Rand) F32() float32          { return float32(r.Float64()*2 - 1) }
func (r *Rand) Bytes(n int) []byte {
	b := make([]byte, n)
	for i := range b {
		b[i] = byte(r.IntN(256))
	}
	return b
}
func (r *Rand) Perm(n int) []int { return r.Rand.Perm(n) }

// DumpGoroutines returns the stacks of all goroutines.
func DumpGoroutines() string {
	buf := make([]byte, 1<<20)
	for {
		n := runtime.Stack(buf, true)
		if n < len(buf) {
			return string(buf[:n])
		}
		buf = make([]byte, 2*len(buf))
	}
}

// JSON renders v compactly for op logs and witnesses.
func JSON(v any) string {
	b, err := json.Marshal(v)
	if err != nil {
		return fmt.Sprintf("%v", v)
	}
	return string(b)
}

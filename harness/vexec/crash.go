package vexec

import (
	"bytes"
	"fmt"
	"reflect"
	"sort"
	"strings"

	"github.com/sanonone/kektordb/pkg/core/hnsw"
	"github.com/sanonone/kektordb/pkg/engine"
)

// ---- per-item comparison of a recovered engine against candidate model states (C02) -------

// versionsMatch reports whether the stored versions of one (source, relation) equal the
// model's versions (pending stamps accept any value inside their bracket). Non-binding.
func versionsMatch(model []*EdgeVer, real []RealEdge) bool {
	if len(model) != len(real) {
		return false
	}
	used := make([]bool, len(real))
	for _, v := range model {
		found := false
		for i, r := range real {
			if used[i] || r.Tgt != v.Target || r.Weight != v.Weight {
				continue
			}
			if v.PropsPred != nil {
				if !v.PropsPred(r.Props) {
					continue
				}
			} else if !propsEqual(r.Props, v.Props) {
				continue
			}
			if v.Created != 0 {
				if r.Created != v.Created {
					continue
				}
			} else if r.Created < v.CLo || r.Created > v.CHi {
				continue
			}
			switch {
			case v.Casc && r.Deleted != 0 && ((v.DHi != 0 && r.Deleted >= v.DLo) || (v.DHi == 0 && r.Deleted >= v.Deleted)):
				// cascade deletion completed by recovery: any stamp not earlier than the original
			case v.DHi != 0:
				if r.Deleted < v.DLo || r.Deleted > v.DHi {
					continue
				}
			case r.Deleted != v.Deleted:
				continue
			}
			used[i], found = true, true
			break
		}
		if !found {
			return false
		}
	}
	return true
}

func maintOf(c IndexCfg) hnsw.AutoMaintenanceConfig {
	if c.Maint != nil {
		return *c.Maint
	}
	return hnsw.DefaultMaintenanceConfig()
}

// Recovered is a read-out of a recovered engine organised by item.
type Recovered struct {
	E       *engine.Engine
	KV      map[string][]byte
	Indexes map[string]bool
	IDs     map[string]map[string]bool // index -> ids listed by the cursor walk
	Edges   map[EdgeKey][]RealEdge
}

func ReadRecovered(e *engine.Engine) *Recovered {
	r := &Recovered{E: e, KV: map[string][]byte{}, Indexes: map[string]bool{}, IDs: map[string]map[string]bool{}, Edges: map[EdgeKey][]RealEdge{}}
	for _, k := range e.DB.GetKVStore().Keys() {
		if v, ok := e.KVGet(k); ok {
			r.KV[k] = v
		}
	}
	for _, n := range e.ListIndexes() {
		r.Indexes[n] = true
		r.IDs[n] = map[string]bool{}
		cur := uint32(0)
		for step := 0; step < 100000; step++ {
			page, next, err := e.VGetIDsByCursor(n, cur, 8)
			if err != nil {
				break
			}
			for _, id := range page {
				r.IDs[n][id] = true
			}
			if next == 0 {
				break
			}
			cur = next
		}
	}
	e.DB.IterateGraphEdges(func(source, target, rel string, weight float32, props []byte, c, d int64) {
		k := EdgeKey{source, rel}
		r.Edges[k] = append(r.Edges[k], RealEdge{Src: source, Tgt: target, Rel: rel, Weight: weight, Props: string(props), Created: c, Deleted: d})
	})
	return r
}

// itemMatches reports whether one item of the recovered engine equals its value in model s.
// Items: "kv:<key>", "idx:<name>", "rec:<index>/<id>", "edges:<src>|<rel>".
func (r *Recovered) itemMatches(item string, s *Model) (bool, string) {
	switch {
	case strings.HasPrefix(item, "kv:"):
		k := item[3:]
		got, ok := r.KV[k]
		want, live := s.KV[k]
		if ok != live {
			return false, fmt.Sprintf("present=%v want present=%v", ok, live)
		}
		if live && !bytes.Equal(got, want) {
			return false, fmt.Sprintf("value %x want %x", got, want)
		}
		return true, ""
	case strings.HasPrefix(item, "idx:"):
		name := item[4:]
		mi := s.Idx[name]
		if r.Indexes[name] != (mi != nil) {
			return false, fmt.Sprintf("exists=%v want %v", r.Indexes[name], mi != nil)
		}
		if mi == nil {
			return true, ""
		}
		info, err := r.E.DB.GetSingleVectorIndexInfoAPI(name)
		if err != nil {
			return false, err.Error()
		}
		c := mi.Cfg
		if info.Metric != c.Metric || info.Precision != c.Prec || info.M != c.M || info.EfConstruction != c.EfC || info.TextLanguage != c.Lang {
			return false, fmt.Sprintf("info %+v want %s/%s M=%d efC=%d lang=%s", info, c.Metric, c.Prec, c.M, c.EfC, c.Lang)
		}
		idx, _ := r.E.DB.GetVectorIndex(name)
		h := idx.(*hnsw.Index)
		if g := h.GetMaintenanceConfig(); cfgJSON(g) != cfgJSON(maintOf(c)) {
			return false, "maintenance config " + cfgJSON(g)
		}
		if g := h.GetAutoLinks(); !(len(g) == 0 && len(c.AutoLinks) == 0) && cfgJSON(g) != cfgJSON(c.AutoLinks) {
			return false, "auto-link rules " + cfgJSON(g)
		}
		wantMem := hnsw.MemoryConfig{}
		if c.Mem != nil {
			wantMem = *c.Mem
		}
		if g := h.GetMemoryConfig(); cfgJSON(g) != cfgJSON(wantMem) {
			return false, "memory config " + cfgJSON(g)
		}
		return true, ""
	case strings.HasPrefix(item, "rec:"):
		p := strings.SplitN(item[4:], "/", 2)
		name, id := p[0], p[1]
		var rec *Rec
		if mi := s.Idx[name]; mi != nil {
			rec = mi.Recs[id]
		}
		d, err := r.E.VGet(name, id)
		listed := r.IDs[name][id]
		if rec == nil {
			if err == nil || listed {
				return false, "record present"
			}
			return true, ""
		}
		if err != nil || !listed {
			return false, fmt.Sprintf("record absent (VGet err=%v, listed=%v)", err, listed)
		}
		info, ierr := r.E.DB.GetSingleVectorIndexInfoAPI(name)
		if ierr != nil {
			return false, ierr.Error()
		}
		cfg := IndexCfg{Metric: info.Metric, Prec: info.Precision}
		var amax float32
		if idx, ok := r.E.DB.GetVectorIndex(name); ok {
			if h, ok := idx.(*hnsw.Index); ok && h.Quantizer() != nil {
				amax = h.Quantizer().Range()
			}
		}
		if ok, why := VecMatch(cfg, rec.Vec, d.Vector, amax); !ok {
			return false, "vector " + why
		}
		g := NormMeta(d.Metadata)
		w := map[string]any{}
		for k, v := range rec.Meta {
			w[k] = v
		}
		for k, br := range rec.Pend {
			v, ok := g[k].(float64)
			if !ok || v < br[0] || v > br[1] {
				return false, fmt.Sprintf("metadata field %s=%v outside [%v,%v]", k, g[k], br[0], br[1])
			}
			w[k] = v
		}
		if !reflect.DeepEqual(g, w) {
			return false, fmt.Sprintf("metadata %s want %s", CanonJSON(g), CanonJSON(w))
		}
		return true, ""
	case strings.HasPrefix(item, "edges:"):
		p := strings.SplitN(item[6:], "|", 2)
		k := EdgeKey{p[0], p[1]}
		if versionsMatch(s.Edges[k], r.Edges[k]) {
			return true, ""
		}
		var got []string
		for _, e := range r.Edges[k] {
			got = append(got, e.String())
		}
		return false, fmt.Sprintf("versions %v", got)
	}
	return false, "unknown item"
}

// Items lists every item mentioned by the recovered engine or by any candidate state.
func (r *Recovered) Items(cands []*Model) []string {
	set := map[string]bool{}
	for k := range r.KV {
		set["kv:"+k] = true
	}
	for n := range r.Indexes {
		set["idx:"+n] = true
		for id := range r.IDs[n] {
			set["rec:"+n+"/"+id] = true
		}
	}
	for k := range r.Edges {
		set["edges:"+k.Src+"|"+k.Rel] = true
	}
	for _, s := range cands {
		for k := range s.KV {
			set["kv:"+k] = true
		}
		for k := range s.SeenKeys {
			set["kv:"+k] = true
		}
		for n := range s.SeenIdx {
			set["idx:"+n] = true
		}
		for n, mi := range s.Idx {
			for id := range mi.Recs {
				set["rec:"+n+"/"+id] = true
			}
		}
		for k := range s.Edges {
			set["edges:"+k.Src+"|"+k.Rel] = true
		}
	}
	out := make([]string, 0, len(set))
	for k := range set {
		out = append(out, k)
	}
	sort.Strings(out)
	return out
}

// Explain checks the C02 oracle: every item of the recovered state must equal its value in
// at least one candidate state (the states the history went through from the durable floor
// to the end of the operation in flight). It returns "" or the first unexplained item, and
// the index of a candidate that explains ALL items at once (-1 if the state is a mixture).
func (r *Recovered) Explain(cands []*Model) (string, int) {
	items := r.Items(cands)
	whole := -1
	for j, s := range cands {
		all := true
		for _, it := range items {
			if ok, _ := r.itemMatches(it, s); !ok {
				all = false
				break
			}
		}
		if all {
			whole = j
			break
		}
	}
	if whole >= 0 {
		return "", whole
	}
	for _, it := range items {
		ok := false
		var why []string
		for j, s := range cands {
			m, w := r.itemMatches(it, s)
			if m {
				ok = true
				break
			}
			why = append(why, fmt.Sprintf("S%d: %s", j, w))
		}
		if !ok {
			return fmt.Sprintf("item %s has a value it never held between its durable floor and the crash: %s", it, strings.Join(why, "; ")), -1
		}
	}
	return "", -1
}

package vexec

import (
	"encoding/hex"
	"fmt"
	"math"
	"sort"
	"strconv"
	"strings"

	"github.com/sanonone/kektordb/pkg/core/distance"
	"github.com/sanonone/kektordb/pkg/core/hnsw"
	"github.com/sanonone/kektordb/pkg/engine"
)

// Obs is a full read-out of an engine through its public API: path -> canonical value.
// Vectors are kept separately so that the comparison can apply the per-precision policy.
type Obs struct {
	Vals map[string]string
	Vecs map[string][]float32
	Cfg  map[string]IndexCfg // metric / precision per index (for the vector policy)
}

// Universe lists the names a read-out probes (everything the history ever mentioned plus
// a few names it never used).
type Universe struct {
	Indexes, IDs, Keys, Nodes, Rels []string
	Times                           []int64 // extra as-of instants for graph history
}

func (m *Model) Universe() Universe {
	u := Universe{
		Indexes: append(sortedKeys(m.SeenIdx), "never_idx"),
		IDs:     append(sortedKeys(m.SeenIDs), "never_id"),
		Keys:    append(sortedKeys(m.SeenKeys), "never_key"),
		Rels:    append(sortedKeys(m.SeenRel), "never_rel"),
	}
	nodes := map[string]bool{}
	for g := range m.SeenNode {
		nodes[g] = true
	}
	for _, ix := range u.Indexes {
		for _, id := range u.IDs {
			nodes[GraphID(ix, id)] = true
		}
	}
	u.Nodes = sortedKeys(nodes)
	u.Times = m.Stamps()
	return u
}

// Observe reads everything the properties name through the engine API.
func Observe(e *engine.Engine, u Universe) *Obs {
	o := &Obs{Vals: map[string]string{}, Vecs: map[string][]float32{}, Cfg: map[string]IndexCfg{}}
	keys := e.DB.GetKVStore().Keys()
	sort.Strings(keys)
	o.Vals["kv.keys"] = strings.Join(keys, ",")
	for _, k := range append(append([]string{}, u.Keys...), keys...) {
		if v, ok := e.KVGet(k); ok {
			o.Vals["kv/"+k] = hex.EncodeToString(v)
		}
	}
	names := e.ListIndexes()
	sort.Strings(names)
	o.Vals["indexes"] = strings.Join(names, ",")
	for _, name := range names {
		info, err := e.DB.GetSingleVectorIndexInfoAPI(name)
		if err != nil {
			o.Vals["idx/"+name+"/info"] = "ERR " + err.Error()
			continue
		}
		o.Vals["idx/"+name+"/info"] = fmt.Sprintf("%s|%s|M=%d|efC=%d|lang=%s|count=%d", info.Metric, info.Precision, info.M, info.EfConstruction, info.TextLanguage, info.VectorCount)
		o.Cfg[name] = IndexCfg{Name: name, Metric: info.Metric, Prec: info.Precision}
		idx, _ := e.DB.GetVectorIndex(name)
		if h, ok := idx.(*hnsw.Index); ok {
			o.Vals["idx/"+name+"/maint"] = cfgJSON(h.GetMaintenanceConfig())
			if al := h.GetAutoLinks(); len(al) > 0 {
				o.Vals["idx/"+name+"/autolinks"] = cfgJSON(al)
			}
			o.Vals["idx/"+name+"/mem"] = cfgJSON(h.GetMemoryConfig())
		}
		var walk []string
		cur := uint32(0)
		for step := 0; step < 100000; step++ {
			page, next, err := e.VGetIDsByCursor(name, cur, 4)
			if err != nil {
				break
			}
			walk = append(walk, page...)
			if next == 0 {
				break
			}
			cur = next
		}
		sort.Strings(walk)
		o.Vals["idx/"+name+"/ids"] = strings.Join(walk, ",")
		ids := map[string]bool{}
		probes, words := map[string]bool{}, map[string]bool{}
		for _, id := range walk {
			ids[id] = true
		}
		for _, id := range u.IDs {
			ids[id] = true
		}
		for _, id := range sortedKeys(ids) {
			d, err := e.VGet(name, id)
			if err != nil {
				continue
			}
			o.Vecs["idx/"+name+"/vec/"+id] = CopyVec(d.Vector) // VGet returns a view into the mmap arena
			o.Vals["idx/"+name+"/meta/"+id] = CanonJSON(NormMeta(d.Metadata))
			collectProbes(probes, words, NormMeta(d.Metadata))
		}
		// reads answered from the secondary indexes (inverted / numeric / text): equality
		// filters on values that occur in the metadata, and text search on words that
		// occur in string fields. Compared before / after like everything else.
		// at most 8 probes per metadata key (a global cap in sorted order would let the
		// alphabetically first keys crowd out the others, and one more value under an early
		// key would shift which probes are evaluated at all)
		perKey := map[string]int{}
		for _, pr := range sortedKeys(probes) {
			k := pr
			if j := strings.Index(pr, " = "); j >= 0 {
				k = pr[:j]
			}
			if perKey[k]++; perKey[k] > 8 {
				continue
			}
			ids, err := e.VFilter(name, pr, 10000)
			if err != nil {
				o.Vals["idx/"+name+"/filter/"+pr] = "ERR " + err.Error()
				continue
			}
			sort.Strings(ids)
			o.Vals["idx/"+name+"/filter/"+pr] = strings.Join(ids, ",")
		}
		if info.TextLanguage != "" {
			for i, w := range sortedKeys(words) {
				if i >= 16 {
					break
				}
				res, _ := e.DB.FindIDsByTextSearch(name, "content", w)
				var parts []string
				if h, ok := idx.(*hnsw.Index); ok {
					for _, r := range res {
						ext, _ := h.GetExternalID(r.DocID)
						parts = append(parts, fmt.Sprintf("%s:%.9g", ext, r.Score))
					}
				}
				sort.Strings(parts)
				o.Vals["idx/"+name+"/text/"+w] = strings.Join(parts, ",")
			}
		}
	}
	// graph: every stored version ...
	var vers []string
	e.DB.IterateGraphEdges(func(source, target, rel string, weight float32, props []byte, c, d int64) {
		vers = append(vers, fmt.Sprintf("%s -[%s w=%v p=%s c=%d d=%d]-> %s", source, rel, weight, normProps(string(props)), c, d, target))
	})
	sort.Strings(vers)
	o.Vals["graph.versions"] = strings.Join(vers, "\n")
	// ... and the API views now and at every history boundary
	times := append([]int64{0}, u.Times...)
	for _, g := range u.Nodes {
		i := strings.Index(g, "::")
		if i < 0 {
			continue
		}
		index, node := g[:i], g[i+2:]
		for _, rel := range u.Rels {
			for _, t := range times {
				if es, ok := e.VGetEdges(index, node, rel, t); ok {
					var s []string
					for _, x := range es {
						s = append(s, fmt.Sprintf("%s|%v|%s|%d|%d", x.TargetID, x.Weight, normProps(string(x.Props)), x.CreatedAt, x.DeletedAt))
					}
					sort.Strings(s)
					o.Vals[fmt.Sprintf("out/%s/%s@%d", g, rel, t)] = strings.Join(s, ";")
				}
				if es, ok := e.VGetIncomingEdges(index, node, rel, t); ok {
					var s []string
					for _, x := range es {
						s = append(s, fmt.Sprintf("%s|%v|%s|%d|%d", x.TargetID, x.Weight, normProps(string(x.Props)), x.CreatedAt, x.DeletedAt))
					}
					sort.Strings(s)
					o.Vals[fmt.Sprintf("in/%s/%s@%d", g, rel, t)] = strings.Join(s, ";")
				}
			}
			if l, ok := e.VGetLinks(index, node, rel); ok && len(l) > 0 {
				sort.Strings(l)
				o.Vals[fmt.Sprintf("links/%s/%s", g, rel)] = strings.Join(l, ",")
			}
			if l, ok := e.VGetIncoming(index, node, rel); ok && len(l) > 0 {
				sort.Strings(l)
				o.Vals[fmt.Sprintf("incoming/%s/%s", g, rel)] = strings.Join(l, ",")
			}
		}
		if r := e.VGetRelations(index, node); len(r) > 0 {
			o.Vals["rels/"+g] = relMapString(r)
		}
		if r := e.VGetIncomingRelations(index, node); len(r) > 0 {
			o.Vals["inrels/"+g] = relMapString(r)
		}
	}
	return o
}

func relMapString(r map[string][]string) string {
	var parts []string
	for _, k := range sortedKeys(r) {
		v := append([]string(nil), r[k]...)
		if len(v) == 0 {
			continue
		}
		sort.Strings(v)
		parts = append(parts, k+"="+strings.Join(v, ","))
	}
	return strings.Join(parts, ";")
}

// Diff compares two read-outs of the same logical state taken before and after a restart.
// Policy (DESIGN 2.5): everything exact; vectors bit-identical except float32/cosine where
// re-normalising a unit vector may move the last bits (relative 1e-6).
func Diff(before, after *Obs) []string {
	var out []string
	keys := map[string]bool{}
	for k := range before.Vals {
		keys[k] = true
	}
	for k := range after.Vals {
		keys[k] = true
	}
	for _, k := range sortedKeys(keys) {
		b, okb := before.Vals[k]
		a, oka := after.Vals[k]
		if okb != oka || a != b {
			if strings.Contains(a, "\n") || strings.Contains(b, "\n") || strings.Count(a, ",") > 8 || strings.Count(b, ",") > 8 {
				out = append(out, fmt.Sprintf("%s: only before=%q only after=%q", k, lineDiff(b, a), lineDiff(a, b)))
				continue
			}
			out = append(out, fmt.Sprintf("%s: before=%q after=%q", k, trunc(b, okb), trunc(a, oka)))
		}
	}
	vk := map[string]bool{}
	for k := range before.Vecs {
		vk[k] = true
	}
	for k := range after.Vecs {
		vk[k] = true
	}
	for _, k := range sortedKeys(vk) {
		b, okb := before.Vecs[k]
		a, oka := after.Vecs[k]
		if okb != oka {
			out = append(out, fmt.Sprintf("%s: present before=%v after=%v", k, okb, oka))
			continue
		}
		parts := strings.Split(k, "/")
		cfg := before.Cfg[parts[1]]
		if !sameVec(cfg, b, a) {
			out = append(out, fmt.Sprintf("%s: before=%v after=%v", k, b, a))
		}
	}
	return out
}

// lineDiff lists the elements (lines, or comma separated items) of x that y lacks,
// counting multiplicity.
func lineDiff(x, y string) []string {
	sep := "\n"
	if !strings.Contains(x, "\n") && !strings.Contains(y, "\n") {
		sep = ","
	}
	cnt := map[string]int{}
	for _, l := range strings.Split(y, sep) {
		cnt[l]++
	}
	var out []string
	for _, l := range strings.Split(x, sep) {
		if cnt[l] > 0 {
			cnt[l]--
			continue
		}
		if len(out) < 12 {
			out = append(out, l)
		}
	}
	return out
}

func trunc(s string, ok bool) string {
	if !ok {
		return "<absent>"
	}
	if len(s) > 600 {
		return s[:600] + "…"
	}
	return s
}

func sameVec(cfg IndexCfg, a, b []float32) bool {
	if len(a) != len(b) {
		return false
	}
	for i := range a {
		if math.Float32bits(a[i]) == math.Float32bits(b[i]) || (a[i] == 0 && b[i] == 0) {
			continue
		}
		if cfg.Prec == distance.Float32 && cfg.Metric == distance.Cosine {
			d := math.Abs(float64(a[i]) - float64(b[i]))
			if d <= 2e-6*math.Max(1e-3, math.Abs(float64(a[i])))+1e-7 {
				continue
			}
		}
		return false
	}
	return true
}

// collectProbes derives equality filters ("key = literal") and text-search words from one
// metadata map: scalars and list elements of every key; words of the "content" field.
func collectProbes(probes, words map[string]bool, meta map[string]any) {
	lit := func(v any) (string, bool) {
		switch x := v.(type) {
		case string:
			if x == "" || strings.ContainsAny(x, "'\"=<>!()") || len(x) > 40 {
				return "", false
			}
			lw := " " + strings.ToLower(x) + " "
			if strings.Contains(lw, " and ") || strings.Contains(lw, " or ") {
				return "", false
			}
			return "'" + x + "'", true
		case float64:
			s := strconv.FormatFloat(x, 'f', -1, 64)
			if len(s) > 18 {
				return "", false
			}
			return s, true
		case bool:
			return strconv.FormatBool(x), true
		}
		return "", false
	}
	for k, v := range meta {
		if strings.HasPrefix(k, "_") || strings.ContainsAny(k, " '\"=<>!") {
			continue
		}
		vals := []any{v}
		if l, ok := v.([]any); ok {
			vals = l
		}
		for _, x := range vals {
			if s, ok := lit(x); ok {
				probes[k+" = "+s] = true
			}
		}
		if k == "content" {
			if str, ok := v.(string); ok {
				for _, w := range strings.Fields(str) {
					if len(w) <= 20 {
						words[strings.ToLower(strings.Trim(w, ".,;:!?\"'()"))] = true
					}
				}
			}
		}
	}
	delete(words, "")
}

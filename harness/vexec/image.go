package vexec

import (
	"io"
	"os"
	"path/filepath"
	"syscall"

	"golang.org/x/sys/unix"
)

// sparseCopyFile copies only the data extents of src (arena files are 64 MB sparse files).
func sparseCopyFile(src, dst string) error {
	in, err := os.Open(src)
	if err != nil {
		return err
	}
	defer in.Close()
	st, err := in.Stat()
	if err != nil {
		return err
	}
	out, err := os.OpenFile(dst, os.O_CREATE|os.O_WRONLY|os.O_TRUNC, st.Mode())
	if err != nil {
		return err
	}
	defer out.Close()
	if err := out.Truncate(st.Size()); err != nil {
		return err
	}
	var off int64
	buf := make([]byte, 1<<16)
	for off < st.Size() {
		ds, err := unix.Seek(int(in.Fd()), off, unix.SEEK_DATA)
		if err != nil {
			break // ENXIO: no more data
		}
		he, err := unix.Seek(int(in.Fd()), ds, unix.SEEK_HOLE)
		if err != nil {
			he = st.Size()
		}
		for p := ds; p < he; {
			n := int64(len(buf))
			if he-p < n {
				n = he - p
			}
			m, err := in.ReadAt(buf[:n], p)
			if m > 0 {
				if _, werr := out.WriteAt(buf[:m], p); werr != nil {
					return werr
				}
			}
			if err != nil && err != io.EOF {
				return err
			}
			if m == 0 {
				break
			}
			p += int64(m)
		}
		off = he
	}
	return nil
}

// ImageDir takes a crash image of a data directory: what a process death would leave on
// disk (file contents as in the page cache; nothing that still sits in user-space buffers).
// Files that vanish while the copy runs (temporary files being renamed) are skipped.
// Hard links inside the tree are preserved (two names of one file stay one file).
func ImageDir(src, dst string) error {
	type inode struct{ dev, ino uint64 }
	linked := map[inode]string{}
	return filepath.Walk(src, func(p string, info os.FileInfo, err error) error {
		if err != nil {
			return nil
		}
		rel, _ := filepath.Rel(src, p)
		if info.IsDir() {
			return os.MkdirAll(filepath.Join(dst, rel), 0o755)
		}
		if st, ok := info.Sys().(*syscall.Stat_t); ok && st.Nlink > 1 {
			k := inode{uint64(st.Dev), uint64(st.Ino)}
			if first, seen := linked[k]; seen {
				if lerr := os.Link(first, filepath.Join(dst, rel)); lerr == nil {
					return nil
				}
			} else {
				linked[k] = filepath.Join(dst, rel)
			}
		}
		if cerr := sparseCopyFile(p, filepath.Join(dst, rel)); cerr != nil && !os.IsNotExist(cerr) {
			return cerr
		}
		return nil
	})
}

// Package vexec holds the reference model ("map of records" state machine of C04), the
// executor that applies every operation to the real engine and to the model, and the
// observation / comparison helpers shared by the engine-level checks.
package vexec

import (
	"bytes"
	"encoding/json"
	"fmt"
	"math"
	"sort"
	"strings"

	"github.com/sanonone/kektordb/pkg/core/distance"
	"github.com/sanonone/kektordb/pkg/core/hnsw"
	"github.com/x448/float16"
)

// IndexCfg is the configuration of one index as the model sees it.
type IndexCfg struct {
	Name      string
	Metric    distance.DistanceMetric
	Prec      distance.PrecisionType
	M         int
	EfC       int
	Lang      string
	Maint     *hnsw.AutoMaintenanceConfig
	AutoLinks []hnsw.AutoLinkRule
	Mem       *hnsw.MemoryConfig
}

// Rec is one live record. Vec is the float32 value that was handed to the index encoder
// (already normalised for float32/cosine at the moment of a compression).
type Rec struct {
	Vec  []float32
	Meta map[string]any
	// Pend holds metadata fields whose exact value is chosen by the engine from its clock
	// (e.g. _created_at): value must lie in [Lo,Hi]; it is bound on the first read.
	Pend map[string][2]float64
}

type MIndex struct {
	Cfg  IndexCfg
	Recs map[string]*Rec
	Dim  int
}

// EdgeVer is one version of a directed edge.
type EdgeVer struct {
	Target  string // graph id (index::node)
	Weight  float32
	Props   string // raw JSON bytes as stored ("" when absent)
	Created int64  // bound value, or 0 while CLo/CHi are a bracket
	Deleted int64  // 0 = active
	CLo     int64
	CHi     int64
	DLo     int64 // bracket of a not-yet-bound deletion stamp (DHi != 0 means pending)
	DHi     int64
	// PropsPred, when set, stands for props whose exact bytes the engine chooses (VEvolve).
	PropsPred func(string) bool
	// Casc marks a version whose soft deletion is the work of a node-delete cascade. The
	// stamp of such a deletion is chosen by whoever completes the cascade: the runtime
	// goroutine, or recovery when the process died before the cascade's GUNLINK records
	// reached the log (then it is the recovery time, later than the original stamp).
	Casc bool
}

type EdgeKey struct {
	Src string // graph id
	Rel string
}

type Model struct {
	KV    map[string][]byte
	Idx   map[string]*MIndex
	Edges map[EdgeKey][]*EdgeVer
	// names ever used (universe for "nothing else exists" checks)
	SeenIdx  map[string]bool
	SeenIDs  map[string]bool // ids (without index)
	SeenKeys map[string]bool
	SeenNode map[string]bool // graph ids
	SeenRel  map[string]bool
}

func NewModel() *Model {
	return &Model{
		KV: map[string][]byte{}, Idx: map[string]*MIndex{}, Edges: map[EdgeKey][]*EdgeVer{},
		SeenIdx: map[string]bool{}, SeenIDs: map[string]bool{}, SeenKeys: map[string]bool{},
		SeenNode: map[string]bool{}, SeenRel: map[string]bool{},
	}
}

// Clone returns a deep copy of the model (used to evaluate crash images against the
// history as it stood at the crash point).
func (m *Model) Clone() *Model {
	c := NewModel()
	for k, v := range m.KV {
		c.KV[k] = append([]byte{}, v...)
	}
	for name, mi := range m.Idx {
		ni := &MIndex{Cfg: mi.Cfg, Recs: map[string]*Rec{}, Dim: mi.Dim}
		if mi.Cfg.Maint != nil {
			mc := *mi.Cfg.Maint
			ni.Cfg.Maint = &mc
		}
		if mi.Cfg.Mem != nil {
			mc := *mi.Cfg.Mem
			ni.Cfg.Mem = &mc
		}
		ni.Cfg.AutoLinks = append(ni.Cfg.AutoLinks[:0:0], mi.Cfg.AutoLinks...)
		for id, r := range mi.Recs {
			nr := &Rec{Vec: CopyVec(r.Vec), Meta: NormMeta(r.Meta), Pend: map[string][2]float64{}}
			for k, p := range r.Pend {
				nr.Pend[k] = p
			}
			ni.Recs[id] = nr
		}
		c.Idx[name] = ni
	}
	for k, vs := range m.Edges {
		for _, v := range vs {
			cp := *v
			c.Edges[k] = append(c.Edges[k], &cp)
		}
	}
	for _, pair := range []struct{ from, to map[string]bool }{{m.SeenIdx, c.SeenIdx}, {m.SeenIDs, c.SeenIDs}, {m.SeenKeys, c.SeenKeys}, {m.SeenNode, c.SeenNode}, {m.SeenRel, c.SeenRel}} {
		for k := range pair.from {
			pair.to[k] = true
		}
	}
	return c
}

// DeleteWithCascade applies a node deletion to the model: the record disappears and every
// active edge into or out of the node is soft-unlinked with a stamp in [lo,hi].
func (m *Model) DeleteWithCascade(index, id string, lo, hi int64) {
	if mi := m.Idx[index]; mi != nil {
		delete(mi.Recs, id)
	}
	gid := GraphID(index, id)
	for k, vs := range m.Edges {
		for _, v := range vs {
			if v.Deleted == 0 && v.DHi == 0 && (k.Src == gid || v.Target == gid) {
				v.DLo, v.DHi = lo, hi
				v.Casc = true
			}
		}
	}
}

func GraphID(index, node string) string {
	if index == "" {
		return node
	}
	return index + "::" + node
}

func NodeOf(gid string) string {
	if i := strings.Index(gid, "::"); i >= 0 {
		return gid[i+2:]
	}
	return gid
}

// NormJSON returns v after a JSON round trip (numbers float64, slices []any).
func NormJSON(v any) any {
	b, err := json.Marshal(v)
	if err != nil {
		return v
	}
	var out any
	if json.Unmarshal(b, &out) != nil {
		return v
	}
	return out
}

func NormMeta(m map[string]any) map[string]any {
	if m == nil {
		return map[string]any{}
	}
	out, ok := NormJSON(m).(map[string]any)
	if !ok || out == nil {
		return map[string]any{}
	}
	return out
}

func CanonJSON(v any) string {
	b, _ := json.Marshal(NormJSON(v))
	return string(b)
}

func CopyVec(v []float32) []float32 { return append([]float32(nil), v...) }

func Normalize(v []float32) []float32 {
	out := CopyVec(v)
	var ss float64
	for _, x := range out {
		ss += float64(x) * float64(x)
	}
	if ss == 0 {
		return out
	}
	n := math.Sqrt(ss)
	for i := range out {
		out[i] = float32(float64(out[i]) / n)
	}
	return out
}

// VecMatch decides whether a vector read back from an index equals what the model says
// was stored, under the policy fixed in DESIGN.md 2.4/2.5. absMax is the trained int8
// range read from the exported quantizer (only used for int8).
func VecMatch(cfg IndexCfg, supplied, got []float32, absMax float32) (bool, string) {
	if len(supplied) != len(got) {
		return false, fmt.Sprintf("length %d != %d", len(got), len(supplied))
	}
	switch cfg.Prec {
	case distance.Float32:
		if cfg.Metric == distance.Cosine {
			want := Normalize(supplied)
			for i := range want {
				d := math.Abs(float64(want[i]) - float64(got[i]))
				if d > 2e-6*math.Max(1e-3, math.Abs(float64(want[i])))+1e-7 {
					return false, fmt.Sprintf("component %d: got %v want %v (normalised)", i, got[i], want[i])
				}
			}
			return true, ""
		}
		for i := range supplied {
			if math.Float32bits(supplied[i]) != math.Float32bits(got[i]) && !(supplied[i] == 0 && got[i] == 0) {
				return false, fmt.Sprintf("component %d: got %v want %v (float32 exact)", i, got[i], supplied[i])
			}
		}
		return true, ""
	case distance.Float16:
		for i := range supplied {
			w := float16.Fromfloat32(supplied[i]).Float32()
			if w != got[i] && !(math.IsNaN(float64(w)) && math.IsNaN(float64(got[i]))) {
				return false, fmt.Sprintf("component %d: got %v want f16(%v)=%v", i, got[i], supplied[i], w)
			}
		}
		return true, ""
	case distance.Int8:
		a := float64(absMax)
		if a == 0 {
			for i := range got {
				if got[i] != 0 {
					return false, "untrained quantizer but non-zero vector"
				}
			}
			return true, ""
		}
		step := a / 254 * (1 + 1e-5)
		for i := range supplied {
			x := float64(supplied[i])
			if x > a {
				x = a
			} else if x < -a {
				x = -a
			}
			if math.Abs(float64(got[i])-x) > step+1e-6*a {
				return false, fmt.Sprintf("component %d: got %v want %v±%v (int8, A=%v)", i, got[i], x, step, a)
			}
			if math.Abs(float64(got[i])) > a*(1+1e-5) {
				return false, fmt.Sprintf("component %d: |%v| exceeds trained range %v", i, got[i], a)
			}
		}
		return true, ""
	}
	return false, "unknown precision"
}

// ---- graph model (mirrors the C10 statement) --------------------------------------------

func (m *Model) activeIdx(k EdgeKey, target string) int {
	for i, v := range m.Edges[k] {
		if v.Target == target && v.Deleted == 0 && v.DHi == 0 {
			return i
		}
	}
	return -1
}

// Link applies one directed link with creation stamp in [lo,hi].
func (m *Model) Link(src, tgt, rel string, w float32, props string, lo, hi int64, pred func(string) bool) {
	k := EdgeKey{src, rel}
	m.SeenNode[src], m.SeenNode[tgt], m.SeenRel[rel] = true, true, true
	if i := m.activeIdx(k, tgt); i >= 0 {
		cur := m.Edges[k][i]
		same := cur.Weight == w && cur.Props == props && pred == nil && cur.PropsPred == nil
		if same {
			return
		}
		cur.DLo, cur.DHi = lo, hi
	}
	m.Edges[k] = append(m.Edges[k], &EdgeVer{Target: tgt, Weight: w, Props: props, CLo: lo, CHi: hi, PropsPred: pred})
}

// Unlink applies a soft or hard unlink with stamp in [lo,hi].
func (m *Model) Unlink(src, tgt, rel string, hard bool, lo, hi int64) {
	k := EdgeKey{src, rel}
	m.SeenNode[src], m.SeenNode[tgt], m.SeenRel[rel] = true, true, true
	if hard {
		var keep []*EdgeVer
		for _, v := range m.Edges[k] {
			if v.Target != tgt {
				keep = append(keep, v)
			}
		}
		if len(keep) == 0 {
			delete(m.Edges, k)
		} else {
			m.Edges[k] = keep
		}
		return
	}
	if i := m.activeIdx(k, tgt); i >= 0 {
		m.Edges[k][i].DLo, m.Edges[k][i].DHi = lo, hi
	}
}

// Vacuum removes every version soft-deleted at or before cutoff (all stamps must be bound).
func (m *Model) Vacuum(cutoff int64) int {
	n := 0
	for k, vs := range m.Edges {
		var keep []*EdgeVer
		for _, v := range vs {
			if v.Deleted != 0 && v.Deleted <= cutoff {
				n++
				continue
			}
			keep = append(keep, v)
		}
		if len(keep) == 0 {
			delete(m.Edges, k)
		} else {
			m.Edges[k] = keep
		}
	}
	return n
}

func ActiveAt(created, deleted, t int64) bool {
	if t == 0 {
		return deleted == 0
	}
	return created <= t && (deleted == 0 || deleted > t)
}

// OutAt returns the targets (graph ids, sorted) of src/rel active at time t (0 = now).
func (m *Model) OutAt(src, rel string, t int64) []*EdgeVer {
	var out []*EdgeVer
	for _, v := range m.Edges[EdgeKey{src, rel}] {
		if ActiveAt(v.Created, v.Deleted, t) {
			out = append(out, v)
		}
	}
	return out
}

// InAt returns the sources (graph ids, sorted, de-duplicated) with an edge to tgt/rel active at t.
func (m *Model) InAt(tgt, rel string, t int64) []string {
	set := map[string]bool{}
	for k, vs := range m.Edges {
		if k.Rel != rel {
			continue
		}
		for _, v := range vs {
			if v.Target == tgt && ActiveAt(v.Created, v.Deleted, t) {
				set[k.Src] = true
			}
		}
	}
	return sortedKeys(set)
}

// Stamps returns every bound creation / deletion stamp in the model (history boundaries).
func (m *Model) Stamps() []int64 {
	set := map[int64]bool{}
	for _, vs := range m.Edges {
		for _, v := range vs {
			if v.Created != 0 {
				set[v.Created] = true
			}
			if v.Deleted != 0 {
				set[v.Deleted] = true
			}
		}
	}
	out := make([]int64, 0, len(set))
	for s := range set {
		out = append(out, s)
	}
	sort.Slice(out, func(i, j int) bool { return out[i] < out[j] })
	return out
}

func sortedKeys[V any](m map[string]V) []string {
	out := make([]string, 0, len(m))
	for k := range m {
		out = append(out, k)
	}
	sort.Strings(out)
	return out
}

func SortedKeys[V any](m map[string]V) []string { return sortedKeys(m) }

// RealEdge is one edge version as enumerated from the engine.
type RealEdge struct {
	Src, Tgt, Rel    string
	Weight           float32
	Props            string
	Created, Deleted int64
}

func (r RealEdge) String() string {
	return fmt.Sprintf("%s -[%s w=%v p=%s c=%d d=%d]-> %s", r.Src, r.Rel, r.Weight, r.Props, r.Created, r.Deleted, r.Tgt)
}

// BindEdges matches the model's edge versions against the versions enumerated from the
// engine, binding pending stamps that fall inside their brackets. It returns a description
// of the first disagreement ("" when model and engine hold exactly the same versions).
func (m *Model) BindEdges(real []RealEdge) string {
	used := make([]bool, len(real))
	bySrcRel := map[EdgeKey][]int{}
	for i, r := range real {
		k := EdgeKey{r.Src, r.Rel}
		bySrcRel[k] = append(bySrcRel[k], i)
	}
	keys := make([]EdgeKey, 0, len(m.Edges))
	for k := range m.Edges {
		keys = append(keys, k)
	}
	sort.Slice(keys, func(i, j int) bool {
		if keys[i].Src != keys[j].Src {
			return keys[i].Src < keys[j].Src
		}
		return keys[i].Rel < keys[j].Rel
	})
	for _, k := range keys {
		for _, v := range m.Edges[k] {
			found := -1
			for _, i := range bySrcRel[k] {
				if used[i] {
					continue
				}
				r := real[i]
				if r.Tgt != v.Target || r.Weight != v.Weight {
					continue
				}
				if v.PropsPred != nil {
					if !v.PropsPred(r.Props) {
						continue
					}
				} else if !propsEqual(r.Props, v.Props) {
					continue
				}
				if v.Created != 0 {
					if r.Created != v.Created {
						continue
					}
				} else if r.Created < v.CLo || r.Created > v.CHi {
					continue
				}
				if v.DHi != 0 {
					if r.Deleted < v.DLo || r.Deleted > v.DHi {
						continue
					}
				} else if r.Deleted != v.Deleted {
					continue
				}
				found = i
				break
			}
			if found < 0 {
				return fmt.Sprintf("model edge version missing in engine: %s -[%s w=%v p=%s c=%d[%d,%d] d=%d[%d,%d]]-> %s; engine has %v",
					k.Src, k.Rel, v.Weight, v.Props, v.Created, v.CLo, v.CHi, v.Deleted, v.DLo, v.DHi, v.Target, realFor(real, k))
			}
			used[found] = true
			r := real[found]
			v.Created = r.Created
			if v.DHi != 0 {
				v.Deleted, v.DLo, v.DHi = r.Deleted, 0, 0
			}
			if v.PropsPred != nil {
				v.Props, v.PropsPred = r.Props, nil
			}
		}
	}
	for i, r := range real {
		if !used[i] {
			return "engine holds an edge version the history does not explain: " + r.String()
		}
	}
	return ""
}

func realFor(real []RealEdge, k EdgeKey) []string {
	var out []string
	for _, r := range real {
		if r.Src == k.Src && r.Rel == k.Rel {
			out = append(out, r.String())
		}
	}
	return out
}

func propsEqual(a, b string) bool {
	if a == b {
		return true
	}
	if (a == "" || a == "null") && (b == "" || b == "null") {
		return true
	}
	return bytes.Equal([]byte(a), []byte(b))
}

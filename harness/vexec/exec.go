package vexec

import (
	"bytes"
	"encoding/json"
	"fmt"
	"path/filepath"
	"reflect"
	"runtime"
	"sort"
	"strings"
	"time"

	"github.com/sanonone/kektordb/internal/zzverif/vkit"
	"github.com/sanonone/kektordb/pkg/core/distance"
	"github.com/sanonone/kektordb/pkg/core/hnsw"
	"github.com/sanonone/kektordb/pkg/core/types"
	"github.com/sanonone/kektordb/pkg/engine"
	"github.com/sanonone/kektordb/pkg/verifhook"
)

// Exec applies operations to the real engine and to the model.
type Exec struct {
	CS   *vkit.Case
	E    *engine.Engine
	M    *Model
	Dir  string
	Opts engine.Options
	last int64
	// NoModelOnError: a call that returns an error leaves the model untouched (C05's claim).
	Restarts int
	Kinds    []string // op kinds in order (for distinctness keys)
	Rejected bool     // whether the last call returned an error
	cascades int64    // VDelete calls acknowledged in this process (for settle)
	casBase  int64
	drops    int64
	dropBase int64
	// Opt-in (zero value = old behaviour):
	// Scribble: after every call the executor overwrites the slices and maps it handed to the
	// engine (vector, top level of the metadata / property map, batch items, KV value, id
	// list). A straightforward map of records holds the values of the moment of the call;
	// whatever the caller does to its own buffers afterwards must not show in any later read.
	Scribble bool
	// ScribbleNested (with Scribble): also overwrite, in place, the lists / objects / typed Go
	// slices and maps that are VALUES of the metadata handed over.
	ScribbleNested bool
	// Touched lists the (index, id) pairs named by the data operations since the consumer last
	// reset it (for a light read check after every operation).
	Touched []Touch
}

// Touch is one (index, id) pair named by an operation.
type Touch struct{ Index, ID string }

func (x *Exec) touch(index string, ids ...string) {
	for _, id := range ids {
		x.Touched = append(x.Touched, Touch{index, id})
	}
}

// ScribbleVec overwrites a vector that was handed to the engine.
func ScribbleVec(v []float32) {
	for i := range v {
		v[i] = -7777
	}
}

// ScribbleMeta overwrites a metadata / property map that was handed to the engine: nested
// lists and objects in place (only when nested is set), then every top-level value, plus one
// foreign key.
func ScribbleMeta(m map[string]any, nested bool) {
	if m == nil {
		return
	}
	for k, v := range m {
		if nested {
			scribbleVal(v)
		}
		m[k] = "SCRIBBLED"
	}
	m["zz_scribbled"] = true
}

func scribbleVal(v any) {
	switch t := v.(type) {
	case map[string]any:
		for k, e := range t {
			scribbleVal(e)
			t[k] = "SCRIBBLED"
		}
		if t != nil {
			t["zz_scribbled"] = true
		}
	case []any:
		for i, e := range t {
			scribbleVal(e)
			t[i] = "SCRIBBLED"
		}
	case []string:
		for i := range t {
			t[i] = "SCRIBBLED"
		}
	case []int:
		for i := range t {
			t[i] = -7777
		}
	case []float64:
		for i := range t {
			t[i] = -7777
		}
	case map[string]string:
		for k := range t {
			t[k] = "SCRIBBLED"
		}
		if t != nil {
			t["zz_scribbled"] = "x"
		}
	}
}

func Options(dir string) engine.Options {
	o := engine.DefaultOptions(dir)
	o.AutoSaveInterval = 0
	o.AutoSaveThreshold = 0
	o.AofRewritePercentage = 0
	o.MaintenanceInterval = time.Hour
	return o
}

func NewExec(cs *vkit.Case, dir string) *Exec {
	x := &Exec{CS: cs, M: NewModel(), Dir: dir, Opts: Options(dir)}
	x.open()
	return x
}

func (x *Exec) open() {
	x.CS.Op("Open(%s)", filepath.Base(x.Dir))
	e, err := engine.Open(x.Opts)
	if err != nil {
		x.CS.Fail("engine.Open failed: %v", err)
	}
	x.E = e
	x.casBase = verifhook.Hits()["cascade.done"]
	x.cascades = 0
	x.dropBase = verifhook.Hits()["op.VDeleteIndex.remove_done"]
	x.drops = 0
}

// Now returns a strictly increasing nanosecond clock reading (spins until the clock has
// advanced by at least 2ns since the previous reading) so that brackets never overlap.
func (x *Exec) Now() int64 {
	for {
		t := time.Now().UnixNano()
		if t >= x.last+2 {
			x.last = t
			return t
		}
		runtime.Gosched()
	}
}

func (x *Exec) kind(k string) { x.Kinds = append(x.Kinds, k) }

// Outcome predicted by the reference model for a call.
const (
	Either   = 0
	MustOK   = 1
	MustFail = 2
)

// verdict compares the engine's acknowledgement with the model's prediction.
func (x *Exec) verdict(op string, err error, want int) {
	x.Rejected = err != nil
	if want == MustOK && err != nil {
		x.CS.Fail("%s was rejected (%v) although the reference model says the call is valid", op, err)
	}
	if want == MustFail && err == nil {
		x.CS.Fail("%s was acknowledged although the reference model says it must be rejected", op)
	}
}

func (x *Exec) live(index, id string) bool {
	mi := x.M.Idx[index]
	return mi != nil && mi.Recs[id] != nil
}

// ValidProps mirrors the documented edge-property limits.
func ValidProps(props map[string]any) bool {
	if len(props) > 100 {
		return false
	}
	for k, v := range props {
		if len(k) > 256 {
			return false
		}
		for _, r := range k {
			if !((r >= 'a' && r <= 'z') || (r >= 'A' && r <= 'Z') || (r >= '0' && r <= '9') || r == '_' || r == '-') {
				return false
			}
		}
		if s, ok := v.(string); ok && len(s) > 4096 {
			return false
		}
	}
	return true
}

// Settle waits until every cascade goroutine started by VDelete in this process finished.
func (x *Exec) Settle() {
	deadline := time.Now().Add(120 * time.Second)
	for verifhook.Hits()["cascade.done"]-x.casBase < x.cascades {
		if time.Now().After(deadline) {
			x.CS.Attach("goroutines", strings.Split(vkit.DumpGoroutines(), "\n"))
			x.CS.Fail("delete cascade did not settle within 120s (started %d, done %d)", x.cascades, verifhook.Hits()["cascade.done"]-x.casBase)
		}
		time.Sleep(50 * time.Microsecond)
	}
}

// ForeignCascades tells the executor that n delete cascades of OTHER engines in this process
// (recovered crash images) have completed: the hook counter is process-wide.
func (x *Exec) ForeignCascades(n int64) { x.casBase += n }

// Close closes the engine (waits for cascades first so the model stays exact).
func (x *Exec) Close() {
	if x.E == nil {
		return
	}
	x.Settle()
	x.CS.Op("Close()")
	if err := x.E.Close(); err != nil {
		x.CS.Fail("Close returned error: %v", err)
	}
	x.E = nil
}

// OpenOn attaches the executor to a (crash image of a) data directory.
func OpenOn(cs *vkit.Case, dir string, m *Model) *Exec {
	x := &Exec{CS: cs, M: m, Dir: dir, Opts: Options(dir)}
	x.open()
	return x
}

// CloseRaw closes the engine without waiting for cascades (shutdown while a cascade runs).
func (x *Exec) CloseRaw() error {
	x.CS.Op("Close() [raw]")
	err := x.E.Close()
	x.E = nil
	return err
}

// Reopen opens the engine again after CloseRaw.
func (x *Exec) Reopen() { x.open(); x.Restarts++ }

// Restart = Close + Open on the same directory.
func (x *Exec) Restart() {
	x.kind("restart")
	x.Close()
	x.open()
	x.Restarts++
}

// ---- KV ---------------------------------------------------------------------------------

func (x *Exec) KVSet(k string, v []byte) error {
	x.kind("kvset")
	x.CS.Op("KVSet(%q, %x)", k, v)
	x.M.SeenKeys[k] = true
	arg := v
	if x.Scribble {
		arg = append([]byte{}, v...)
	}
	err := x.E.KVSet(k, arg)
	if x.Scribble {
		for i := range arg {
			arg[i] ^= 0xFF
		}
	}
	x.verdict("KVSet", err, MustOK)
	if err == nil {
		x.M.KV[k] = append([]byte{}, v...)
	}
	return err
}

func (x *Exec) KVDelete(k string) error {
	x.kind("kvdel")
	x.CS.Op("KVDelete(%q)", k)
	x.M.SeenKeys[k] = true
	err := x.E.KVDelete(k)
	x.verdict("KVDelete", err, MustOK)
	if err == nil {
		delete(x.M.KV, k)
	}
	return err
}

// ---- indexes ----------------------------------------------------------------------------

func ValidCombo(metric distance.DistanceMetric, prec distance.PrecisionType) bool {
	switch prec {
	case distance.Float32:
		return metric == distance.Euclidean || metric == distance.Cosine
	case distance.Float16:
		return metric == distance.Euclidean
	case distance.Int8:
		return metric == distance.Cosine
	}
	return false
}

func (x *Exec) VCreate(cfg IndexCfg) error {
	x.kind("vcreate")
	x.CS.Op("VCreate(%s)", vkit.JSON(cfg))
	x.M.SeenIdx[cfg.Name] = true
	var al []hnsw.AutoLinkRule
	if len(cfg.AutoLinks) > 0 {
		al = append(al, cfg.AutoLinks...)
	}
	var maint *hnsw.AutoMaintenanceConfig
	if cfg.Maint != nil {
		c := *cfg.Maint
		maint = &c
	}
	var mem *hnsw.MemoryConfig
	if cfg.Mem != nil {
		c := *cfg.Mem
		mem = &c
	}
	err := x.E.VCreate(cfg.Name, cfg.Metric, cfg.M, cfg.EfC, cfg.Prec, cfg.Lang, maint, al, mem)
	_, exists := x.M.Idx[cfg.Name]
	want := MustOK
	if exists || !ValidCombo(cfg.Metric, cfg.Prec) {
		want = MustFail
	}
	x.verdict("VCreate("+cfg.Name+")", err, want)
	if err == nil {
		c := cfg
		if c.M <= 0 {
			c.M = 16
		}
		if c.EfC <= 0 {
			c.EfC = 200
		}
		x.M.Idx[cfg.Name] = &MIndex{Cfg: c, Recs: map[string]*Rec{}}
	}
	return err
}

func (x *Exec) VDeleteIndex(name string) error {
	x.kind("vdrop")
	x.Settle()
	x.CS.Op("VDeleteIndex(%s)", name)
	x.M.SeenIdx[name] = true
	err := x.E.VDeleteIndex(name)
	x.verdict("VDeleteIndex("+name+")", err, map[bool]int{true: MustOK, false: MustFail}[x.M.Idx[name] != nil])
	if err == nil {
		delete(x.M.Idx, name)
		// physical removal of the arena directory runs in a goroutine: wait for it so that
		// a re-create of the same name does not race with it (the harness is sequential;
		// the race itself is a C13 scenario).
		x.drops++
		for i := 0; verifhook.Hits()["op.VDeleteIndex.remove_done"]-x.dropBase < x.drops; i++ {
			if i > 2000000 {
				x.CS.Fail("arena removal goroutine of VDeleteIndex did not finish")
			}
			time.Sleep(20 * time.Microsecond)
		}
	}
	return err
}

func (x *Exec) memInject(mi *MIndex, meta map[string]any, pend map[string][2]float64, lo, hi int64, layers bool) map[string]any {
	if mi.Cfg.Mem == nil || !mi.Cfg.Mem.Enabled {
		return meta
	}
	if meta == nil {
		meta = map[string]any{}
	}
	if _, ok := meta["_created_at"]; !ok {
		pend["_created_at"] = [2]float64{float64(lo / 1e9), float64(hi / 1e9)}
	}
	if layers && len(mi.Cfg.Mem.Layers) > 0 {
		layer := "episodic"
		if l, ok := meta["memory_layer"].(string); ok && l != "" {
			layer = l
		} else {
			meta["memory_layer"] = layer
		}
		if lc, ok := mi.Cfg.Mem.Layers[layer]; ok && lc.PinnedByDefault {
			if _, set := meta["_pinned"]; !set {
				meta["_pinned"] = true
			}
		}
	}
	return meta
}

// copyMeta deep-copies a metadata / property map and keeps the Go types of its values (an
// embedding caller may pass []string, int, map[string]string ...; the model normalises through
// JSON, the engine gets the values as given).
func copyMeta(m map[string]any) map[string]any {
	if m == nil {
		return nil
	}
	out := make(map[string]any, len(m))
	for k, v := range m {
		out[k] = copyVal(v)
	}
	return out
}

func copyVal(v any) any {
	switch x := v.(type) {
	case map[string]any:
		if x == nil {
			return x
		}
		return copyMeta(x)
	case []any:
		if x == nil {
			return x
		}
		o := make([]any, len(x))
		for i, e := range x {
			o[i] = copyVal(e)
		}
		return o
	case []string:
		return append([]string(nil), x...)
	case []int:
		return append([]int(nil), x...)
	case []float64:
		return append([]float64(nil), x...)
	case map[string]string:
		o := make(map[string]string, len(x))
		for k, e := range x {
			o[k] = e
		}
		return o
	}
	return v
}

func (x *Exec) autoLink(index string, mi *MIndex, id string, meta map[string]any, lo, hi int64) {
	if len(meta) == 0 {
		return
	}
	for _, r := range mi.Cfg.AutoLinks {
		v, ok := meta[r.MetadataField]
		if !ok {
			continue
		}
		tgt := fmt.Sprintf("%v", v)
		if tgt == "" {
			continue
		}
		x.M.Link(GraphID(index, id), GraphID(index, tgt), r.RelationType, 1.0, "", lo, hi, nil)
	}
}

// VAdd adds one vector. The model is updated only when the engine acknowledges.
func (x *Exec) VAdd(index, id string, vec []float32, meta map[string]any) error {
	x.kind("vadd")
	x.CS.Op("VAdd(%s,%s,%v,%s)", index, id, vec, vkit.JSON(meta))
	x.M.SeenIDs[id] = true
	x.touch(index, id)
	argV, argM := CopyVec(vec), copyMeta(meta)
	lo := x.Now()
	err := x.E.VAdd(index, id, argV, argM)
	hi := x.Now()
	if x.Scribble {
		ScribbleVec(argV)
		ScribbleMeta(argM, x.ScribbleNested)
	}
	mi := x.M.Idx[index]
	want := MustOK
	switch {
	case mi == nil, mi.Recs[id] != nil:
		want = MustFail
	case len(vec) == 0 && len(mi.Recs) == 0:
		want = MustFail
	case len(vec) != 0 && len(mi.Recs) > 0 && len(vec) != mi.Dim:
		want = MustFail
	case len(vec) != 0 && len(mi.Recs) == 0 && mi.Dim != 0 && len(vec) != mi.Dim:
		want = Either // emptied index, different dimension: not settled by the properties
	}
	x.verdict(fmt.Sprintf("VAdd(%s,%s)", index, id), err, want)
	if err != nil {
		return err
	}
	v := CopyVec(vec)
	if len(v) == 0 {
		v = make([]float32, mi.Dim)
	}
	mi.Dim = len(v)
	pend := map[string][2]float64{}
	m := x.memInject(mi, copyMeta(meta), pend, lo, hi, true)
	mi.Recs[id] = &Rec{Vec: v, Meta: NormMeta(m), Pend: pend}
	x.autoLink(index, mi, id, m, lo, hi)
	return nil
}

// VAddBatch / VImport share the model semantics (all-or-nothing on acknowledgement).
func (x *Exec) addMany(kind, index string, items []types.BatchObject) error {
	x.kind(kind)
	x.CS.Op("%s(%s,%s)", kind, index, vkit.JSON(items))
	cp := make([]types.BatchObject, len(items))
	for i, it := range items {
		cp[i] = types.BatchObject{Id: it.Id, Vector: CopyVec(it.Vector), Metadata: copyMeta(it.Metadata)}
		x.M.SeenIDs[it.Id] = true
		x.touch(index, it.Id)
	}
	lo := x.Now()
	var err error
	if kind == "vimport" {
		err = x.E.VImport(index, cp)
	} else {
		err = x.E.VAddBatch(index, cp)
	}
	hi := x.Now()
	if x.Scribble {
		for i := range cp {
			ScribbleVec(cp[i].Vector)
			ScribbleMeta(cp[i].Metadata, x.ScribbleNested)
			cp[i].Id = "SCRIBBLED"
		}
	}
	mi := x.M.Idx[index]
	want := MustOK
	dim := 0
	if mi == nil {
		want = MustFail
	} else {
		if len(mi.Recs) > 0 {
			dim = mi.Dim
		}
		for _, it := range items {
			if dim == 0 && len(it.Vector) > 0 {
				dim = len(it.Vector)
			}
		}
		seen := map[string]bool{}
		for _, it := range items {
			if mi.Recs[it.Id] != nil || seen[it.Id] {
				want = MustFail
			}
			seen[it.Id] = true
			if len(it.Vector) == 0 && dim == 0 {
				want = MustFail
			}
			if len(it.Vector) != 0 && len(it.Vector) != dim {
				want = MustFail
			}
		}
		if want == MustOK && len(mi.Recs) == 0 && mi.Dim != 0 && dim != mi.Dim {
			want = Either
		}
	}
	x.verdict(fmt.Sprintf("%s(%s,%d items)", kind, index, len(items)), err, want)
	if err != nil {
		return err
	}
	for _, it := range items {
		v := CopyVec(it.Vector)
		if len(v) == 0 {
			v = make([]float32, dim)
		}
		pend := map[string][2]float64{}
		m := x.memInject(mi, copyMeta(it.Metadata), pend, lo, hi, true) // batch and import apply the layer defaults like VAdd (D-C15-4)
		mi.Recs[it.Id] = &Rec{Vec: v, Meta: NormMeta(m), Pend: pend}
		mi.Dim = len(v)
		if len(it.Metadata) > 0 {
			x.autoLink(index, mi, it.Id, m, lo, hi)
		}
	}
	return nil
}

func (x *Exec) VAddBatch(index string, items []types.BatchObject) error {
	return x.addMany("vaddbatch", index, items)
}
func (x *Exec) VImport(index string, items []types.BatchObject) error {
	return x.addMany("vimport", index, items)
}

func (x *Exec) VImportCommit(index string) error {
	x.kind("vimportcommit")
	x.CS.Op("VImportCommit(%s)", index)
	err := x.E.VImportCommit(index)
	x.verdict("VImportCommit", err, map[bool]int{true: MustOK, false: MustFail}[x.M.Idx[index] != nil])
	return err
}

func (x *Exec) VDelete(index, id string) error {
	x.kind("vdelete")
	x.CS.Op("VDelete(%s,%s)", index, id)
	x.M.SeenIDs[id] = true
	x.touch(index, id)
	lo := x.Now()
	err := x.E.VDelete(index, id)
	x.verdict(fmt.Sprintf("VDelete(%s,%s)", index, id), err, map[bool]int{true: MustOK, false: MustFail}[x.live(index, id)])
	if err != nil {
		return err
	}
	x.cascades++
	x.Settle()
	hi := x.Now()
	mi := x.M.Idx[index]
	_ = mi
	// cascade: every active edge into or out of the node is soft-unlinked
	x.M.DeleteWithCascade(index, id, lo, hi)
	return nil
}

func (x *Exec) VSetMetadata(index, id string, props map[string]any) error {
	x.kind("vsetmeta")
	x.CS.Op("VSetMetadata(%s,%s,%s)", index, id, vkit.JSON(props))
	x.touch(index, id)
	argM := copyMeta(props)
	err := x.E.VSetMetadata(index, id, argM)
	if x.Scribble {
		ScribbleMeta(argM, x.ScribbleNested)
	}
	x.verdict(fmt.Sprintf("VSetMetadata(%s,%s)", index, id), err, map[bool]int{true: MustOK, false: MustFail}[x.live(index, id)])
	if err != nil {
		return err
	}
	mi := x.M.Idx[index]
	r := mi.Recs[id]
	for k, v := range NormMeta(props) {
		r.Meta[k] = v
		delete(r.Pend, k)
	}
	return nil
}

func (x *Exec) VReinforce(index string, ids []string) error {
	x.kind("vreinforce")
	x.CS.Op("VReinforce(%s,%v)", index, ids)
	x.touch(index, ids...)
	argIDs := ids
	if x.Scribble {
		argIDs = append([]string(nil), ids...)
	}
	lo := x.Now()
	err := x.E.VReinforce(index, argIDs)
	hi := x.Now()
	if x.Scribble {
		for i := range argIDs {
			argIDs[i] = "SCRIBBLED"
		}
	}
	x.verdict("VReinforce("+index+")", err, map[bool]int{true: MustOK, false: MustFail}[x.M.Idx[index] != nil])
	if err != nil {
		return err
	}
	mi := x.M.Idx[index]
	for _, id := range ids {
		r := mi.Recs[id]
		if r == nil {
			continue
		}
		c, _ := r.Meta["_access_count"].(float64)
		r.Meta["_access_count"] = c + 1
		if r.Pend == nil {
			r.Pend = map[string][2]float64{}
		}
		delete(r.Meta, "_last_accessed")
		r.Pend["_last_accessed"] = [2]float64{float64(lo / 1e9), float64(hi / 1e9)}
	}
	return nil
}

func (x *Exec) VUpdateIndexConfig(index string, cfg hnsw.AutoMaintenanceConfig) error {
	x.kind("vconfig")
	x.CS.Op("VUpdateIndexConfig(%s,%s)", index, vkit.JSON(cfg))
	err := x.E.VUpdateIndexConfig(index, cfg)
	x.verdict("VUpdateIndexConfig("+index+")", err, map[bool]int{true: MustOK, false: MustFail}[x.M.Idx[index] != nil])
	if err == nil {
		c := cfg
		x.M.Idx[index].Cfg.Maint = &c
	}
	return err
}

func (x *Exec) VUpdateAutoLinks(index string, rules []hnsw.AutoLinkRule) error {
	x.kind("vautolinks")
	x.CS.Op("VUpdateAutoLinks(%s,%s)", index, vkit.JSON(rules))
	err := x.E.VUpdateAutoLinks(index, rules)
	x.verdict("VUpdateAutoLinks("+index+")", err, map[bool]int{true: MustOK, false: MustFail}[x.M.Idx[index] != nil])
	if err == nil {
		x.M.Idx[index].Cfg.AutoLinks = append([]hnsw.AutoLinkRule(nil), rules...)
	}
	return err
}

// VCompress changes the precision. Model: stored values become the supplied values of the
// new encoding (float32/cosine values are the normalised ones).
func (x *Exec) VCompress(index string, prec distance.PrecisionType) error {
	x.kind("vcompress")
	x.CS.Op("VCompress(%s,%s)", index, prec)
	mi := x.M.Idx[index]
	want := MustOK
	if mi == nil || len(mi.Recs) == 0 || mi.Cfg.Prec != distance.Float32 || !ValidCombo(mi.Cfg.Metric, prec) {
		want = MustFail
	}
	err := x.E.VCompress(index, prec)
	x.verdict(fmt.Sprintf("VCompress(%s,%s)", index, prec), err, want)
	if err != nil {
		return err
	}
	if mi.Cfg.Metric == distance.Cosine && mi.Cfg.Prec == distance.Float32 {
		for _, r := range mi.Recs {
			r.Vec = Normalize(r.Vec)
		}
	}
	mi.Cfg.Prec = prec
	return nil
}

func (x *Exec) Maintenance(index, task string) error {
	x.kind(task)
	x.CS.Op("VTriggerMaintenance(%s,%s)", index, task)
	return x.E.VTriggerMaintenance(index, task)
}

func (x *Exec) SaveSnapshot() error {
	x.kind("snapshot")
	x.Settle()
	x.CS.Op("SaveSnapshot()")
	err := x.E.SaveSnapshot()
	x.verdict("SaveSnapshot", err, MustOK)
	return err
}

func (x *Exec) RewriteAOF() error {
	x.kind("rewrite")
	x.Settle()
	x.CS.Op("RewriteAOF()")
	err := x.E.RewriteAOF()
	x.verdict("RewriteAOF", err, MustOK)
	return err
}

// ---- graph ------------------------------------------------------------------------------

func propsBytes(props map[string]any) string {
	if len(props) == 0 {
		return ""
	}
	b, _ := json.Marshal(props)
	return string(b)
}

func (x *Exec) VLink(index, src, tgt, rel, inv string, w float32, props map[string]any) error {
	x.kind("vlink")
	x.CS.Op("VLink(%s,%s,%s,%s,%q,%v,%s)", index, src, tgt, rel, inv, w, vkit.JSON(props))
	argP := copyMeta(props)
	lo := x.Now()
	err := x.E.VLink(index, src, tgt, rel, inv, w, argP)
	hi := x.Now()
	if x.Scribble {
		ScribbleMeta(argP, x.ScribbleNested)
	}
	x.verdict("VLink", err, map[bool]int{true: MustOK, false: MustFail}[ValidProps(props)])
	if err != nil {
		return err
	}
	p := propsBytes(props)
	x.M.Link(GraphID(index, src), GraphID(index, tgt), rel, w, p, lo, hi, nil)
	if inv != "" {
		x.M.Link(GraphID(index, tgt), GraphID(index, src), inv, w, p, lo, hi, nil)
	}
	return nil
}

func (x *Exec) VUnlink(index, src, tgt, rel, inv string, hard bool) error {
	x.kind(map[bool]string{true: "vunlink_hard", false: "vunlink_soft"}[hard])
	x.CS.Op("VUnlink(%s,%s,%s,%s,%q,hard=%v)", index, src, tgt, rel, inv, hard)
	lo := x.Now()
	err := x.E.VUnlink(index, src, tgt, rel, inv, hard)
	hi := x.Now()
	x.verdict("VUnlink", err, MustOK)
	if err != nil {
		return err
	}
	x.M.Unlink(GraphID(index, src), GraphID(index, tgt), rel, hard, lo, hi)
	if inv != "" {
		x.M.Unlink(GraphID(index, tgt), GraphID(index, src), inv, hard, lo, hi)
	}
	return nil
}

// GraphVacuumAt prunes with an explicit cutoff through the exported core API.
func (x *Exec) GraphVacuumAt(cutoff int64) {
	x.kind("gvacuum")
	x.CS.Op("DB.VacuumGraph(%d)", cutoff)
	if msg := x.BindGraph(); msg != "" {
		x.CS.Fail("before graph vacuum: %s", msg)
	}
	x.E.DB.VacuumGraph(cutoff)
	x.M.Vacuum(cutoff)
}

// GraphVacuumNow runs the engine's graph vacuum. It prunes only when some index carries a
// GraphRetention > 0; the harness uses a retention of 1ns, so the cutoff (now-1ns) lies
// after every earlier stamp (Now() spaces readings by >= 2ns) and the model prunes every
// soft-deleted version.
func (x *Exec) GraphVacuumNow() {
	x.kind("gvacuum")
	x.Settle()
	if msg := x.BindGraph(); msg != "" {
		x.CS.Fail("before graph vacuum: %s", msg)
	}
	has := false
	for _, mi := range x.M.Idx {
		if mi.Cfg.Maint != nil && mi.Cfg.Maint.GraphRetention > 0 {
			has = true
		}
	}
	x.CS.Op("RunGraphVacuum() retention_configured=%v", has)
	x.Now()
	x.E.RunGraphVacuum()
	hi := x.Now()
	if has {
		x.M.Vacuum(hi)
	}
}

// GraphVacuumWindow runs the engine's graph vacuum with the configured retention R (the same
// R > 0 on every index that has one). The engine prunes the versions soft-deleted before
// now-R; the model does the same with a cutoff that the two clock readings around the call
// bracket. It returns false (model untouched, the caller must drop the case) when some stamp
// of the history lies inside that bracket, i.e. when the outcome depends on the instant the
// engine read its clock.
func (x *Exec) GraphVacuumWindow() bool {
	x.kind("gvacuum")
	x.Settle()
	if msg := x.BindGraph(); msg != "" {
		x.CS.Fail("before graph vacuum: %s", msg)
	}
	var ret int64
	for _, mi := range x.M.Idx {
		if mi.Cfg.Maint != nil && mi.Cfg.Maint.GraphRetention > 0 {
			if ret != 0 && ret != int64(mi.Cfg.Maint.GraphRetention) {
				x.CS.Fail("harness: GraphVacuumWindow needs one retention value")
			}
			ret = int64(mi.Cfg.Maint.GraphRetention)
		}
	}
	if ret == 0 {
		x.CS.Fail("harness: GraphVacuumWindow without a retention")
	}
	lo := x.Now()
	x.E.RunGraphVacuum()
	hi := x.Now()
	x.CS.Op("RunGraphVacuum() retention=%dns cutoff in [%d,%d]", ret, lo-ret, hi-ret)
	for _, st := range x.M.Stamps() {
		if st >= lo-ret-1 && st <= hi-ret+1 {
			return false
		}
	}
	x.M.Vacuum(lo - ret)
	return true
}

// VEvolve mirrors Engine.VEvolve in the model.
func (x *Exec) VEvolve(index, oldID string, vec []float32, meta map[string]any, reason string) (string, error) {
	x.kind("vevolve")
	x.CS.Op("VEvolve(%s,%s,%v,%s,%q)", index, oldID, vec, vkit.JSON(meta), reason)
	if x.live(index, oldID) { // bind clock-chosen fields of the old record first
		if msg := x.CheckRecord(index, oldID); msg != "" {
			x.CS.Fail("before VEvolve: %s", msg)
		}
	}
	x.touch(index, oldID)
	argV, argM := CopyVec(vec), copyMeta(meta)
	lo := x.Now()
	newID, err := x.E.VEvolve(index, oldID, argV, argM, reason)
	hi := x.Now()
	if x.Scribble {
		ScribbleVec(argV)
		ScribbleMeta(argM, x.ScribbleNested)
	}
	x.verdict(fmt.Sprintf("VEvolve(%s,%s)", index, oldID), err, map[bool]int{true: MustOK, false: MustFail}[x.live(index, oldID)])
	if err != nil {
		return "", err
	}
	x.CS.Op("  -> newID %s", newID)
	x.M.SeenIDs[newID] = true
	x.touch(index, newID)
	mi := x.M.Idx[index]
	old := mi.Recs[oldID]
	merged := copyMeta(old.Meta)
	if merged == nil {
		merged = map[string]any{}
	}
	pend := map[string][2]float64{}
	for k, v := range old.Pend {
		pend[k] = v
	}
	for k, v := range NormMeta(meta) {
		merged[k] = v
		delete(pend, k)
	}
	oldG, newG := GraphID(index, oldID), GraphID(index, newID)
	// incoming active relations are copied (weight 0, no props)
	type inrel struct{ src, rel string }
	var ins []inrel
	for k, vs := range x.M.Edges {
		for _, v := range vs {
			if v.Target == oldG && v.Deleted == 0 && v.DHi == 0 {
				ins = append(ins, inrel{k.Src, k.Rel})
			}
		}
	}
	for _, in := range ins {
		x.M.Link(in.src, newG, in.rel, 0, "", lo, hi, nil)
	}
	pred := func(p string) bool {
		var m map[string]any
		if json.Unmarshal([]byte(p), &m) != nil {
			return false
		}
		ts, ok := m["timestamp"].(float64)
		return ok && m["reason"] == reason && len(m) == 2 && ts >= float64(lo)-1024 && ts <= float64(hi)+1024
	}
	x.M.Link(oldG, newG, "superseded_by", 0, "", lo, hi, pred)
	x.M.Link(newG, oldG, "evolves_from", 0, "", lo, hi, pred)
	v := CopyVec(vec)
	if len(v) == 0 {
		v = make([]float32, mi.Dim)
	}
	npend := map[string][2]float64{}
	for k, p := range pend {
		npend[k] = p
	}
	m2 := x.memInject(mi, merged, npend, lo, hi, true)
	// a pending _created_at inherited from the old record is copied verbatim by the engine
	mi.Recs[newID] = &Rec{Vec: v, Meta: NormMeta(m2), Pend: npend}
	x.autoLink(index, mi, newID, m2, lo, hi)
	old.Meta["_is_historical"] = true
	return newID, nil
}

// RealEdges enumerates every stored edge version.
func (x *Exec) RealEdges() []RealEdge {
	var out []RealEdge
	x.E.DB.IterateGraphEdges(func(source, target, rel string, weight float32, props []byte, c, d int64) {
		out = append(out, RealEdge{Src: source, Tgt: target, Rel: rel, Weight: weight, Props: string(props), Created: c, Deleted: d})
	})
	sort.Slice(out, func(i, j int) bool {
		a, b := out[i], out[j]
		if a.Src != b.Src {
			return a.Src < b.Src
		}
		if a.Rel != b.Rel {
			return a.Rel < b.Rel
		}
		if a.Created != b.Created {
			return a.Created < b.Created
		}
		return a.Tgt < b.Tgt
	})
	return out
}

// BindGraph compares all stored edge versions with the model and binds pending stamps.
func (x *Exec) BindGraph() string {
	return x.M.BindEdges(x.RealEdges())
}

// ---- reads vs model ---------------------------------------------------------------------

func (x *Exec) absMax(index string) float32 {
	idx, ok := x.E.DB.GetVectorIndex(index)
	if !ok {
		return 0
	}
	if h, ok := idx.(*hnsw.Index); ok && h.Quantizer() != nil {
		return h.Quantizer().AbsMax
	}
	return 0
}

// metaMatch compares metadata read from the engine with the model record, binding
// clock-chosen fields on first sight.
func metaMatch(r *Rec, got map[string]any) string {
	g := NormMeta(got)
	for k, br := range r.Pend {
		v, ok := g[k].(float64)
		if !ok {
			return fmt.Sprintf("metadata field %s missing or not a number (expected a clock value in [%v,%v]); got %s", k, br[0], br[1], CanonJSON(got))
		}
		if v < br[0] || v > br[1] {
			return fmt.Sprintf("metadata field %s=%v outside bracket [%v,%v]", k, v, br[0], br[1])
		}
		r.Meta[k] = v
		delete(r.Pend, k)
	}
	if !reflect.DeepEqual(g, r.Meta) {
		return fmt.Sprintf("metadata %s != expected %s", CanonJSON(g), CanonJSON(r.Meta))
	}
	return ""
}

// CheckRecord verifies VGet of one id against the model.
func (x *Exec) CheckRecord(index, id string) string {
	mi := x.M.Idx[index]
	d, err := x.E.VGet(index, id)
	if mi == nil || mi.Recs[id] == nil {
		if err == nil {
			return fmt.Sprintf("VGet(%s,%s) returned a record (vec=%v meta=%s) but the id is not live", index, id, d.Vector, CanonJSON(d.Metadata))
		}
		return ""
	}
	if err != nil {
		return fmt.Sprintf("VGet(%s,%s) failed for a live id: %v", index, id, err)
	}
	r := mi.Recs[id]
	if d.ID != id {
		return fmt.Sprintf("VGet(%s,%s) returned id %q", index, id, d.ID)
	}
	if ok, why := VecMatch(mi.Cfg, r.Vec, d.Vector, x.absMax(index)); !ok {
		return fmt.Sprintf("VGet(%s,%s) vector %v does not match stored %v: %s", index, id, d.Vector, r.Vec, why)
	}
	if msg := metaMatch(r, d.Metadata); msg != "" {
		return fmt.Sprintf("VGet(%s,%s): %s", index, id, msg)
	}
	return ""
}

func cfgJSON(v any) string { b, _ := json.Marshal(v); return string(b) }

// CheckFull compares every read the properties name against the model. It returns "" or
// the first disagreement.
func (x *Exec) CheckFull() string {
	x.Settle()
	m := x.M
	// KV
	for k := range m.SeenKeys {
		got, ok := x.E.KVGet(k)
		want, live := m.KV[k]
		if ok != live {
			return fmt.Sprintf("KVGet(%q) found=%v, model live=%v", k, ok, live)
		}
		if live && !bytes.Equal(got, want) {
			return fmt.Sprintf("KVGet(%q)=%x want %x", k, got, want)
		}
	}
	var userKeys []string
	for _, k := range x.E.DB.GetKVStore().Keys() {
		userKeys = append(userKeys, k)
	}
	sort.Strings(userKeys)
	if want := sortedKeys(m.KV); !reflect.DeepEqual(userKeys, want) && !(len(userKeys) == 0 && len(want) == 0) {
		return fmt.Sprintf("KV key set %v want %v", userKeys, want)
	}
	// indexes
	got := x.E.ListIndexes()
	sort.Strings(got)
	if want := sortedKeys(m.Idx); !reflect.DeepEqual(got, want) && !(len(got) == 0 && len(want) == 0) {
		return fmt.Sprintf("ListIndexes %v want %v", got, want)
	}
	for _, name := range sortedKeys(m.SeenIdx) {
		mi := m.Idx[name]
		info, err := x.E.DB.GetSingleVectorIndexInfoAPI(name)
		if mi == nil {
			if err == nil {
				return fmt.Sprintf("index %s exists but was dropped / never created", name)
			}
			for id := range m.SeenIDs {
				if _, e := x.E.VGet(name, id); e == nil {
					return fmt.Sprintf("VGet(%s,%s) succeeded on a non-existing index", name, id)
				}
			}
			continue
		}
		if err != nil {
			return fmt.Sprintf("index info of %s: %v", name, err)
		}
		c := mi.Cfg
		if info.Metric != c.Metric || info.Precision != c.Prec || info.M != c.M || info.EfConstruction != c.EfC || info.TextLanguage != c.Lang {
			return fmt.Sprintf("index %s info %+v does not match config %s", name, info, vkit.JSON(c))
		}
		if info.VectorCount != len(mi.Recs) {
			return fmt.Sprintf("index %s VectorCount=%d want %d", name, info.VectorCount, len(mi.Recs))
		}
		idx, _ := x.E.DB.GetVectorIndex(name)
		h := idx.(*hnsw.Index)
		wantMaint := hnsw.DefaultMaintenanceConfig()
		if c.Maint != nil {
			wantMaint = *c.Maint
		}
		if g := h.GetMaintenanceConfig(); cfgJSON(g) != cfgJSON(wantMaint) {
			return fmt.Sprintf("index %s maintenance config %s want %s", name, cfgJSON(g), cfgJSON(wantMaint))
		}
		if g := h.GetAutoLinks(); !(len(g) == 0 && len(c.AutoLinks) == 0) && cfgJSON(g) != cfgJSON(c.AutoLinks) {
			return fmt.Sprintf("index %s auto-link rules %s want %s", name, cfgJSON(g), cfgJSON(c.AutoLinks))
		}
		wantMem := hnsw.MemoryConfig{}
		if c.Mem != nil {
			wantMem = *c.Mem
		}
		if g := h.GetMemoryConfig(); cfgJSON(g) != cfgJSON(wantMem) {
			return fmt.Sprintf("index %s memory config %s want %s", name, cfgJSON(g), cfgJSON(wantMem))
		}
		// every id of the universe
		ids := sortedKeys(m.SeenIDs)
		for _, id := range ids {
			if msg := x.CheckRecord(name, id); msg != "" {
				return msg
			}
		}
		// get-many
		many, err := x.E.VGetMany(name, ids)
		if err != nil {
			return fmt.Sprintf("VGetMany(%s): %v", name, err)
		}
		seen := map[string]bool{}
		for _, d := range many {
			if seen[d.ID] {
				return fmt.Sprintf("VGetMany(%s) returned %s twice", name, d.ID)
			}
			seen[d.ID] = true
			r := mi.Recs[d.ID]
			if r == nil {
				return fmt.Sprintf("VGetMany(%s) returned non-live id %s", name, d.ID)
			}
			if ok, why := VecMatch(c, r.Vec, d.Vector, x.absMax(name)); !ok {
				return fmt.Sprintf("VGetMany(%s) id %s vector: %s", name, d.ID, why)
			}
			if msg := metaMatch(r, d.Metadata); msg != "" {
				return fmt.Sprintf("VGetMany(%s) id %s: %s", name, d.ID, msg)
			}
		}
		if len(many) != len(mi.Recs) {
			return fmt.Sprintf("VGetMany(%s) returned %d records, %d live", name, len(many), len(mi.Recs))
		}
		// cursor walk
		var walk []string
		cur := uint32(0)
		for step := 0; step < 100000; step++ {
			page, next, err := x.E.VGetIDsByCursor(name, cur, 3)
			if err != nil {
				return fmt.Sprintf("VGetIDsByCursor(%s): %v", name, err)
			}
			walk = append(walk, page...)
			if next == 0 {
				break
			}
			cur = next
		}
		ws := map[string]bool{}
		for _, id := range walk {
			if ws[id] {
				return fmt.Sprintf("cursor walk of %s lists %s twice (%v)", name, id, walk)
			}
			ws[id] = true
		}
		if want := sortedKeys(mi.Recs); !reflect.DeepEqual(sortedKeys(ws), want) && !(len(ws) == 0 && len(want) == 0) {
			return fmt.Sprintf("cursor walk of %s lists %v want %v", name, sortedKeys(ws), want)
		}
		if msg := x.CheckStructure(name); msg != "" {
			return msg
		}
	}
	// graph: versions + current views
	if msg := x.BindGraph(); msg != "" {
		return msg
	}
	return x.CheckGraphViews(0)
}

// CheckStructure walks the exported snapshot data of an index: id maps mutually inverse on
// live nodes.
func (x *Exec) CheckStructure(name string) string {
	idx, ok := x.E.DB.GetVectorIndex(name)
	if !ok {
		return ""
	}
	h := idx.(*hnsw.Index)
	nodes, ext2int, _, _, _, _, _, _, _, _ := h.SnapshotData()
	for ext, in := range ext2int {
		n := nodes[in]
		if n == nil {
			return fmt.Sprintf("index %s: external id %s maps to internal %d which has no node", name, ext, in)
		}
		if n.Id != ext {
			return fmt.Sprintf("index %s: external id %s maps to internal %d whose node carries id %s", name, ext, in, n.Id)
		}
		if n.Deleted.Load() {
			// a soft-deleted node must not be reachable by its external id
			if _, err := x.E.VGet(name, ext); err == nil {
				return fmt.Sprintf("index %s: deleted node %s still readable", name, ext)
			}
		}
	}
	live := map[string]uint32{}
	for in, n := range nodes {
		if n == nil || n.Deleted.Load() {
			continue
		}
		if prev, dup := live[n.Id]; dup {
			return fmt.Sprintf("index %s: two live nodes (%d and %d) carry external id %s", name, prev, in, n.Id)
		}
		live[n.Id] = in
		if got, ok := ext2int[n.Id]; !ok || got != in {
			return fmt.Sprintf("index %s: live node %d (%s) is not the target of its external id (map says %d,%v)", name, in, n.Id, got, ok)
		}
	}
	return ""
}

// NodeSlots is the number of nodes the index holds, tombstones included (0 = unknown).
func (x *Exec) NodeSlots(name string) int {
	idx, ok := x.E.DB.GetVectorIndex(name)
	if !ok {
		return 0
	}
	h, ok := idx.(*hnsw.Index)
	if !ok {
		return 0
	}
	nodes, _, _, _, _, _, _, _, _, _ := h.SnapshotData()
	n := 0
	for _, nd := range nodes {
		if nd != nil {
			n++
		}
	}
	return n
}

// CheckGraphViews compares the engine's graph queries at time t (0 = now) with the model
// for every node x relation of the universe.
func (x *Exec) CheckGraphViews(t int64) string {
	m := x.M
	for _, gid := range sortedKeys(m.SeenNode) {
		i := strings.Index(gid, "::")
		if i < 0 {
			continue
		}
		index, node := gid[:i], gid[i+2:]
		wantRels := map[string][]string{}
		wantInRels := map[string][]string{}
		for _, rel := range sortedKeys(m.SeenRel) {
			out := m.OutAt(gid, rel, t)
			edges, found := x.E.VGetEdges(index, node, rel, t)
			if found != (len(out) > 0) {
				return fmt.Sprintf("VGetEdges(%s,%s,%s,@%d) found=%v, model has %d active", index, node, rel, t, found, len(out))
			}
			var gotT, wantT []string
			for _, e := range edges {
				gotT = append(gotT, fmt.Sprintf("%s|w=%v|p=%s|c=%d|d=%d", e.TargetID, e.Weight, normProps(string(e.Props)), e.CreatedAt, e.DeletedAt))
			}
			for _, v := range out {
				wantT = append(wantT, fmt.Sprintf("%s|w=%v|p=%s|c=%d|d=%d", NodeOf(v.Target), v.Weight, normProps(v.Props), v.Created, v.Deleted))
			}
			sort.Strings(gotT)
			sort.Strings(wantT)
			if !reflect.DeepEqual(gotT, wantT) {
				return fmt.Sprintf("VGetEdges(%s,%s,%s,@%d)=%v want %v", index, node, rel, t, gotT, wantT)
			}
			ins := m.InAt(gid, rel, t)
			inEdges, _ := x.E.VGetIncomingEdges(index, node, rel, t)
			var gotS, gotInFull []string
			for _, e := range inEdges {
				gotS = append(gotS, e.TargetID)
				gotInFull = append(gotInFull, fmt.Sprintf("%s|w=%v|p=%s|c=%d|d=%d", e.TargetID, e.Weight, normProps(string(e.Props)), e.CreatedAt, e.DeletedAt))
			}
			sort.Strings(gotS)
			sort.Strings(gotInFull)
			var wantS []string
			for _, s := range ins {
				wantS = append(wantS, NodeOf(s))
			}
			if !reflect.DeepEqual(gotS, wantS) && !(len(gotS) == 0 && len(wantS) == 0) {
				return fmt.Sprintf("VGetIncomingEdges(%s,%s,%s,@%d) sources=%v want %v", index, node, rel, t, gotS, wantS)
			}
			// the incoming view carries the same version (weight, properties, stamps) the
			// outgoing view of its source shows for that instant
			var wantInFull []string
			for k, vs := range m.Edges {
				if k.Rel != rel {
					continue
				}
				for _, v := range vs {
					if v.Target == gid && ActiveAt(v.Created, v.Deleted, t) {
						wantInFull = append(wantInFull, fmt.Sprintf("%s|w=%v|p=%s|c=%d|d=%d", NodeOf(k.Src), v.Weight, normProps(v.Props), v.Created, v.Deleted))
					}
				}
			}
			sort.Strings(wantInFull)
			if len(wantInFull) == len(gotInFull) && !reflect.DeepEqual(gotInFull, wantInFull) {
				return fmt.Sprintf("VGetIncomingEdges(%s,%s,%s,@%d)=%v, the versions active then are %v", index, node, rel, t, gotInFull, wantInFull)
			}
			if t == 0 {
				links, _ := x.E.VGetLinks(index, node, rel)
				sort.Strings(links)
				var wl []string
				for _, v := range out {
					wl = append(wl, NodeOf(v.Target))
				}
				sort.Strings(wl)
				if !reflect.DeepEqual(links, wl) && !(len(links) == 0 && len(wl) == 0) {
					return fmt.Sprintf("VGetLinks(%s,%s,%s)=%v want %v", index, node, rel, links, wl)
				}
				inc, _ := x.E.VGetIncoming(index, node, rel)
				sort.Strings(inc)
				if !reflect.DeepEqual(inc, wantS) && !(len(inc) == 0 && len(wantS) == 0) {
					return fmt.Sprintf("VGetIncoming(%s,%s,%s)=%v want %v", index, node, rel, inc, wantS)
				}
				if len(wl) > 0 {
					wantRels[rel] = wl
				}
				if len(wantS) > 0 {
					wantInRels[rel] = wantS
				}
			}
		}
		if t == 0 {
			if msg := relMapDiff("VGetRelations", index, node, x.E.VGetRelations(index, node), wantRels); msg != "" {
				return msg
			}
			if msg := relMapDiff("VGetIncomingRelations", index, node, x.E.VGetIncomingRelations(index, node), wantInRels); msg != "" {
				return msg
			}
		}
	}
	return ""
}

func normProps(p string) string {
	if p == "null" {
		return ""
	}
	return p
}

func relMapDiff(api, index, node string, got, want map[string][]string) string {
	g := map[string][]string{}
	for k, v := range got {
		if len(v) == 0 {
			continue
		}
		s := append([]string(nil), v...)
		sort.Strings(s)
		g[k] = s
	}
	if len(g) == 0 && len(want) == 0 {
		return ""
	}
	if !reflect.DeepEqual(g, want) {
		return fmt.Sprintf("%s(%s,%s)=%v want %v", api, index, node, g, want)
	}
	return ""
}

// KindKey is the distinctness key of an episode: its op-kind sequence.
func (x *Exec) KindKey() string { return strings.Join(x.Kinds, ",") }

// MetaMatch compares metadata read from the engine with the model record (binding clock-chosen
// fields on first sight), for checks that read records themselves.
func MetaMatch(r *Rec, got map[string]any) string { return metaMatch(r, got) }

// AbsMax returns the trained int8 range of an index as the exported quantizer reports it (0 =
// no quantizer / untrained).
func (x *Exec) AbsMax(index string) float32 { return x.absMax(index) }

package vexec

import (
	"fmt"
	"strings"
	"time"

	"github.com/sanonone/kektordb/internal/zzverif/vkit"
	"github.com/sanonone/kektordb/pkg/core/distance"
	"github.com/sanonone/kektordb/pkg/core/hnsw"
	"github.com/sanonone/kektordb/pkg/core/types"
)

// Gen draws operations over a deliberately small universe so that re-adds, duplicates,
// type changes and parallel edges happen constantly.
type Gen struct {
	R       *vkit.Rand
	Dim     int
	Indexes []string
	IDs     []string
	Keys    []string
	Rels    []string
	Words   []string
	// switches
	NoCompress   bool // never generate VCompress
	NoEvolve     bool
	NoImport     bool
	NoMemory     bool
	NoAutoLinks  bool
	NoGraphVac   bool
	NoDrop       bool
	OnlyValidCfg bool
	// NoDupReinforce: never list one id twice in a VReinforce call (the intermediate count
	// is a state the model does not record; matters only for crash images)
	NoDupReinforce bool
	NoChurn        bool        // no multi-call edge churn steps
	NoTypedMeta    bool        // metadata values are JSON-native only
	Combos         [][2]string // allowed metric/precision pairs (nil = all valid)
	// Opt-in extensions (zero value = the behaviour every check was built on; no extra draws
	// from R while they are off):
	// NilVecPct: percentage of generated adds (single add, batch / import item, evolve) that
	// carry NO vector ("vector-less entity": the engine stores a zero vector of the index's
	// dimension). Mostly drawn for a non-empty index (on an empty one the call is a rejection).
	NilVecPct int
	// ReservedMeta: generated metadata sometimes carries the keys the memory machinery owns
	// (_created_at, memory_layer, _pinned, _access_count, _last_accessed) with user values.
	ReservedMeta bool
	// DimOf: vector dimension per index name (nil / missing name = Dim for every index).
	DimOf map[string]int
	// CfgHook, when set, may adjust every index configuration Cfg has drawn.
	CfgHook func(*IndexCfg)
}

var Vocab = []string{"alpha", "beta", "gamma", "delta", "red", "green", "running", "connected", "caffè", "città", "the", "not"}

func NewGen(r *vkit.Rand) *Gen {
	return &Gen{
		R: r, Dim: vkit.Pick(r, []int{2, 3, 4, 8}),
		Indexes: []string{"ia", "ib", "ic"},
		IDs:     []string{"n0", "n1", "n2", "n3", "n4", "n5", "n6", "n7"},
		// keys: plain ones, two that look like the engine's own graph prefixes, one with RESP
		// control characters, one non-ASCII
		Keys:    []string{"k0", "k1", "k2", "rel:a", "rev:b", "k\r\n$-1", "ключ"},
		Rels:    []string{"r", "s"},
		Words:   Vocab,
	}
}

var AllCombos = [][2]string{
	{string(distance.Euclidean), string(distance.Float32)}, {string(distance.Cosine), string(distance.Float32)},
	{string(distance.Euclidean), string(distance.Float16)}, {string(distance.Cosine), string(distance.Int8)},
}

func (g *Gen) Vec() []float32 { return g.vecOf(g.Dim) }

// VecFor draws a vector of the dimension of the given index (DimOf, else Dim).
func (g *Gen) VecFor(index string) []float32 {
	if d, ok := g.DimOf[index]; ok && d > 0 {
		return g.vecOf(d)
	}
	return g.vecOf(g.Dim)
}

// AddVec is VecFor, or (NilVecPct) no vector at all.
func (g *Gen) AddVec(m *Model, index string) []float32 {
	if g.NilVecPct > 0 && g.R.Intn(100) < g.NilVecPct {
		if mi := m.Idx[index]; (mi != nil && len(mi.Recs) > 0) || g.R.Chance(0.1) {
			return nil
		}
	}
	return g.VecFor(index)
}

func (g *Gen) vecOf(dim int) []float32 {
	v := make([]float32, dim)
	switch g.R.Intn(12) {
	case 0: // zero vector
	case 1: // large magnitudes (still finite in float16)
		for i := range v {
			v[i] = g.R.F32() * 1000
		}
	case 2: // tiny
		for i := range v {
			v[i] = g.R.F32() * 1e-4
		}
	case 3: // small integers (collisions / duplicates)
		for i := range v {
			v[i] = float32(g.R.Intn(3) - 1)
		}
	default:
		for i := range v {
			v[i] = g.R.F32()
		}
	}
	return v
}

func (g *Gen) Text() string {
	n := g.R.Range(1, 6)
	w := make([]string, n)
	for i := range w {
		w[i] = vkit.Pick(g.R, g.Words)
	}
	return strings.Join(w, " ")
}

func (g *Gen) Value() any {
	switch g.R.Intn(9) {
	case 8:
		if g.NoTypedMeta {
			return vkit.Pick(g.R, g.Words)
		}
		// Go-typed values an embedding caller may pass (the JSON form of each is one of the
		// shapes above, so the model and every read-out treat them alike)
		switch g.R.Intn(7) {
		case 0:
			return []string{vkit.Pick(g.R, g.Words), vkit.Pick(g.R, g.Words)}
		case 1:
			return g.R.Intn(7) - 2
		case 2:
			return int64(g.R.Intn(7) - 2)
		case 3:
			return float32(g.R.Intn(16)) / 4
		case 4:
			return map[string]string{"a": vkit.Pick(g.R, g.Words)}
		case 5:
			return []int{g.R.Intn(5), g.R.Intn(5)}
		default:
			return []float64{float64(g.R.Intn(5)), 2.5}
		}
	case 0, 1:
		return vkit.Pick(g.R, g.Words)
	case 2:
		return float64(g.R.Intn(7) - 2)
	case 3:
		return float64(g.R.Intn(2000)-1000) / 8
	case 4:
		return g.R.Chance(0.5)
	case 5:
		n := g.R.Range(0, 3)
		l := make([]any, n)
		for i := range l {
			l[i] = vkit.Pick(g.R, g.Words)
		}
		return l
	case 6:
		return 1e15 + float64(g.R.Intn(1000))
	default:
		return g.Text()
	}
}

var MetaKeys = []string{"cat", "num", "flag", "tags"}

// Meta returns nil, an empty map, or a small map (keys collide on purpose).
func (g *Gen) Meta() map[string]any {
	switch g.R.Intn(6) {
	case 0:
		return nil
	case 1:
		return map[string]any{}
	}
	m := map[string]any{}
	n := g.R.Range(1, 3)
	for i := 0; i < n; i++ {
		m[vkit.Pick(g.R, MetaKeys)] = g.Value()
	}
	if g.R.Chance(0.5) {
		m["content"] = g.Text()
	}
	if g.R.Chance(0.15) {
		// values that no secondary index covers: nested object, null, mixed list
		switch g.R.Intn(3) {
		case 0:
			m["obj"] = map[string]any{"a": float64(g.R.Intn(5)), "b": []any{vkit.Pick(g.R, g.Words)}, "c": map[string]any{"d": g.R.Chance(0.5)}}
		case 1:
			m["obj"] = nil
		default:
			m["obj"] = []any{float64(g.R.Intn(5)), vkit.Pick(g.R, g.Words), g.R.Chance(0.5), nil}
		}
	}
	if g.ReservedMeta && g.R.Chance(0.3) {
		for n := g.R.Range(1, 2); n > 0; n-- {
			switch g.R.Intn(5) {
			case 0: // "only inject if missing (allows importing historical data)"
				m["_created_at"] = float64(12345 + g.R.Intn(3))
			case 1: // a configured layer, the default one, the empty string, an unconfigured one
				m["memory_layer"] = vkit.Pick(g.R, []string{"procedural", "procedural", "episodic", "", "semantic"})
			case 2:
				m["_pinned"] = g.R.Chance(0.5)
			case 3:
				m["_access_count"] = float64(g.R.Intn(5))
			default:
				m["_last_accessed"] = float64(5 + g.R.Intn(3))
			}
		}
	}
	return m
}

func (g *Gen) Cfg(name string) IndexCfg {
	combos := g.Combos
	if combos == nil {
		combos = AllCombos
	}
	c := vkit.Pick(g.R, combos)
	cfg := IndexCfg{
		Name: name, Metric: distance.DistanceMetric(c[0]), Prec: distance.PrecisionType(c[1]),
		M: vkit.Pick(g.R, []int{2, 4, 16, 0}), EfC: vkit.Pick(g.R, []int{4, 8, 200, 0}), // 0 = the engine's default (16 / 200)
		Lang: vkit.Pick(g.R, []string{"", "english", "italian"}),
	}
	if g.R.Chance(0.3) {
		mc := hnsw.DefaultMaintenanceConfig()
		mc.DeleteThreshold = float64(g.R.Range(1, 9)) / 10
		mc.RefineEnabled = g.R.Chance(0.5)
		mc.RefineBatchSize = g.R.Range(1, 50)
		mc.VacuumInterval = hnsw.Duration(time.Duration(g.R.Range(1, 100)) * time.Minute)
		g.maintExtras(&mc)
		cfg.Maint = &mc
	}
	if !g.NoAutoLinks && g.R.Chance(0.25) {
		cfg.AutoLinks = []hnsw.AutoLinkRule{{MetadataField: "cat", RelationType: "in_cat"}}
	}
	if !g.NoMemory && g.R.Chance(0.25) {
		mem := hnsw.MemoryConfig{Enabled: !g.R.Chance(0.15), DecayModel: vkit.Pick(g.R, []hnsw.DecayModel{hnsw.DecayExponential, hnsw.DecayLinear, hnsw.DecayStep, hnsw.DecayEbbinghaus}),
			DecayHalfLife: hnsw.Duration(time.Duration(g.R.Range(1, 72)) * time.Hour)}
		if g.R.Chance(0.5) {
			mem.Layers = map[string]hnsw.LayerConfig{
				"episodic":   {DecayHalfLife: hnsw.Duration(time.Hour)},
				"procedural": {DecayHalfLife: 0, PinnedByDefault: true},
			}
		}
		if g.R.Chance(0.3) {
			mem.Consolidation = hnsw.ConsolidationConfig{SimilarityThreshold: 0.8, MaxEpisodicAge: hnsw.Duration(48 * time.Hour)}
		}
		cfg.Mem = &mem
	}
	if g.CfgHook != nil {
		g.CfgHook(&cfg)
	}
	return cfg
}

// maintExtras sets the less common maintenance fields to non-default values (a field that a
// journal record, the snapshot or the compression carry-over drops shows only when it is
// not the default). Intervals stay far above any run time: no timer fires.
func (g *Gen) maintExtras(mc *hnsw.AutoMaintenanceConfig) {
	if g.R.Chance(0.5) {
		mc.GraphVacuumInterval = hnsw.Duration(time.Duration(g.R.Range(2, 50)) * time.Hour)
		mc.RefineInterval = hnsw.Duration(time.Duration(g.R.Range(61, 600)) * time.Minute)
		mc.RefineEfConstruction = g.R.Range(0, 300)
	}
	if g.R.Chance(0.3) {
		mc.ArenaCompaction.Threshold = float64(g.R.Range(1, 9)) / 10
		mc.ArenaCompaction.BatchSize = g.R.Range(1, 500)
		mc.ArenaCompaction.Enabled = g.R.Chance(0.5)
	}
}

func (g *Gen) liveIndexes(m *Model) []string { return sortedKeys(m.Idx) }

func (g *Gen) pickIndex(m *Model) string {
	l := g.liveIndexes(m)
	if len(l) == 0 || g.R.Chance(0.03) {
		return vkit.Pick(g.R, g.Indexes)
	}
	return vkit.Pick(g.R, l)
}

func (g *Gen) pickLive(m *Model, index string) (string, bool) {
	mi := m.Idx[index]
	if mi == nil || len(mi.Recs) == 0 {
		return "", false
	}
	return vkit.Pick(g.R, sortedKeys(mi.Recs)), true
}

// Weight: small integers (so that re-links often repeat the current weight), sometimes a
// fraction, a negative or a huge value.
func (g *Gen) Weight() float32 {
	if g.R.Chance(0.15) {
		return vkit.Pick(g.R, []float32{0.1, -2.5, 1e30, 1.5e-7})
	}
	return float32(g.R.Intn(3))
}

func (g *Gen) Props() map[string]any {
	switch g.R.Intn(4) {
	case 0:
		return nil
	case 1:
		return map[string]any{"k": vkit.Pick(g.R, g.Words)}
	case 2:
		return map[string]any{"k": float64(g.R.Intn(3)), "since": "2020"}
	default:
		return map[string]any{}
	}
}

func (g *Gen) Batch(m *Model, index string, n int) []types.BatchObject {
	var items []types.BatchObject
	used := map[string]bool{}
	mi := m.Idx[index]
	for len(items) < n {
		id := vkit.Pick(g.R, g.IDs)
		if g.R.Chance(0.5) {
			id = fmt.Sprintf("b%d", g.R.Intn(40))
		}
		// mostly fresh ids (a duplicate makes the whole batch a rejection)
		if (used[id] || (mi != nil && mi.Recs[id] != nil)) && !g.R.Chance(0.04) {
			continue
		}
		used[id] = true
		items = append(items, types.BatchObject{Id: id, Vector: g.AddVec(m, index), Metadata: g.Meta()})
	}
	return items
}

// Step executes one random data operation (no restart / admin op).
// Churn links and soft-unlinks ONE (source, target, relation) several times in a row (the
// same weight or a changing one), ending linked or unlinked: version lists and reverse
// entries with several closed generations of the same edge.
func (g *Gen) Churn(x *Exec, ix string) {
	r := g.R
	src, tgt, rel := vkit.Pick(r, g.IDs[:5]), vkit.Pick(r, g.IDs[:5]), vkit.Pick(r, g.Rels)
	inv := ""
	if r.Chance(0.3) {
		inv = "inv_" + g.Rels[0]
	}
	w := float32(r.Intn(3))
	n := r.Range(3, 6)
	for i := 0; i < n; i++ {
		if i%2 == 0 {
			if r.Chance(0.3) {
				w = float32(r.Intn(3))
			}
			x.VLink(ix, src, tgt, rel, inv, w, nil)
		} else {
			x.VUnlink(ix, src, tgt, rel, inv, false)
		}
	}
}

func (g *Gen) Step(x *Exec) {
	m := x.M
	r := g.R
	if len(m.Idx) == 0 || r.Chance(0.04) {
		name := vkit.Pick(r, g.Indexes)
		if m.Idx[name] == nil || r.Chance(0.2) {
			x.VCreate(g.Cfg(name))
			return
		}
	}
	ix := g.pickIndex(m)
	switch p := r.Intn(100); {
	case p < 6:
		n := r.Intn(6)
		if r.Chance(0.04) {
			n = 5000 // larger than the log writer's buffer
		}
		x.KVSet(vkit.Pick(r, g.Keys), r.Bytes(n))
	case p < 9:
		x.KVDelete(vkit.Pick(r, g.Keys))
	case p < 34:
		id := vkit.Pick(r, g.IDs)
		if x.live(ix, id) && !r.Chance(0.15) { // mostly valid adds; some duplicates
			for _, c := range g.IDs {
				if !x.live(ix, c) {
					id = c
					break
				}
			}
		}
		x.VAdd(ix, id, g.AddVec(m, ix), g.Meta())
	case p < 40:
		x.VAddBatch(ix, g.Batch(m, ix, r.Range(1, 6)))
	case p < 42:
		if g.NoImport {
			x.VAddBatch(ix, g.Batch(m, ix, r.Range(1, 4)))
			return
		}
		if err := x.VImport(ix, g.Batch(m, ix, r.Range(1, 6))); err == nil {
			x.VImportCommit(ix)
		}
	case p < 54:
		if id, ok := g.pickLive(m, ix); ok && !r.Chance(0.1) {
			x.VDelete(ix, id)
		} else {
			x.VDelete(ix, vkit.Pick(r, g.IDs))
		}
	case p < 64:
		if id, ok := g.pickLive(m, ix); ok && !r.Chance(0.1) {
			x.VSetMetadata(ix, id, g.Meta())
		} else {
			x.VSetMetadata(ix, vkit.Pick(r, g.IDs), g.Meta())
		}
	case p < 69:
		ids := []string{vkit.Pick(r, g.IDs)}
		if id, ok := g.pickLive(m, ix); ok && !(g.NoDupReinforce && id == ids[0]) {
			ids = append(ids, id)
		}
		x.VReinforce(ix, ids)
	case p < 72:
		if g.NoEvolve {
			return
		}
		if id, ok := g.pickLive(m, ix); ok {
			x.VEvolve(ix, id, g.AddVec(m, ix), g.Meta(), vkit.Pick(r, g.Words))
		}
	case p < 83:
		src, tgt := vkit.Pick(r, g.IDs[:5]), vkit.Pick(r, g.IDs[:5])
		inv := ""
		if r.Chance(0.3) {
			inv = "inv_" + g.Rels[0]
		}
		x.VLink(ix, src, tgt, vkit.Pick(r, g.Rels), inv, float32(r.Intn(3)), g.Props())
	case p < 86:
		if g.NoChurn { // one call per step (C02 records one model state per step)
			x.VUnlink(ix, vkit.Pick(r, g.IDs[:5]), vkit.Pick(r, g.IDs[:5]), vkit.Pick(r, g.Rels), "", false)
			return
		}
		g.Churn(x, ix)
	case p < 94:
		src, tgt := vkit.Pick(r, g.IDs[:5]), vkit.Pick(r, g.IDs[:5])
		inv := ""
		if r.Chance(0.3) {
			inv = "inv_" + g.Rels[0]
		}
		x.VUnlink(ix, src, tgt, vkit.Pick(r, g.Rels), inv, r.Chance(0.3))
	case p < 96:
		if m.Idx[ix] != nil {
			mc := hnsw.DefaultMaintenanceConfig()
			mc.DeleteThreshold = float64(r.Range(1, 9)) / 10
			mc.RefineBatchSize = r.Range(1, 99)
			g.maintExtras(&mc)
			x.VUpdateIndexConfig(ix, mc)
		}
	case p < 97:
		if m.Idx[ix] != nil && !g.NoAutoLinks {
			rules := []hnsw.AutoLinkRule{{MetadataField: vkit.Pick(r, []string{"cat", "num"}), RelationType: "al"}}
			switch r.Intn(6) {
			case 0:
				rules = nil // clearing the rules is an update like any other
			case 1:
				rules = []hnsw.AutoLinkRule{}
			case 2:
				rules = append(rules, hnsw.AutoLinkRule{MetadataField: "flag", RelationType: "al2", CreateNode: true})
			}
			x.VUpdateAutoLinks(ix, rules)
		}
	case p < 99:
		if !g.NoDrop {
			x.VDeleteIndex(ix)
		}
	default:
		x.VCreate(g.Cfg(vkit.Pick(r, g.Indexes)))
	}
}

// Admin executes one random maintenance / admin operation.
func (g *Gen) Admin(x *Exec) {
	r := g.R
	ix := g.pickIndex(x.M)
	switch p := r.Intn(100); {
	case p < 25:
		x.SaveSnapshot()
	case p < 50:
		x.RewriteAOF()
	case p < 65:
		if x.M.Idx[ix] != nil {
			x.Maintenance(ix, "vacuum")
		}
	case p < 75:
		if x.M.Idx[ix] != nil {
			x.Maintenance(ix, "refine")
		}
	case p < 90:
		if g.NoCompress || x.M.Idx[ix] == nil {
			return
		}
		mi := x.M.Idx[ix]
		target := distance.PrecisionType(distance.Float16)
		if mi.Cfg.Metric == distance.Cosine {
			target = distance.Int8
		}
		if r.Chance(0.15) {
			target = vkit.Pick(r, []distance.PrecisionType{distance.Float16, distance.Int8, distance.Float32, "bogus"})
		}
		x.VCompress(ix, target)
	default:
		if g.NoGraphVac {
			return
		}
		// engine graph vacuum; sometimes first give an index a (1ns) retention
		if x.M.Idx[ix] != nil && r.Chance(0.5) {
			mc := hnsw.DefaultMaintenanceConfig()
			if x.M.Idx[ix].Cfg.Maint != nil {
				mc = *x.M.Idx[ix].Cfg.Maint
			}
			mc.GraphRetention = 1
			x.VUpdateIndexConfig(ix, mc)
		}
		x.GraphVacuumNow()
	}
}

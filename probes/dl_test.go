package scratch

import (
	"fmt"
	"sync"
	"sync/atomic"
	"testing"
	"time"

	"github.com/sanonone/kektordb/pkg/core/distance"
)

func TestDeadlockVGet(t *testing.T) {
	dir := t.TempDir()
	e := open(t, dir)
	e.VCreate("i", distance.Euclidean, 4, 8, distance.Float32, "", nil, nil, nil)
	for i := 0; i < 20; i++ {
		e.VAdd("i", fmt.Sprintf("s%d", i), []float32{float32(i), 0}, map[string]any{"n": float64(i)})
	}
	var ops atomic.Int64
	stop := make(chan struct{})
	var wg sync.WaitGroup
	for w := 0; w < 8; w++ {
		wg.Add(1)
		go func(w int) {
			defer wg.Done()
			for {
				select { case <-stop: return; default: }
				e.VGet("i", fmt.Sprintf("s%d", w))
				ops.Add(1)
			}
		}(w)
	}
	wg.Add(1)
	go func() {
		defer wg.Done()
		for n := 0; ; n++ {
			select { case <-stop: return; default: }
			name := fmt.Sprintf("tmp%d", n%3)
			e.VCreate(name, distance.Euclidean, 4, 8, distance.Float32, "", nil, nil, nil)
			e.VDeleteIndex(name)
			ops.Add(1)
		}
	}()
	last := int64(-1)
	for s := 0; s < 10; s++ {
		time.Sleep(300 * time.Millisecond)
		cur := ops.Load()
		if cur == last {
			t.Logf("STALL detected at %dms, ops=%d", (s+1)*300, cur)
			return // leak goroutines
		}
		last = cur
	}
	close(stop)
	wg.Wait()
	t.Log("no stall, ops=", ops.Load())
	e.Close()
}

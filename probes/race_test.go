package scratch

import (
	"fmt"
	"sync"
	"testing"
	"math/rand"

	"github.com/sanonone/kektordb/pkg/core/distance"
	"github.com/sanonone/kektordb/pkg/core/types"
)

func TestRaceMix(t *testing.T) {
	dir := t.TempDir()
	e := open(t, dir)
	e.VCreate("i", distance.Euclidean, 4, 8, distance.Float32, "english", nil, nil, nil)
	for i := 0; i < 30; i++ {
		e.VAdd("i", fmt.Sprintf("s%d", i), []float32{float32(i), 0, 1}, map[string]any{"n": float64(i), "content": "hello world"})
	}
	var wg sync.WaitGroup
	for w := 0; w < 6; w++ {
		wg.Add(1)
		go func(w int) {
			defer wg.Done()
			r := rand.New(rand.NewSource(int64(w)))
			for it := 0; it < 150; it++ {
				id := fmt.Sprintf("w%d_%d", w, r.Intn(20))
				switch r.Intn(9) {
				case 0: e.VAdd("i", id, []float32{r.Float32(), r.Float32(), 1}, map[string]any{"n": float64(it), "content": "foo bar"})
				case 1: e.VDelete("i", id)
				case 2: e.VSearch("i", []float32{r.Float32(), 0, 1}, 5, "n>3", "", 0, 1, nil)
				case 3: e.VSetMetadata("i", fmt.Sprintf("s%d", r.Intn(30)), map[string]any{fmt.Sprintf("k%d", w): float64(it)})
				case 4: e.VReinforce("i", []string{fmt.Sprintf("s%d", r.Intn(30))})
				case 5: e.VLink("i", fmt.Sprintf("s%d", r.Intn(30)), fmt.Sprintf("s%d", r.Intn(30)), "r", "inv", 1, nil)
				case 6: e.VGetMany("i", []string{"s1", "s2", id})
				case 7: 
					var items []types.BatchObject
					for j := 0; j < 12; j++ { items = append(items, types.BatchObject{Id: fmt.Sprintf("b%d_%d_%d", w, it, j), Vector: []float32{r.Float32(), 2, 1}}) }
					e.VAddBatch("i", items)
				case 8: e.KVSet(fmt.Sprintf("k%d", r.Intn(5)), []byte(id))
				}
			}
		}(w)
	}
	wg.Add(1)
	go func() {
		defer wg.Done()
		for it := 0; it < 8; it++ {
			switch it % 4 {
			case 0: e.SaveSnapshot()
			case 1: e.RewriteAOF()
			case 2: e.VTriggerMaintenance("i", "vacuum")
			case 3: e.VTriggerMaintenance("i", "refine")
			}
		}
	}()
	wg.Wait()
	e.Close()
}

package scratch

import (
	"testing"
	"time"
	"fmt"

	"github.com/sanonone/kektordb/pkg/core/distance"
	"github.com/sanonone/kektordb/pkg/engine"
)

func open(t *testing.T, dir string) *engine.Engine {
	o := engine.DefaultOptions(dir)
	o.AutoSaveInterval = 0
	o.AofRewritePercentage = 0
	o.MaintenanceInterval = time.Hour
	e, err := engine.Open(o)
	if err != nil { t.Fatal(err) }
	return e
}

func dump(e *engine.Engine, idx string, ids ...string) string {
	s := ""
	for _, id := range ids {
		d, err := e.VGet(idx, id)
		s += fmt.Sprintf("%s:%v:%v:%v ", id, d.Vector, d.Metadata, err != nil)
	}
	return s
}

func TestD2(t *testing.T) {
	dir := t.TempDir()
	e := open(t, dir)
	if err := e.VCreate("i", distance.Euclidean, 4, 8, distance.Float32, "", nil, nil, nil); err != nil { t.Fatal(err) }
	e.VAdd("i", "a", []float32{1, 2}, map[string]any{"k": "v"})
	e.VAdd("i", "nometa", []float32{3, 4}, nil)
	if err := e.SaveSnapshot(); err != nil { t.Fatal(err) }
	e.VAdd("i", "b", []float32{5, 6}, map[string]any{"k": "w"})
	e.VDelete("i", "a")
	t.Log("before:", dump(e, "i", "a", "b", "nometa"))
	e.Close()
	dumpAOF(t, dir+"/kektordb.aof")
	e = open(t, dir)
	t.Log("after: ", dump(e, "i", "a", "b", "nometa"))
	e.Close()
}

func TestNilMeta(t *testing.T) {
	dir := t.TempDir()
	e := open(t, dir)
	e.VCreate("i", distance.Euclidean, 4, 8, distance.Float32, "", nil, nil, nil)
	e.VAdd("i", "a", []float32{1, 2}, map[string]any{"k": "v"})
	e.VAdd("i", "nometa", []float32{3, 4}, nil)
	e.VLink("i", "a", "nometa", "r", "", 1, nil)
	t.Log("before:", dump(e, "i", "a", "nometa"))
	e.Close()
	e = open(t, dir)
	t.Log("after: ", dump(e, "i", "a", "nometa"))
	l, ok := e.VGetLinks("i", "a", "r")
	t.Log(l, ok)
	e.Close()
}

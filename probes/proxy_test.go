package scratch

import (
	"bytes"
	"fmt"
	"net/http"
	"net/http/httptest"
	"sync/atomic"
	"testing"
	"time"

	"github.com/sanonone/kektordb/pkg/core/distance"
	"github.com/sanonone/kektordb/pkg/proxy"
)

type stubEmb struct{ m map[string][]float32 }
func (s stubEmb) Embed(t string) ([]float32, error) { if v, ok := s.m[t]; ok { return v, nil }; return []float32{0, 0, 1}, nil }
func (s stubEmb) EmbedBatch(ts []string) ([][]float32, error) { var o [][]float32; for _, t := range ts { v, _ := s.Embed(t); o = append(o, v) }; return o, nil }

func TestProxyProbe(t *testing.T) {
	var up atomic.Int64
	ups := httptest.NewServer(http.HandlerFunc(func(w http.ResponseWriter, r *http.Request) { n := up.Add(1); w.Header().Set("Content-Type", "application/json"); fmt.Fprintf(w, `{"answer":%d}`, n) }))
	defer ups.Close()
	e := open(t, t.TempDir())
	defer e.Close()
	cfg := proxy.DefaultConfig()
	cfg.TargetURL = ups.URL
	cfg.FirewallEnabled = true
	cfg.FirewallDenyList = []string{"drop table"}
	cfg.FirewallIndex = "fw"
	cfg.FirewallThreshold = 0.25
	cfg.CacheEnabled = true
	cfg.CacheIndex = "cache"
	cfg.CacheThreshold = 0.1
	cfg.RAGEnabled = false
	cfg.Embedder = stubEmb{m: map[string][]float32{"forbidden": {1, 0, 0}, "near forbidden": {0.99, 0.1, 0}, "far": {0, 1, 0}, "far2": {0, 0.99, 0.1}, "other": {0, 0, 1}}}
	e.VCreate("fw", distance.Cosine, 16, 200, distance.Float32, "", nil, nil, nil)
	e.VAdd("fw", "bad1", []float32{1, 0, 0}, map[string]any{"text": "forbidden"})
	p, err := proxy.NewAIProxy(cfg, e)
	if err != nil { t.Fatal(err) }
	do := func(prompt string) (int, string) {
		body := fmt.Sprintf(`{"model":"m","messages":[{"role":"user","content":%q}]}`, prompt)
		r := httptest.NewRequest("POST", "/v1/chat/completions", bytes.NewBufferString(body))
		w := httptest.NewRecorder()
		p.ServeHTTP(w, r)
		return w.Code, w.Header().Get("X-Kektor-Cache")
	}
	for _, pr := range []string{"please DROP TABLE users", "### Task: please drop table users", "forbidden", "near forbidden", "far", "far", "far2", "other"} {
		before := up.Load()
		c, h := do(pr)
		time.Sleep(150 * time.Millisecond)
		t.Logf("%-40q status=%d cache=%q upstream+%d", pr, c, h, up.Load()-before)
	}
}

package scratch

import (
	"fmt"
	"math/rand"
	"sort"
	"strconv"
	"strings"
	"testing"

	"github.com/sanonone/kektordb/pkg/core/distance"
)

func refClause(meta map[string]any, key, op, lit string) bool {
	v, has := meta[key]
	eq := func() bool {
		if !has { return false }
		switch x := v.(type) {
		case float64:
			f, err := strconv.ParseFloat(lit, 64); return err == nil && f == x
		case string: return x == lit
		case bool: return strconv.FormatBool(x) == lit
		case []any: for _, e := range x { if fmt.Sprint(e) == lit { return true } }; return false
		}
		return false
	}
	switch op {
	case "=": return eq()
	case "!=": return !eq()
	}
	x, ok := v.(float64); if !has || !ok { return false }
	f, _ := strconv.ParseFloat(lit, 64)
	switch op { case "<": return x < f; case "<=": return x <= f; case ">": return x > f; case ">=": return x >= f }
	return false
}

func TestFilterProbe(t *testing.T) {
	bad := map[string]string{}
	checks := 0
	strs := []string{"red", "blue", "green"}
	for ep := 0; ep < 300; ep++ {
		r := rand.New(rand.NewSource(int64(ep)))
		e := open(t, t.TempDir())
		e.VCreate("f", distance.Euclidean, 16, 200, distance.Float32, "", nil, nil, nil)
		model := map[string]map[string]any{}
		val := func() any {
			switch r.Intn(4) {
			case 0: return strs[r.Intn(3)]
			case 1: return float64(r.Intn(5)) - 1 + float64(r.Intn(2))*0.5
			case 2: return r.Intn(2) == 0
			default: n := r.Intn(3); l := make([]any, n); for i := range l { l[i] = strs[r.Intn(3)] }; return l
			}
		}
		var log []string
		for k := 0; k < 25; k++ {
			id := fmt.Sprintf("v%d", r.Intn(6))
			switch r.Intn(6) {
			case 0, 1:
				if _, ok := model[id]; !ok {
					m := map[string]any{}; for _, key := range []string{"a", "b"} { if r.Intn(3) > 0 { m[key] = val() } }
					var mm map[string]any; if len(m) > 0 { mm = m }
					_ = mm
					if len(m) == 0 { m["z"] = "pad" } // avoid nil-meta defect D1 interplay? not persisted here
					if e.VAdd("f", id, []float32{r.Float32(), 1}, m) == nil { model[id] = m; log = append(log, fmt.Sprintf("add %s %v", id, m)) }
				}
			case 2, 3:
				if m, ok := model[id]; ok { key := []string{"a", "b"}[r.Intn(2)]; v := val(); if e.VSetMetadata("f", id, map[string]any{key: v}) == nil { m[key] = v; log = append(log, fmt.Sprintf("set %s %s=%v", id, key, v)) } }
			case 4:
				if _, ok := model[id]; ok { e.VDelete("f", id); delete(model, id); log = append(log, "del "+id) }
			case 5:
				e.VTriggerMaintenance("f", "vacuum"); log = append(log, "vacuum")
			}
		}
		for qn := 0; qn < 25; qn++ {
			mk := func() (string, func(map[string]any) bool) {
				key := []string{"a", "b"}[r.Intn(2)]
				op := []string{"=", "!=", "<", "<=", ">", ">="}[r.Intn(6)]
				var lit, shown string
				if op == "=" || op == "!=" {
					switch r.Intn(3) {
					case 0: lit = strs[r.Intn(3)]; shown = "'" + lit + "'"
					case 1: lit = strconv.FormatFloat(float64(r.Intn(5))-1+float64(r.Intn(2))*0.5, 'f', -1, 64); shown = lit
					case 2: lit = []string{"true", "false"}[r.Intn(2)]; shown = lit
					}
				} else { lit = strconv.FormatFloat(float64(r.Intn(5))-1+float64(r.Intn(2))*0.5, 'f', -1, 64); shown = lit }
				return key + " " + op + " " + shown, func(m map[string]any) bool { return refClause(m, key, op, lit) }
			}
			nOr := 1 + r.Intn(2)
			var orParts []string; var orF [][]func(map[string]any) bool
			for i := 0; i < nOr; i++ { nAnd := 1 + r.Intn(2); var ps []string; var fs []func(map[string]any) bool; for j := 0; j < nAnd; j++ { s, f := mk(); ps = append(ps, s); fs = append(fs, f) }; orParts = append(orParts, strings.Join(ps, " AND ")); orF = append(orF, fs) }
			expr := strings.Join(orParts, " OR ")
			var want []string
			for id, m := range model { ok := false; for _, fs := range orF { all := true; for _, f := range fs { if !f(m) { all = false } }; if all { ok = true } }; if ok { want = append(want, id) } }
			got, err := e.VFilter("f", expr, 1000)
			if err != nil { bad["err"] = expr + ": " + err.Error(); continue }
			sort.Strings(want); sort.Strings(got)
			checks++
			if fmt.Sprint(want) != fmt.Sprint(got) { if _, ok := bad["set"]; !ok { bad["set"] = fmt.Sprintf("ep%d expr=%q want=%v got=%v model=%v log=%v", ep, expr, want, got, model, log) } }
		}
		e.Close()
	}
	t.Log("checks", checks)
	for k, v := range bad { t.Log(k, ":", v) }
}

package scratch

import (
	"fmt"
	"testing"
	"os"
	"bufio"
	"bytes"

	"github.com/sanonone/kektordb/pkg/core/distance"
	"github.com/sanonone/kektordb/pkg/core/types"
	"github.com/sanonone/kektordb/pkg/persistence"
)

func TestBatchCollision(t *testing.T) {
	dir := t.TempDir()
	e := open(t, dir)
	defer e.Close()
	e.VCreate("i", distance.Euclidean, 4, 8, distance.Float32, "", nil, nil, nil)
	for i := 0; i < 10; i++ {
		if err := e.VAdd("i", fmt.Sprintf("s%d", i), []float32{float32(i), 0}, map[string]any{"n": float64(i)}); err != nil { t.Fatal(err) }
	}
	var items []types.BatchObject
	for i := 0; i < 5; i++ {
		items = append(items, types.BatchObject{Id: fmt.Sprintf("b%d", i), Vector: []float32{100 + float32(i), 1}, Metadata: map[string]any{"n": float64(100+i)}})
	}
	if err := e.VAddBatch("i", items); err != nil { t.Fatal(err) }
	t.Log(dump(e, "i", "s8", "s9", "b0", "b1", "b4"))
	info, _ := e.DB.GetSingleVectorIndexInfoAPI("i")
	t.Log("count", info.VectorCount)
}

func TestVacuumReadd(t *testing.T) {
	dir := t.TempDir()
	e := open(t, dir)
	defer e.Close()
	e.VCreate("i", distance.Euclidean, 4, 8, distance.Float32, "", nil, nil, nil)
	for i := 0; i < 5; i++ {
		e.VAdd("i", fmt.Sprintf("s%d", i), []float32{float32(i), 0}, map[string]any{"n": float64(i)})
	}
	e.VDelete("i", "s2")
	if err := e.VAdd("i", "s2", []float32{42, 42}, map[string]any{"n": float64(42)}); err != nil { t.Fatal(err) }
	t.Log("before vacuum:", dump(e, "i", "s2"))
	e.VTriggerMaintenance("i", "vacuum")
	t.Log("after vacuum: ", dump(e, "i", "s2"))
	ids, _ := e.VSearch("i", []float32{42, 42}, 3, "", "", 0, 1, nil)
	t.Log("search", ids)
	f, err := e.VFilter("i", "n=42", 10)
	t.Log("filter", f, err)
}

func TestDupThenRestart(t *testing.T) {
	dir := t.TempDir()
	e := open(t, dir)
	e.VCreate("i", distance.Euclidean, 4, 8, distance.Float32, "", nil, nil, nil)
	e.VAdd("i", "a", []float32{1, 1}, map[string]any{"v": "first"})
	err := e.VAdd("i", "a", []float32{2, 2}, map[string]any{"v": "second"})
	t.Log("dup err:", err)
	t.Log("before:", dump(e, "i", "a"))
	e.Close()
	e = open(t, dir)
	t.Log("after: ", dump(e, "i", "a"))
	e.Close()
}

func TestCompressRestart(t *testing.T) {
	dir := t.TempDir()
	e := open(t, dir)
	e.VCreate("i", distance.Euclidean, 4, 8, distance.Float32, "", nil, nil, nil)
	for i := 0; i < 5; i++ {
		e.VAdd("i", fmt.Sprintf("s%d", i), []float32{float32(i), 0.5}, map[string]any{"n": float64(i)})
	}
	t.Log("compress:", e.VCompress("i", distance.Float16))
	info, _ := e.DB.GetSingleVectorIndexInfoAPI("i")
	t.Log("before:", info, dump(e, "i", "s1", "s4"))
	e.Close()
	e = open(t, dir)
	info, err := e.DB.GetSingleVectorIndexInfoAPI("i")
	t.Log("after: ", info, err, dump(e, "i", "s1", "s4"))
	e.Close()
}

func TestCompressBad(t *testing.T) {
	dir := t.TempDir()
	e := open(t, dir)
	defer e.Close()
	e.VCreate("i", distance.Euclidean, 4, 8, distance.Float32, "", nil, nil, nil)
	for i := 0; i < 5; i++ {
		e.VAdd("i", fmt.Sprintf("s%d", i), []float32{float32(i), 0.5}, map[string]any{"n": float64(i)})
	}
	t.Log("compress bogus:", e.VCompress("i", distance.PrecisionType("bogus")))
	t.Log("after:", dump(e, "i", "s1"))
	t.Log("add:", e.VAdd("i", "new", []float32{9, 9}, nil))
	t.Log("compress int8 on euclid:", e.VCompress("i", distance.Int8))
	t.Log("after:", dump(e, "i", "s1"))
}

func TestRestartSoftDeletedReadd(t *testing.T) {
	dir := t.TempDir()
	e := open(t, dir)
	e.VCreate("i", distance.Euclidean, 4, 8, distance.Float32, "", nil, nil, nil)
	for i := 0; i < 5; i++ {
		e.VAdd("i", fmt.Sprintf("s%d", i), []float32{float32(i), 0.5}, map[string]any{"n": float64(i)})
	}
	e.VDelete("i", "s2")
	e.SaveSnapshot()
	e.Close()
	e = open(t, dir)
	t.Log("after restart:", dump(e, "i", "s2"))
	t.Log("re-add:", e.VAdd("i", "s2", []float32{7, 7}, nil))
	t.Log("after readd:", dump(e, "i", "s2"))
	e.Close()
}

func TestListFilterSnapshot(t *testing.T) {
	dir := t.TempDir()
	e := open(t, dir)
	e.VCreate("i", distance.Euclidean, 4, 8, distance.Float32, "", nil, nil, nil)
	e.VAdd("i", "a", []float32{1, 1}, map[string]any{"tags": []any{"x", "y"}, "b": true})
	e.VAdd("i", "b", []float32{2, 1}, map[string]any{"tags": []any{"y"}})
	f, err := e.VFilter("i", "tags=x", 10)
	t.Log("live:", f, err)
	e.SaveSnapshot()
	e.Close()
	e = open(t, dir)
	f, err = e.VFilter("i", "tags=x", 10)
	t.Log("restored:", f, err)
	f, err = e.VFilter("i", "b=true", 10)
	t.Log("restored bool:", f, err)
	e.Close()
}

func TestFlushCovers(t *testing.T) {
	dir := t.TempDir()
	miss := 0
	for it := 0; it < 300; it++ {
		p := fmt.Sprintf("%s/f%d.aof", dir, it)
		w, _ := persistence.NewAOFWriter(p, 0)
		lw := persistence.NewLazyAOFWriter(w)
		n := 1 + it%7
		for j := 0; j < n; j++ {
			lw.Write(persistence.FormatCommand("SET", []byte("k"), []byte(fmt.Sprint(j))))
		}
		lw.Flush()
		// count frames in file now
		f, _ := os.Open(p)
		cnt := 0
		for {
			pl, _, err := persistence.ReadFrame(f)
			if err != nil { break }
			if _, err := persistence.ParseCommand(bufio.NewReader(bytes.NewReader(pl))); err == nil { cnt++ }
		}
		f.Close()
		if cnt != n { miss++ }
		lw.Close()
	}
	t.Log("flush missed writes in", miss, "of 300")
}

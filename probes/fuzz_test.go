package scratch

import (
	"fmt"
	"math/rand"
	"strings"
	"testing"
	"unicode/utf8"

	"github.com/sanonone/kektordb/pkg/rag"
	"github.com/sanonone/kektordb/pkg/textanalyzer"
	ctext "github.com/sanonone/kektordb/pkg/core/text"
)

func genStr(r *rand.Rand) string {
	alph := []string{"a", "e", "i", "o", "u", "y", "s", "t", "n", "g", "l", "r", "à", "è", "ì", "ò", "ù", "é", "ing", "ed", "ly", "ation", "mente", "are", "ire", "zione", "ss", "'", "-", " ", "\n", "\n\n", ".", "日本", "😀", "\xff", "\xc3", "\xe2\x82", "1", "_", "Q", "ß", "İ"}
	n := r.Intn(40)
	var b strings.Builder
	for i := 0; i < n; i++ { b.WriteString(alph[r.Intn(len(alph))]) }
	return b.String()
}

func TestFuzzText(t *testing.T) {
	r := rand.New(rand.NewSource(1))
	en, it := textanalyzer.NewEnglishStemmer(), textanalyzer.NewItalianStemmer()
	panics := map[string]string{}
	try := func(name, in string, f func()) {
		defer func() { if x := recover(); x != nil { if _, ok := panics[name]; !ok { panics[name] = fmt.Sprintf("%q -> %v", in, x) } } }()
		f()
	}
	loss, toolong := 0, 0
	var lossEx, longEx string
	for i := 0; i < 300000; i++ {
		s := genStr(r)
		try("en", s, func() { en.Analyze(s) })
		try("it", s, func() { it.Analyze(s) })
		try("compress", s, func() { textanalyzer.Compress(s, "en"); textanalyzer.Compress(s, "it") })
		if i%10 == 0 {
			size := 1 + r.Intn(12); ov := r.Intn(size)
			strat := []string{"recursive", "markdown", "code", "fixed"}[r.Intn(4)]
			try("split-"+strat, s, func() {
				sp := rag.NewSplitterFactory(rag.Config{ChunkSize: size, ChunkOverlap: ov, ChunkingStrategy: strat})
				ch := sp.SplitText(s)
				for _, c := range ch { if utf8.RuneCountInString(c) > size+ov { toolong++; if longEx == "" { longEx = fmt.Sprintf("%s size=%d ov=%d in=%q chunk=%q", strat, size, ov, s, c) } } }
				if strat == "recursive" || strat == "fixed" {
					strip := func(x string) string { return strings.Join(strings.Fields(x), "") }
					a, b := strip(s), strip(strings.Join(ch, ""))
					// a must be subsequence of b
					j := 0
					for k := 0; k < len(b) && j < len(a); k++ { if b[k] == a[j] { j++ } }
					if j < len(a) { loss++; if lossEx == "" { lossEx = fmt.Sprintf("%s size=%d ov=%d in=%q chunks=%q", strat, size, ov, s, ch) } }
				}
			})
			try("fixedchunker", s, func() { ctext.FixedSizeChunker(s, size, ov) })
		}
	}
	t.Log("panics:", panics)
	t.Log("loss (recursive/fixed):", loss, lossEx)
	t.Log("too long:", toolong, longEx)
}

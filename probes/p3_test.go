package scratch

import (
	"fmt"
	"testing"
	"time"

	"github.com/sanonone/kektordb/pkg/core/distance"
)

func edgeDump(t *testing.T, tag string, e interface {
	VGetEdges(string, string, string, int64) ([]struct{}, bool)
}) {}

func TestGraphPersist(t *testing.T) {
	for _, mode := range []string{"replay", "rewrite", "snapshot"} {
		dir := t.TempDir()
		e := open(t, dir)
		e.VCreate("g", distance.Euclidean, 4, 50, distance.Float32, "", nil, nil, nil)
		for _, id := range []string{"a", "b", "c"} { e.VAdd("g", id, []float32{1, 2}, map[string]any{"k": id}) }
		p := map[string]any{"x": 1.0}
		e.VLink("g", "a", "b", "r", "rinv", 1, p); time.Sleep(time.Millisecond)
		e.VLink("g", "a", "b", "r", "rinv", 2, p); time.Sleep(time.Millisecond) // supersede
		e.VLink("g", "a", "c", "r", "", 1, p); time.Sleep(time.Millisecond)
		e.VUnlink("g", "a", "c", "r", "", false); time.Sleep(time.Millisecond) // soft
		e.VLink("g", "b", "c", "r", "", 1, p); time.Sleep(time.Millisecond)
		e.VUnlink("g", "b", "c", "r", "", true) // hard
		show := func() string {
			s := ""
			e.DB.IterateGraphEdges(func(src, tgt, rel string, w float32, props []byte, c, d int64) { s += fmt.Sprintf("[%s-%s->%s w%v c%d d%d p%s] ", src, rel, tgt, w, c%100000, d%100000, props) })
			return s
		}
		before := show()
		switch mode {
		case "rewrite": if err := e.RewriteAOF(); err != nil { t.Fatal(err) }
		case "snapshot": if err := e.SaveSnapshot(); err != nil { t.Fatal(err) }
		}
		e.Close()
		e = open(t, dir)
		after := show()
		// order of iteration is random; compare as sets
		t.Logf("%s:\n  before %s\n  after  %s", mode, before, after)
		in1, _ := e.VGetIncoming("g", "b", "r"); in2, _ := e.VGetIncoming("g", "a", "rinv")
		t.Logf("  incoming b<-r: %v   a<-rinv: %v", in1, in2)
		e.Close()
	}
}

func TestInt8Replay(t *testing.T) {
	diff := 0
	for ep := 0; ep < 10; ep++ {
		dir := t.TempDir()
		e := open(t, dir)
		e.VCreate("q", distance.Cosine, 4, 50, distance.Int8, "", nil, nil, nil)
		vs := [][]float32{{0.1, 0.2}, {5, -3}, {0.01, 0.02}, {9, 9}}
		for i, v := range vs { e.VAdd("q", fmt.Sprintf("v%d", i), v, map[string]any{"i": float64(i)}) }
		b := dump(e, "q", "v0", "v1", "v2", "v3")
		e.Close()
		e = open(t, dir)
		a := dump(e, "q", "v0", "v1", "v2", "v3")
		if a != b { diff++; if diff == 1 { t.Logf("before %s\nafter  %s", b, a) } }
		e.Close()
	}
	t.Log("int8 replay changed values in", diff, "of 10 restarts")
}

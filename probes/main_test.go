package scratch

import (
	"io"
	"log"
	"log/slog"
	"os"
	"testing"
)

func TestMain(m *testing.M) {
	slog.SetDefault(slog.New(slog.NewTextHandler(io.Discard, nil)))
	log.SetOutput(io.Discard)
	os.Exit(m.Run())
}

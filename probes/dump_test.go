package scratch

import (
	"bufio"
	"bytes"
	"os"
	"testing"
	"fmt"

	"github.com/sanonone/kektordb/pkg/persistence"
)

func dumpAOF(t *testing.T, path string) {
	f, err := os.Open(path)
	if err != nil { t.Log("no aof", err); return }
	defer f.Close()
	for {
		p, _, err := persistence.ReadFrame(f)
		if err != nil { t.Log("end:", err); return }
		c, err := persistence.ParseCommand(bufio.NewReader(bytes.NewReader(p)))
		if err != nil { t.Logf("  unparseable: %q", p); continue }
		s := c.Name
		for _, a := range c.Args { if len(a) > 40 { a = a[:40] }; s += fmt.Sprintf(" %q", a) }
		t.Log("  ", s)
	}
}

package scratch

import (
	"os"
	"path/filepath"
	"testing"
	"time"
	"strings"

	"github.com/sanonone/kektordb/pkg/core/distance"
	"github.com/sanonone/kektordb/pkg/core/hnsw"
	"github.com/sanonone/kektordb/pkg/engine"
	"github.com/sanonone/kektordb/pkg/rag"
)

func TestPinnedScores(t *testing.T) {
	dir := t.TempDir()
	e := open(t, dir)
	defer e.Close()
	mc := hnsw.MemoryConfig{Enabled: true, DecayModel: hnsw.DecayExponential, DecayHalfLife: hnsw.Duration(time.Hour)}
	e.VCreate("m", distance.Euclidean, 4, 50, distance.Float32, "", nil, nil, &mc)
	old := float64(time.Now().Add(-10 * time.Hour).Unix())
	e.VAdd("m", "pinned", []float32{1, 0}, map[string]any{"_created_at": old, "_pinned": true})
	e.VAdd("m", "plain", []float32{1, 0}, map[string]any{"_created_at": old})
	e.VAdd("m", "reinf", []float32{1, 0}, map[string]any{"_created_at": old})
	e.VReinforce("m", []string{"reinf"})
	res, _ := e.VSearchWithScores("m", []float32{1, 0}, 3)
	for _, r := range res { t.Logf("WithScores %s score=%.4f decay=%.4f", r.ID, r.Score, r.Breakdown.DecayFactor) }
	g, _ := e.VSearchGraph("m", []float32{1, 0}, 3, "", "", 0, 1, nil, false, nil)
	for _, r := range g { t.Logf("Graph %s score=%.4f", r.ID, r.Score) }
}

func TestCascadeRestart(t *testing.T) {
	dir := t.TempDir()
	e := open(t, dir)
	e.VCreate("i", distance.Euclidean, 4, 50, distance.Float32, "", nil, nil, nil)
	for _, id := range []string{"a", "b", "x"} { e.VAdd("i", id, []float32{1, 2}, map[string]any{"k": id}) }
	e.VLink("i", "a", "x", "r", "rinv", 1, map[string]any{"p": 1})
	e.VLink("i", "x", "b", "r", "", 1, map[string]any{"p": 1})
	e.VLink("i", "x", "x", "self", "", 1, map[string]any{"p": 1})
	e.VDelete("i", "x")
	time.Sleep(200 * time.Millisecond)
	show := func(tag string) {
		l1, _ := e.VGetLinks("i", "a", "r"); l2, _ := e.VGetIncoming("i", "b", "r"); l3, _ := e.VGetLinks("i", "x", "r"); l4, _ := e.VGetLinks("i", "x", "rinv"); l5, _ := e.VGetIncoming("i", "a", "rinv")
		t.Logf("%s: a-r->%v  b<-r-%v  x-r->%v x-rinv->%v a<-rinv-%v", tag, l1, l2, l3, l4, l5)
	}
	show("live settled")
	e.Close()
	e = open(t, dir)
	show("after restart")
	e.Close()
}

func TestPathEscape(t *testing.T) {
	root := t.TempDir()
	dir := filepath.Join(root, "data")
	os.MkdirAll(filepath.Join(root, "sentinel"), 0755)
	os.WriteFile(filepath.Join(root, "sentinel", "keep.txt"), []byte("x"), 0644)
	e := open(t, dir)
	err := e.VDeleteIndex("../../sentinel")
	t.Log("drop err:", err)
	_, st := os.Stat(filepath.Join(root, "sentinel", "keep.txt"))
	t.Log("sentinel after drop:", st)
	e.Close()
	e = open(t, dir)
	_, st = os.Stat(filepath.Join(root, "sentinel", "keep.txt"))
	t.Log("sentinel after restart:", st)
	err = e.VCreate("../../escaped", distance.Euclidean, 4, 50, distance.Float32, "", nil, nil, nil)
	t.Log("create err:", err)
	e.VAdd("../../escaped", "a", []float32{1, 2}, map[string]any{"k": "v"})
	_, st = os.Stat(filepath.Join(root, "escaped"))
	t.Log("escaped dir exists err:", st)
	e.Close()
}

func TestSplitterLoss(t *testing.T) {
	text := "package x\nfunc A() {\n  return\n}\nfunc B() {\n  return 2\n}\ntype T struct{}\n"
	s := rag.NewSplitterFactory(rag.Config{ChunkSize: 20, ChunkOverlap: 0, ChunkingStrategy: "code"})
	ch := s.SplitText(text)
	t.Logf("%q", ch)
	strip := func(s string) string { return strings.Join(strings.Fields(s), "") }
	t.Log(strip(text)); t.Log(strip(strings.Join(ch, "")))
	md := rag.NewSplitterFactory(rag.Config{ChunkSize: 15, ChunkOverlap: 0, ChunkingStrategy: "markdown"})
	t.Logf("%q", md.SplitText("# T\n## Alpha\nsome text here\n## Beta\nmore text\n"))
	_ = engine.DefaultOptions
}

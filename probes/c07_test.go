package scratch

import (
	"fmt"
	"math/rand"
	"sort"
	"testing"

	"github.com/sanonone/kektordb/pkg/core/distance"
)

func TestExactRegime(t *testing.T) {
	bad := 0; total := 0
	for ep := 0; ep < 60; ep++ {
		r := rand.New(rand.NewSource(int64(ep)))
		M := []int{2, 4, 8, 16}[ep%4]
		n := 2 * M
		dim := 2 + r.Intn(6)
		dir := t.TempDir()
		e := open(t, dir)
		e.VCreate("i", distance.Euclidean, M, 200, distance.Float32, "", nil, nil, nil)
		vecs := map[string][]float32{}
		for i := 0; i < n; i++ {
			v := make([]float32, dim)
			for j := range v { v[j] = float32(r.Intn(5)) } // duplicates & ties likely
			id := fmt.Sprintf("v%d", i)
			e.VAdd("i", id, v, nil)
			vecs[id] = v
		}
		// delete a few, vacuum sometimes
		for i := 0; i < n/4; i++ { id := fmt.Sprintf("v%d", r.Intn(n)); e.VDelete("i", id); delete(vecs, id) }
		if ep%2 == 0 { e.VTriggerMaintenance("i", "vacuum") }
		for q := 0; q < 10; q++ {
			qv := make([]float32, dim)
			for j := range qv { qv[j] = float32(r.Intn(5)) + r.Float32()*0.01 }
			k := 1 + r.Intn(len(vecs)+1)
			res, err := e.VSearchWithScores("i", qv, k)
			if err != nil { t.Fatal(err) }
			var ds []float64
			for _, v := range vecs { var s float64; for j := range v { d := float64(v[j]-qv[j]); s += d*d }; ds = append(ds, s) }
			sort.Float64s(ds)
			kk := k; if kk > len(ds) { kk = len(ds) }
			total++
			if len(res) != kk { bad++; t.Logf("ep %d M=%d n=%d live=%d k=%d got %d", ep, M, n, len(vecs), k, len(res)); continue }
			for i := range res {
				d := 1/res[i].Score - 1
				if d-ds[i] > 1e-3*(1+ds[i]) || ds[i]-d > 1e-3*(1+ds[i]) { bad++; t.Logf("ep %d q %d rank %d: got d=%v want %v", ep, q, i, d, ds[i]); break }
			}
		}
		e.Close()
	}
	t.Logf("exact-regime mismatches: %d of %d", bad, total)
}

func TestRecallLarge(t *testing.T) {
	r := rand.New(rand.NewSource(7))
	dir := t.TempDir()
	e := open(t, dir)
	defer e.Close()
	e.VCreate("i", distance.Euclidean, 16, 200, distance.Float32, "", nil, nil, nil)
	n, dim := 2000, 16
	vecs := make([][]float32, n)
	for i := 0; i < n; i++ {
		v := make([]float32, dim); for j := range v { v[j] = r.Float32() }
		vecs[i] = v
		e.VAdd("i", fmt.Sprintf("v%d", i), v, nil)
	}
	hit, tot := 0, 0
	self := 0
	for q := 0; q < 100; q++ {
		qv := make([]float32, dim); for j := range qv { qv[j] = r.Float32() }
		type pr struct{ i int; d float64 }
		var ps []pr
		for i, v := range vecs { var s float64; for j := range v { d := float64(v[j]-qv[j]); s += d*d }; ps = append(ps, pr{i, s}) }
		sort.Slice(ps, func(a, b int) bool { return ps[a].d < ps[b].d })
		truth := map[string]bool{}
		for i := 0; i < 10; i++ { truth[fmt.Sprintf("v%d", ps[i].i)] = true }
		ids, _ := e.VSearch("i", qv, 10, "", "", 0, 1, nil)
		for _, id := range ids { if truth[id] { hit++ } }
		tot += 10
		ids, _ = e.VSearch("i", vecs[q], 1, "", "", 0, 1, nil)
		if len(ids) == 1 && ids[0] == fmt.Sprintf("v%d", q) { self++ }
	}
	t.Logf("recall@10 = %.3f self=%d/100", float64(hit)/float64(tot), self)
}

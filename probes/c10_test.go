package scratch

import (
	"fmt"
	"math/rand"
	"sort"
	"testing"

	"github.com/sanonone/kektordb/pkg/core"
)

type ver struct{ tgt string; c, d int64; w float32; p string }

func TestGraphCoreProbe(t *testing.T) {
	bad := map[string]string{}
	for ep := 0; ep < 20000; ep++ {
		r := rand.New(rand.NewSource(int64(ep)))
		db := core.NewDB()
		model := map[string][]ver{} // src -> versions (rel fixed "r")
		nodes := []string{"a", "b", "c"}
		var ts int64
		var log []string
		nops := 1 + r.Intn(6)
		for k := 0; k < nops; k++ {
			ts++
			s, d := nodes[r.Intn(2)], nodes[r.Intn(3)]
			switch r.Intn(5) {
			case 0, 1:
				w := float32(1 + r.Intn(2)); p := []string{"", `{"x":1}`}[r.Intn(2)]
				var pb []byte; if p != "" { pb = []byte(p) }
				db.AddEdge(s, d, "r", w, pb, ts)
				log = append(log, fmt.Sprintf("link %s %s w%v p%q @%d", s, d, w, p, ts))
				act := -1
				for i, v := range model[s] { if v.tgt == d && v.d == 0 { act = i } }
				if act >= 0 {
					if model[s][act].w != w || model[s][act].p != p { model[s][act].d = ts; model[s] = append(model[s], ver{d, ts, 0, w, p}) }
				} else { model[s] = append(model[s], ver{d, ts, 0, w, p}) }
			case 2:
				db.RemoveEdge(s, d, "r", false, ts)
				log = append(log, fmt.Sprintf("soft %s %s @%d", s, d, ts))
				for i, v := range model[s] { if v.tgt == d && v.d == 0 { model[s][i].d = ts; break } }
			case 3:
				db.RemoveEdge(s, d, "r", true, ts)
				log = append(log, fmt.Sprintf("hard %s %s @%d", s, d, ts))
				var keep []ver
				for _, v := range model[s] { if v.tgt != d { keep = append(keep, v) } }
				model[s] = keep
			case 4:
				cut := int64(r.Intn(int(ts) + 1))
				db.VacuumGraph(cut)
				log = append(log, fmt.Sprintf("vacuum cut=%d", cut))
				for s2 := range model { var keep []ver; for _, v := range model[s2] { if v.d == 0 || v.d > cut { keep = append(keep, v) } }; model[s2] = keep }
			}
			// check at all times 0..ts+1
			for T := int64(0); T <= ts+1; T++ {
				for _, src := range nodes {
					var want []string
					for _, v := range model[src] {
						act := (T == 0 && v.d == 0) || (T > 0 && v.c <= T && (v.d == 0 || v.d > T))
						if act { want = append(want, fmt.Sprintf("%s/w%v/p%s", v.tgt, v.w, v.p)) }
					}
					es, _ := db.GetOutEdges(src, "r", T)
					var got []string
					for _, e := range es { got = append(got, fmt.Sprintf("%s/w%v/p%s", e.TargetID, e.Weight, string(e.Props))) }
					sort.Strings(want); sort.Strings(got)
					if fmt.Sprint(want) != fmt.Sprint(got) { if _, ok := bad["out"]; !ok { bad["out"] = fmt.Sprintf("ep%d T=%d src=%s want=%v got=%v log=%v", ep, T, src, want, got, log) } }
				}
				for _, dst := range nodes {
					wantS := map[string]bool{}
					for src, vs := range model { for _, v := range vs { if v.tgt != dst { continue }; act := (T == 0 && v.d == 0) || (T > 0 && v.c <= T && (v.d == 0 || v.d > T)); if act { wantS[src] = true } } }
					in, _ := db.GetInEdges(dst, "r", T)
					gotS := map[string]bool{}
					for _, s3 := range in { gotS[s3] = true }
					if fmt.Sprint(len(in)) != fmt.Sprint(len(gotS)) { if _, ok := bad["in-dup"]; !ok { bad["in-dup"] = fmt.Sprintf("ep%d T=%d dst=%s in=%v log=%v", ep, T, dst, in, log) } }
					var w, g []string
					for k := range wantS { w = append(w, k) }; for k := range gotS { g = append(g, k) }
					sort.Strings(w); sort.Strings(g)
					if fmt.Sprint(w) != fmt.Sprint(g) { if _, ok := bad["in"]; !ok { bad["in"] = fmt.Sprintf("ep%d T=%d dst=%s want=%v got=%v log=%v", ep, T, dst, w, g, log) } }
				}
			}
		}
	}
	for k, v := range bad { t.Log(k, ":", v) }
	t.Log("done")
}

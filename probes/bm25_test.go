package scratch

import (
	"fmt"
	"math"
	"math/rand"
	"sort"
	"strings"
	"testing"

	"github.com/sanonone/kektordb/pkg/core/distance"
	"github.com/sanonone/kektordb/pkg/core/hnsw"
	"github.com/sanonone/kektordb/pkg/textanalyzer"
)

func TestBM25Probe(t *testing.T) {
	vocab := []string{"cat", "dog", "running", "runs", "happy", "the", "quick", "brown", "foxes", "jumped", "over", "lazy"}
	bad := map[string]string{}
	an := textanalyzer.NewEnglishStemmer()
	checks := 0
	for ep := 0; ep < 200; ep++ {
		r := rand.New(rand.NewSource(int64(ep)))
		e := open(t, t.TempDir())
		e.VCreate("t", distance.Euclidean, 16, 200, distance.Float32, "english", nil, nil, nil)
		docs := map[string]string{}
		mk := func() string { n := 1 + r.Intn(7); w := make([]string, n); for i := range w { w[i] = vocab[r.Intn(len(vocab))] }; return strings.Join(w, " ") }
		var log []string
		for k := 0; k < 15; k++ {
			id := fmt.Sprintf("d%d", r.Intn(6))
			switch r.Intn(5) {
			case 0, 1:
				if _, ok := docs[id]; !ok { tx := mk(); if e.VAdd("t", id, []float32{r.Float32(), r.Float32()}, map[string]any{"content": tx, "n": float64(k)}) == nil { docs[id] = tx; log = append(log, "add "+id+" "+tx) } }
			case 2:
				if _, ok := docs[id]; ok { tx := mk(); if e.VSetMetadata("t", id, map[string]any{"content": tx}) == nil { docs[id] = tx; log = append(log, "set "+id+" "+tx) } }
			case 3:
				if _, ok := docs[id]; ok { e.VDelete("t", id); delete(docs, id); log = append(log, "del "+id) }
			case 4:
				if _, ok := docs[id]; ok { if e.VSetMetadata("t", id, map[string]any{"content": float64(7)}) == nil { delete(docs, id); docs[id] = "\x00num"; log = append(log, "num "+id) } }
			}
		}
		// reference
		type dd struct{ toks []string }
		corp := map[string][]string{}
		for id, tx := range docs { if tx == "\x00num" { continue }; corp[id] = an.Analyze(tx) }
		N := float64(len(corp)); var tot float64
		for _, tk := range corp { tot += float64(len(tk)) }
		avg := 0.0; if N > 0 { avg = tot / N }
		for qn := 0; qn < 5; qn++ {
			qw := vocab[r.Intn(len(vocab))]; qw2 := vocab[r.Intn(len(vocab))]
			q := qw + " " + qw2
			qt := an.Analyze(q)
			seen := map[string]bool{}; var uq []string
			for _, x := range qt { if !seen[x] { seen[x] = true; uq = append(uq, x) } }
			if len(uq) != len(qt) { continue }
			want := map[string]float64{}
			for id, tk := range corp {
				sc := 0.0; hit := false
				for _, term := range uq {
					tf := 0; for _, x := range tk { if x == term { tf++ } }
					if tf == 0 { continue }
					hit = true
					df := 0; for _, tk2 := range corp { for _, x := range tk2 { if x == term { df++; break } } }
					idf := math.Log(1 + (N-float64(df)+0.5)/(float64(df)+0.5))
					sc += idf * (float64(tf) * 2.2) / (float64(tf) + 1.2*(1-0.75+0.75*float64(len(tk))/avg))
				}
				if hit { want[id] = sc }
			}
			res, err := e.DB.FindIDsByTextSearch("t", "content", q)
			if err != nil { bad["err"] = err.Error(); continue }
			idx, _ := e.DB.GetVectorIndex("t")
			got := map[string]float64{}
			prev := math.Inf(1)
			for _, rr := range res { ext, _ := idx.(*hnsw.Index).GetExternalID(rr.DocID); got[ext] = rr.Score; if rr.Score > prev+1e-12 { bad["order"] = "not sorted" }; prev = rr.Score }
			checks++
			var wk, gk []string
			for k := range want { wk = append(wk, k) }; for k := range got { gk = append(gk, k) }
			sort.Strings(wk); sort.Strings(gk)
			if fmt.Sprint(wk) != fmt.Sprint(gk) { if _, ok := bad["set"]; !ok { bad["set"] = fmt.Sprintf("ep%d q=%q want=%v got=%v docs=%v log=%v", ep, q, wk, gk, docs, log) }; continue }
			for k, w := range want { if math.Abs(got[k]-w) > 1e-9*(1+math.Abs(w)) { if _, ok := bad["score"]; !ok { bad["score"] = fmt.Sprintf("ep%d q=%q id=%s want=%v got=%v docs=%v log=%v", ep, q, k, w, got[k], docs, log) } } }
		}
		e.Close()
	}
	t.Log("checks", checks)
	for k, v := range bad { t.Log(k, ":", v) }
}

package scratch

import (
	"fmt"
	"math/rand"
	"testing"
	"sort"

	"github.com/sanonone/kektordb/pkg/core/distance"
)

func TestFindPathProbe(t *testing.T) {
	bad := map[string]string{}
	total := 0
	for ep := 0; ep < 300; ep++ {
		r := rand.New(rand.NewSource(int64(ep)))
		e := open(t, t.TempDir())
		e.VCreate("g", distance.Euclidean, 4, 50, distance.Float32, "", nil, nil, nil)
		n := 3 + r.Intn(4)
		ids := make([]string, n)
		for i := range ids { ids[i] = fmt.Sprintf("n%d", i); e.VAdd("g", ids[i], []float32{float32(i), 1}, map[string]any{"i": float64(i)}) }
		adj := map[string]map[string]bool{}
		m := r.Intn(n * 2)
		for k := 0; k < m; k++ {
			a, b := ids[r.Intn(n)], ids[r.Intn(n)]
			e.VLink("g", a, b, "r", "", 1, nil)
			if adj[a] == nil { adj[a] = map[string]bool{} }
			adj[a][b] = true
		}
		// a few soft unlinks
		for k := 0; k < m/4; k++ {
			a, b := ids[r.Intn(n)], ids[r.Intn(n)]
			e.VUnlink("g", a, b, "r", "", false)
			if adj[a] != nil { delete(adj[a], b) }
		}
		dist := func(s, d string) int {
			if s == d { return 0 }
			seen := map[string]int{s: 0}; q := []string{s}
			for len(q) > 0 { c := q[0]; q = q[1:]; for nb := range adj[c] { if _, ok := seen[nb]; !ok { seen[nb] = seen[c] + 1; if nb == d { return seen[nb] }; q = append(q, nb) } } }
			return -1
		}
		for qn := 0; qn < 30; qn++ {
			s, d := ids[r.Intn(n)], ids[r.Intn(n)]
			md := 1 + r.Intn(4)
			res, err := e.FindPath("g", s, d, []string{"r"}, md, 0)
			total++
			want := dist(s, d)
			if err != nil { bad["err"] = err.Error(); continue }
			if res == nil {
				if want >= 0 && want <= md { bad["missing"] = fmt.Sprintf("ep%d %s->%s md=%d want dist %d adj=%v", ep, s, d, md, want, adj) }
				continue
			}
			p := res.Path
			if len(p) == 0 || p[0] != s || p[len(p)-1] != d { bad["endpoints"] = fmt.Sprintf("ep%d %s->%s path=%v", ep, s, d, p); continue }
			ok := true
			for i := 0; i+1 < len(p); i++ { if !adj[p[i]][p[i+1]] { ok = false } }
			if !ok { bad["hop"] = fmt.Sprintf("ep%d %s->%s path=%v adj=%v", ep, s, d, p, adj) }
			if want < 0 { bad["phantom"] = fmt.Sprintf("ep%d %s->%s path=%v", ep, s, d, p) } else if len(p)-1 != want { bad["notshortest"] = fmt.Sprintf("ep%d %s->%s md=%d path=%v want %d adj=%v", ep, s, d, md, p, want, adj) }
		}
		// subgraph
		root := ids[r.Intn(n)]; depth := 1 + r.Intn(3)
		sg, _ := e.VExtractSubgraph("g", root, []string{"r"}, depth, 0, nil, 0)
		und := map[string]map[string]bool{}
		for a, m := range adj { for b := range m { if und[a] == nil { und[a] = map[string]bool{} }; if und[b] == nil { und[b] = map[string]bool{} }; und[a][b] = true; und[b][a] = true } }
		seen := map[string]int{root: 0}; q := []string{root}
		for len(q) > 0 { c := q[0]; q = q[1:]; if seen[c] >= depth { continue }; for nb := range und[c] { if _, ok := seen[nb]; !ok { seen[nb] = seen[c] + 1; q = append(q, nb) } } }
		var got, want []string
		for _, nd := range sg.Nodes { got = append(got, nd.ID) }
		for k := range seen { want = append(want, k) }
		sort.Strings(got); sort.Strings(want)
		if fmt.Sprint(got) != fmt.Sprint(want) { bad["subgraph"] = fmt.Sprintf("ep%d root=%s depth=%d got=%v want=%v adj=%v", ep, root, depth, got, want, adj) }
		e.Close()
	}
	t.Log("queries", total)
	for k, v := range bad { t.Log(k, ":", v) }
}

package scratch

import (
	"fmt"
	"io"
	"os"
	"path/filepath"
	"testing"
	"time"

	"golang.org/x/sys/unix"
	"github.com/sanonone/kektordb/pkg/core/distance"
)

func sparseCopyFile(src, dst string) error {
	in, err := os.Open(src); if err != nil { return err }
	defer in.Close()
	st, _ := in.Stat()
	out, err := os.Create(dst); if err != nil { return err }
	defer out.Close()
	if err := out.Truncate(st.Size()); err != nil { return err }
	var off int64
	buf := make([]byte, 1<<16)
	for off < st.Size() {
		ds, err := unix.Seek(int(in.Fd()), off, unix.SEEK_DATA)
		if err != nil { break } // ENXIO: no more data
		he, err := unix.Seek(int(in.Fd()), ds, unix.SEEK_HOLE)
		if err != nil { he = st.Size() }
		for p := ds; p < he; {
			n := int64(len(buf)); if he-p < n { n = he - p }
			m, err := in.ReadAt(buf[:n], p)
			if m > 0 { out.WriteAt(buf[:m], p) }
			if err != nil && err != io.EOF { return err }
			p += int64(m)
			if m == 0 { break }
		}
		off = he
	}
	return nil
}

func sparseCopyDir(src, dst string) error {
	return filepath.Walk(src, func(p string, info os.FileInfo, err error) error {
		if err != nil { return nil }
		rel, _ := filepath.Rel(src, p)
		if info.IsDir() { return os.MkdirAll(filepath.Join(dst, rel), 0755) }
		return sparseCopyFile(p, filepath.Join(dst, rel))
	})
}

func TestSparseImage(t *testing.T) {
	dir := t.TempDir()
	e := open(t, filepath.Join(dir, "data"))
	e.VCreate("i", distance.Euclidean, 4, 8, distance.Float32, "", nil, nil, nil)
	e.VCreate("j", distance.Cosine, 4, 8, distance.Float32, "", nil, nil, nil)
	for i := 0; i < 20; i++ {
		e.VAdd("i", fmt.Sprintf("s%d", i), []float32{float32(i), 1}, map[string]any{"n": float64(i)})
		e.VAdd("j", fmt.Sprintf("s%d", i), []float32{float32(i), 1}, map[string]any{"n": float64(i)})
	}
	e.AOF.Flush()
	t0 := time.Now()
	for k := 0; k < 20; k++ {
		if err := sparseCopyDir(filepath.Join(dir, "data"), filepath.Join(dir, fmt.Sprintf("img%d", k))); err != nil { t.Fatal(err) }
	}
	t.Log("20 images in", time.Since(t0))
	// open image while original still open
	t1 := time.Now()
	e2 := open(t, filepath.Join(dir, "img3"))
	t.Log("open image:", time.Since(t1), dump(e2, "i", "s19"), dump(e2, "j", "s7"))
	e2.Close()
	e.Close()
	var du int64
	filepath.Walk(filepath.Join(dir, "img3"), func(p string, info os.FileInfo, err error) error { if st, ok := info.Sys().(*unix.Stat_t); ok { du += st.Blocks * 512 }; return nil })
	t.Log("image disk usage bytes:", du)
}

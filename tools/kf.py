#!/usr/bin/env python3
"""Maintain known_findings.json by hand (never used at check run time).
  kf.py fix <id> <commit>                      mark an entry fixed
  kf.py add <id> <prop> <commit> <what> <scenario>   add a fixed entry
"""
import json, sys
P = '/verif/known_findings.json'
d = json.load(open(P))
cmd = sys.argv[1]
if cmd == 'fix':
    fid, commit = sys.argv[2], sys.argv[3]
    for e in d['findings']:
        if e['id'] == fid:
            e['status'] = 'fixed'; e['commit'] = commit
            if not e['what'].startswith('fixed:'):
                e['what'] = 'fixed: property=%s %s %s' % (e['property'], commit, e['what'])
            break
    else:
        sys.exit('no such id')
elif cmd == 'add':
    fid, prop, commit, what, scen = sys.argv[2:7]
    assert not any(e['id'] == fid for e in d['findings'])
    d['findings'].append({'id': fid, 'property': prop, 'status': 'fixed', 'commit': commit,
                          'what': 'fixed: property=%s %s %s' % (prop, commit, what), 'scenario': scen})
json.dump(d, open(P, 'w'), indent=1, ensure_ascii=False)
open(P, 'a').write('\n')

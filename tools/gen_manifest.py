#!/usr/bin/env python3
"""Regenerates /verif/MANIFEST.json from the table below + harness/checks*.json."""
import json, glob, os
V = os.path.dirname(os.path.dirname(os.path.abspath(__file__)))
cfg = json.load(open(os.path.join(V, "harness/checks.json")))
for p in sorted(glob.glob(os.path.join(V, "harness/checks.d/*.json"))):
    cfg.update(json.load(open(p)))

T = {
 "C01": ("vexec", "runtime monitoring: full read-out before Close vs after Open + reference-model oracle over generated histories",
  "Directed templates for every ordering the property singles out (write after snapshot, delete→compact, compress, nil arguments, re-add→vacuum, singles→batch, drop→re-create, import+commit, edge history, evolve/reinforce, config updates, delete cascade) on all valid metric×precision combinations plus thousands of seeded random histories with 1–6 restart cycles; at each restart the complete public read-out before Close must equal the one after Open and the reference model, and the engine must stay usable. Held on the executions observed.",
  "Trusts harness/vexec (model, Observe/Diff). Clean shutdown only; vector equality policy of DESIGN.md 2.5."),
 "C05": ("vexec", "runtime monitoring: planted rejections + full read-out equality + reference-model oracle",
  "Calls that must be rejected (22 classes covering every failure cause named in the property, alone and as an item of a batch/import) are planted at random positions of generated histories; a rejected call must leave the complete public read-out identical, the index usable, and — after further history and a restart — the state equal to the model in which the call never happened. Held on the executions observed.",
  "Which calls must be rejected is predicted by harness/vexec; a call is 'rejected' iff it returns a non-nil error."),
 "C10": ("vexec", "runtime monitoring: exhaustive short operation sequences + random engine histories against an edge-version reference model",
  "The in-memory edge store is driven through ALL operation sequences up to length 3 (quick) / 4 (thorough) over a 39-letter alphabet with explicit timestamps and compared view by view with a version model (exhaustive over that bounded space); beyond it, random link/unlink/vacuum histories through the engine API with snapshot, compaction and plain restarts are compared at time 0 and at every history boundary. Exploration with an exhaustively enumerated core; held on what was enumerated/observed.",
  "Incoming view = the engine-observable (hydrated) one, see DESIGN.md C10 scope note. Engine timestamps are clock-bracketed and bound by read-back."),
 "C12": ("vexec", "runtime monitoring with fault injection at hook points (held cascade + shutdown, crash images)",
  "For generated graphs the delete cascade is interrupted at every kind of point it has (before it starts, after k steps, journal/apply gap of the delete, at its end) by engine shutdown or by taking a crash image of the data directory, then recovered; after settle, after recovery and after a further restart no current graph query may involve the deleted node unless it was linked again, and all other edges must equal the model. Fault enumeration over the cascade's step boundaries on explored graphs.",
  "Crash = process death modelled by a sparse copy of the data dir taken inside the process after an AOF flush; cascade progress observed through verifhook points."),
 "C04": ("vexec", "runtime monitoring: reference-model oracle over generated operation histories",
  "Seeded random operation histories (adds, batches, imports, deletes, re-adds, merges, reinforce, evolve, graph ops, KV) interleaved with maintenance/admin ops run against the real engine; every read the property names is compared with a map-of-records reference model, and the model also predicts which calls must be accepted or rejected. Held on the executions observed, not a proof.",
  "Trusts the reference model (harness/vexec/model.go) as the reading of the property; vector equality per precision as fixed in DESIGN.md 2.4."),
}

def main():
    man = {
        "version": 1,
        "setup_cmd": "./check --setup",
        "hooks": {
            "guard": "verif",
            "enable": "go test -c -tags verif -overlay build/overlay.json -modfile build/repo.mod (done by ./check; Go build tag `verif` switches pkg/verifhook from no-op to live)",
            "baseline_off_cmd": "/verif/tools/baseline.sh /repo",
            "source_commits": ["696fb8d", "b18b87d", "17e7999"],
            "add_only": True,
        },
        "engines": [
            {"name": "vexec", "path": "harness/vexec", "serves_properties": [], "kind_free_text": "reference model + executor + full read-out comparison against the real engine; child processes driven by ./check"},
            {"name": "vkit", "path": "harness/vkit", "serves_properties": [], "kind_free_text": "case scheduling, seeded PRNG, op log, violation/evidence writers, watchdog with goroutine-dump classification"},
        ],
        "checks": [],
        "not_applicable": [],
        "notes": "All checks are runtime monitors: the real code under generated workloads observed by oracles; see DESIGN.md. Exit 2 + INCONCLUSIVE is used when a run observed nothing or a watchdog fired without a witness.",
    }
    props = [json.loads(l)["id"] for l in open(os.path.join(V, "properties.jsonl"))]
    for pid in props:
        if pid in T and pid in cfg:
            eng, tech, text, note = T[pid]
            for e in man["engines"]:
                if e["name"] == eng:
                    e["serves_properties"].append(pid)
            man["checks"].append({
                "property_id": pid,
                "quick_cmd": "./check %s --tier quick" % pid,
                "thorough_cmd": "./check %s --tier thorough" % pid,
                "evidence_file": "/verif/evidence/%s.json" % pid,
                "replay_cmd_template": "./check %s --replay {path}" % pid,
                "engine": eng,
                "technique": tech,
                "level_claimed": {"category": cfg[pid].get("level", "exploration"), "text": text, "design_ref": "DESIGN.md section 4, %s" % pid},
                "level_note": note,
            })
        else:
            man["not_applicable"].append({"property_id": pid, "reason": "check under construction in this session (runtime monitor designed in DESIGN.md section 4); not claimed until it runs clean"})
    json.dump(man, open(os.path.join(V, "MANIFEST.json"), "w"), indent=1)
    print("manifest: %d checks, %d not claimed" % (len(man["checks"]), len(man["not_applicable"])))

if __name__ == "__main__":
    main()

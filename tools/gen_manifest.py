#!/usr/bin/env python3
"""Regenerates /verif/MANIFEST.json from the table below + harness/checks*.json."""
import json, glob, os
V = os.path.dirname(os.path.dirname(os.path.abspath(__file__)))
cfg = json.load(open(os.path.join(V, "harness/checks.json")))
for p in sorted(glob.glob(os.path.join(V, "harness/checks.d/*.json"))):
    cfg.update(json.load(open(p)))

HOOK_COMMITS = ["696fb8d", "b18b87d", "17e7999", "f46fb1d", "0343457", "e174a02"]

T = {
 "C01": ("vexec", "runtime monitoring: full read-out before Close vs after Open + reference-model oracle over generated histories",
  "Directed templates for every ordering the property singles out (write after snapshot, delete→compact, compress, nil arguments, re-add→vacuum, singles→batch, drop→re-create, import+commit, edge history, evolve/reinforce, config updates, delete cascade) on all valid metric×precision combinations plus thousands of seeded random histories with 1–6 restart cycles; at each restart the complete public read-out before Close must equal the one after Open and the reference model, and the engine must stay usable. Held on the executions observed.",
  "Trusts harness/vexec (model, Observe/Diff). Clean shutdown only; vector equality policy of DESIGN.md 2.5."),
 "C05": ("vexec", "runtime monitoring: planted rejections + full read-out equality + reference-model oracle",
  "Calls that must be rejected (22 classes covering every failure cause named in the property, alone and as an item of a batch/import) are planted at random positions of generated histories; a rejected call must leave the complete public read-out identical, the index usable, and — after further history and a restart — the state equal to the model in which the call never happened. Held on the executions observed.",
  "Which calls must be rejected is predicted by harness/vexec; a call is 'rejected' iff it returns a non-nil error. A second part races 2-5 clients on the same new ids (single adds and batches) and index names: the loser is rejected and must leave nothing behind, now or after a restart."),
 "C06": ("vexec", "runtime monitoring: universal-negative result oracle over model-checked index states + race-detector run with concurrent writers/maintenance",
  "Index contents are produced by random operation histories (adds, batches, imports, deletes, re-adds, merges, evolve, vacuum, refine, compress, snapshot, compaction, restart) whose state is first compared with the reference model; then every index is queried through VSearch, VSearchGraph, VSearchWithScores, VFilter and text/hybrid search with generated queries, k, efSearch, filters and graph scopes. Every returned id must be live in the model, in the queried index, satisfy the reference filter evaluator, lie in the reference BFS scope, be unique, at most k, in non-increasing score order, and every score is recomputed from the stored vector / metadata. A second part repeats the membership / uniqueness / filter assertions under the race detector while writers, deleters, vacuum and refine run. Held on the executions observed.",
  "Completeness of the approximate search is not demanded (C07). Score tolerance per precision: 2e-4 float32, 1e-2 float16, 6e-2 int8 on the similarity 1/(1+d)."),
 "C10": ("vexec", "runtime monitoring: exhaustive short operation sequences + random engine histories against an edge-version reference model",
  "The in-memory edge store is driven through ALL operation sequences up to length 3 (quick) / 4 (thorough) over a 39-letter alphabet with explicit timestamps and compared view by view with a version model (exhaustive over that bounded space); beyond it, random link/unlink/vacuum histories through the engine API with snapshot, compaction and plain restarts are compared at time 0 and at every history boundary, and a group with a real retention window puts the prune boundary inside the history. Exploration with an exhaustively enumerated core; held on what was enumerated/observed.",
  "Incoming view = the engine-observable (hydrated) one, see DESIGN.md C10 scope note. Engine timestamps are clock-bracketed and bound by read-back."),
 "C12": ("vexec", "runtime monitoring with fault injection at hook points (held cascade + shutdown, crash images)",
  "For generated graphs (the victim has edges in both directions, only outgoing, only incoming, only a self loop, or random ones) the delete cascade is interrupted at every kind of point it has (before it starts, after k steps, journal/apply gap of the delete, at its end) by engine shutdown or by taking a crash image of the data directory, then recovered; after settle, after recovery and after a further restart no current graph query may involve the deleted node unless it was linked again, and all other edges must equal the model. Fault enumeration over the cascade's step boundaries on explored graphs.",
  "Crash = process death modelled by a sparse copy of the data dir taken inside the process after an AOF flush; cascade progress observed through verifhook points."),
 "C02": ("vexec", "runtime monitoring with fault injection: crash images at hook points, torn log tails, crash during recovery; per-item oracle against the recorded model states",
  "While generated histories run, a hook handler copies the data directory (as a process death would leave it) at every step boundary of snapshot / compaction / index drop / import commit / delete cascade and at sampled journal/apply gaps of all mutating operations; images taken right after a writer flush are additionally torn at byte offsets inside the bytes just appended, and recovery itself is interrupted after a tail repair. Every recovered image must open, every item must equal a value it held between its durable floor and the operation in flight, the directory must be a fixed point under reopen and under further writes + restart. Fault enumeration over the reachable hook points of explored histories.",
  "Crash model = process death (page-cache contents, user-space buffers lost). Durable floors derived from the documented flush behaviour. A dedicated matrix images every hook point inside VCompress from six kinds of persistent pre-state; a hand-built image covers the blank first arena chunk; recovered directories must additionally carry deletions + a compaction across a restart. Images from a goroutine that runs beside its operation (arena removal of VDeleteIndex) are taken only while the operation is parked."),
 "C08": ("vexec", "runtime monitoring: reference filter evaluator over generated metadata histories in several provenances",
  "A from-scratch evaluator of the documented filter semantics is compared with VFilter (set equality) and VSearch-with-filter (subset) on generated OR-of-AND expressions after generated update histories (type changes, merges, deletes, re-adds, vacuum), in every provenance of the same logical state: live, log replay, compaction + restart, snapshot + restart, after compression, and after further updates on the restored state.",
  "Numeric-looking strings, non-float64 Go numbers and keywords inside quoted literals are a lenient class (counted, not asserted): the property does not settle them."),
 "C09": ("vexec", "runtime monitoring: from-scratch BM25 and fusion reference over generated corpora and histories",
  "Reference BM25 (k1=1.2, b=0.75) computed from the current field values read back through VGet is compared to 1e-9 with FindIDsByTextSearch (exact document set, scores, order) and, in the exact vector regime, every hybrid score with alpha*sim+(1-alpha)*bm25/max within 1e-6, incl. alpha=0 / alpha=1 orderings, after generated insert / overwrite / delete / re-add / restore / compress histories in English and Italian.",
  "The repository's own analyser defines 'analysed term'. Repeated query terms and all-stop-word documents are a lenient class."),
 "C11": ("vexec", "runtime monitoring: reference BFS over the edge-version model vs FindPath / subgraph / graph-scoped search / traversal",
  "Random and hand-shaped small multigraphs (cycles, self-loops, parallel relations, soft-deleted and re-linked edges) are built through the engine; millions of FindPath, VExtractSubgraph, graph-scoped VSearch and VTraverse queries at now and at historical instants are compared with a plain BFS on the model: returned paths must be valid and shortest, a path within max depth must be found, reachable sets must be exact, traversals must terminate.",
  "Graph-scoped search is judged in the exact HNSW regime (<= 8 vectors, M=16). Paths longer than max depth may or may not be returned (property silent)."),
 "C15": ("pure", "runtime monitoring: law checking of the decay functions on generated inputs + clock-bracketed engine-level oracle",
  "10^5-10^7 generated (model, half-life, age, count) inputs against the unexported decay functions (range, monotonicity, fixed points of each model), and thousands of memory-enabled indexes searched through both scoring APIs before/after VReinforce with every pinned / layer / timestamp / override combination; factors must be 1 where the property says so and inside the model bracket computed from clock samples otherwise.",
  "The product reads time.Now().Unix(); the oracle brackets each call with the same clock and never places a case near a threshold."),
 "C16": ("http", "runtime monitoring: state-based oracles over the full HTTP handler chain for every parsed route x token x hostile name",
  "The route table is parsed from the current source; every route is driven with read / write / admin tokens restricted to namespaces, hostile resource names and index-carrying body fields. Oracles compare full state digests: a read token never changes state, a write token never administers, a namespace-restricted token never reads or changes another index; forged, altered (every byte), expired, revoked tokens are never served; issue/revoke survive restarts.",
  "The seven defects it found (role from path suffix, _sys_auth KV exposure, admin not enforced, namespace taken from another field, auth state outside the journal, escaped path segments, graph id ambiguity) are repaired in the repository; their probes run unguarded as regression cases."),
 "C17": ("http", "runtime monitoring: gateway driven with a stub embedder of designed distances and a counting upstream",
  "Prompts are mapped to unit vectors at designed distances (<= T/2 or >= 2T) from forbidden prompts and cached queries; the reference decision (deny pattern on the latest user message or semantic proximity => 4xx and upstream untouched; cache hit only within distance and TTL, never for streaming; invalidation removes exactly the answers citing the document) is compared with what the real proxy does, counting upstream round trips.",
  "Embedder and upstream are stubs. The defects it found (threshold direction, task-marker bypass, invalidation, expired-entry shadowing, orphaned cache entry after a racing cleanup) are repaired in the repository; their probes run unguarded."),
 "C19": ("http", "runtime monitoring: systematic JSON mutation of every data-plane route with panic-hook, digest, limit and confinement oracles",
  "Valid request templates are derived by reflection from the handlers' request types and mutated (missing fields, every other JSON type, null, huge/negative numbers, deep nesting, non-JSON, hostile names); the panic-recovery hook must never fire, responses must be well formed, non-JSON / wrong-typed bodies get 4xx, a 4xx leaves the state digest unchanged, published limits are enforced, and nothing outside the data directory changes (sentinel tree), also after restart.",
  "Requests are sequential (concurrency is C13). Duration fields are typed (string or number). The defects it found (path escape via index names, process-fatal negative ef values, ...) are repaired in the repository; their probes run unguarded."),
 "C03": ("pure", "runtime monitoring with fault enumeration: codec round trips + byte-level damage of real log files followed by engine recovery",
  "Generated commands (nil / empty / binary arguments biased to CR, LF, NUL, '$', '*', 0xA5) and vectors (all float32 classes; thorough: all 2^32 bit patterns through the hex codec) must round-trip byte for byte; logs of self-identifying commands written with the real writer are damaged (bit flips, 0xA5 injection, overwrites, deletions, insertions, truncation; thorough: every byte x 3 damages and every cut of small logs) and reopened: nothing fabricated or garbled, original order, every untouched frame after the damage applied, Open refuses only without a leading frame marker, allocation bounded.",
  "The embedded-valid-frame swallow case is excluded as the property states. Allocation bound = documented 1 GB frame cap x candidate frame markers + 64 MB."),
 "C07": ("vexec", "runtime monitoring: brute-force oracle in the exact regime, calibrated recall floors and structural invariant walker in the large regime",
  "In the regime where the base layer is fully connected (<= 2M nodes incl. unvacuumed deletions) every k-NN answer after every operation of generated histories (adds, batches, imports, deletes, vacuum, refine, compress, restart) must equal the brute-force top-k distance multiset, for all efSearch; on fixed seed-determined batches of 1000-3000 vectors mean recall@10 and self-retrieval must stay above floors calibrated on this tree (min over 10 seeds and all stages minus 0.10, capped at 0.85) at every maintenance stage; graph invariants (degree bounds, no dangling / self links, live entry point, reachability) are walked after each step.",
  "Floors are empirical (regression detectors, not a recall guarantee); they were recalibrated over 30 seeds after the five HNSW defects the check found were repaired (evidence/calibration)."),
 "C13": ("vexec", "Go race detector + stress workloads with randomised yields at hook points + porcupine linearizability check + lost-update counters + deadlock witness from goroutine dumps",
  "Four workload shapes on indexes of which one carries an auto-link rule (nested link per add), with never-read subscribers added and fresh indexes created and first filled under load throughout (client mix; + admin goroutine cycling snapshot / compaction / vacuum / refine / graph vacuum; + index create / import / compress / drop and three kinds of event subscribers; + Close in the middle) with 4-24 clients on shared items run in a -race build with seed-determined sleeps and yields at every hook point and GOMAXPROCS in {2,4,16}. Oracles: no race report in kektordb frames, no panic / fatal error, deadlock only with a dump witness, every acknowledged reinforcement counted, every acknowledged concurrently merged metadata key present, the recorded KV history linearizable per key (porcupine), consistent id maps, state identical after restart, clean failure and durability after Close.",
  "Interleavings are those the scheduler produces here; evidence reports the number of distinct cross-goroutine adjacent hook-point pairs observed. rr is unavailable, so a schedule cannot be replayed (the seed reproduces the operation lists)."),
 "C14": ("vexec", "runtime monitoring with forced schedules (hook gates) + ownership protocol under concurrent admin operations + writer contract",
  "The complete table of 528 forced schedules {write op, 11 of the 22 being compound sequences on one item or writes straddling the admin operation} x {SaveSnapshot, RewriteAOF} x {phase boundary} x {write parked between journal and apply | write issued while the admin op is parked} is driven with hook gates; concurrently owned items with increasing sequence numbers are written while snapshots and compactions (also overlapping, also auto-triggered) run; the lazy writer's Flush / Sync / Close / snapshot-mode contract is checked with an atomic acknowledgement counter, free-running and with a forced backlog (writer goroutine parked at its flush point while N writes are acknowledged and the control call is issued). After restart every acknowledged write must be present.",
  "Schedule table enumerated completely (exhaustive over that finite table); free-running parts are exploration. Gates use verifhook points."),
 "C18": ("pure", "runtime monitoring: float64 reference kernels with derived tolerances, guard-page overread detection, quantizer laws, arena shadow model under the race detector",
  "Every dispatched distance kernel is compared with a float64 reference over 16 dimensions x 12 magnitude classes with operands placed against a PROT_NONE page (also in a -race/checkptr build); quantizer training percentile, clipping (never wrapping) and round-trip bounds; float16 conversion vs an independent implementation; VGet / scores around VCompress and restart within per-pair derived bounds; the mmap arena is driven directly (alloc / free / reuse / compaction cycles / state save+load / reopen) against a shadow map of content stamps, with concurrent readers under the race detector.",
  "Pure-Go build on amd64 only. The two arena-compactor defects it found are repaired; the engine part re-checks values and distances of earlier vectors after a late insert following compression and restart."),
 "C20": ("pure", "runtime monitoring: total/deterministic/bounded oracles over generated strings and chunk graphs",
  "Hostile strings (invalid UTF-8, mixed scripts, 100 KB words, stemmer-rule vocabularies read from the sources) through analysers, compressor, every splitter strategy x sizes x overlaps and the fixed chunker: no panic, same output twice, no non-whitespace content lost, chunk length <= size+overlap, negations/connectives preserved; adaptive retrieval over a counting stub store on generated chunk graphs (cycles, hubs): token budget, depth limit, node cap and termination checked against a reference BFS.",
  "Content preservation is rune-exact for valid UTF-8 and byte-exact for invalid input."),
 "C04": ("vexec", "runtime monitoring: reference-model oracle over generated operation histories",
  "Seeded random operation histories (adds, batches, imports, deletes, re-adds, merges, reinforce, evolve, graph ops, KV) interleaved with maintenance/admin ops run against the real engine; every read the property names is compared with a map-of-records reference model, and the model also predicts which calls must be accepted or rejected. Held on the executions observed, not a proof.",
  "Trusts the reference model (harness/vexec/model.go) as the reading of the property; vector equality per precision as fixed in DESIGN.md 2.4."),
}

# additions of the third session (appended to the level text / the technique of the property)
ADD = {
 "C01": (" + concurrent histories (no model), also under the Go race detector", " Part `conc`: histories made by overlapping calls of 2-6 clients and 0-2 administration goroutines; after quiescence the read-out before Close equals the one after Open, twice; probes D66-D68."),
 "C02": ("", " Group `covered`: writes acknowledged while a snapshot / compaction is parked at each phase are covered once it completed (process death right after it returned); plain restart after post-recovery deletions; probe D69."),
 "C04": (" + one-writer-per-id concurrent part, also under the Go race detector", " Part `owned`: 2-5 concurrent writers into one index, every id with one writer whose sequential model predicts its reads exactly, beside a maintenance goroutine."),
 "C05": ("", " Rejections are also planted into emptied and never-populated indexes (which then take a vector of another dimension)."),
 "C06": (" + order / path independence of the decay factor", " Fused scores (text-only, hybrid) are recomputed under filter and graph scope; part `memscores`: the decay factor of an id does not depend on the other results nor on the search path."),
 "C08": (" + window oracle under concurrent metadata updates", " Reads are part of the history (searches combining the filter with other options must not change later answers); group `concurrent`: filters evaluated while writers apply multi-key transitions."),
 "C09": (" + concurrent writers (also under the Go race detector) + scores under a filter", " Part `conc`: one writer per document, searches during updates, BM25 from scratch after quiescence / restart; part `hybridfilter`: normalisation over the documents that pass the filter."),
 "C10": (" + history laws under overlapping calls, also under the Go race detector", " Part `conc`: overlapping link / unlink calls with call-unique weights: disjoint life times, views = stored versions at every boundary (incoming view version by version), stamps inside the call brackets, restarts."),
 "C11": ("", " Graph-scoped searches are also asked with a text part (explicit / CONTAINS, hybrid / text-only): same scope, nothing from an empty scope."),
 "C12": ("", " Also: shutdown while a snapshot / compaction waits behind the parked cascade."),
 "C13": ("", " Half of the W3/W4 cases run two administration goroutines; clients serialise what they read and work on the index the administrators create / compress / drop."),
 "C14": (" + process death at every phase followed by further acknowledged writes", " Group `crashphase`: process death at every phase of snapshot / compaction / compression / drop, then what the recovered engine acknowledges must survive its clean restarts; VImport+VImportCommit is a write kind of the table."),
 "C15": (" + twin-index oracle + concurrent reinforcements (also under the Go race detector)", " Part `twin`: score on the memory index = score on a twin index without decay x decay(id) for vector and hybrid searches, k above and below n; part `conc`: every acknowledged concurrent reinforcement counted exactly once."),
 "C16": ("", " Group `methods`: every route x 12 HTTP methods x refused credentials and restricted tokens (gate oracle)."),
 "C17": ("", " Forbidden-prompt / cache indexes with time decay, answers the gateway stored itself growing older than the TTL in real time, request bodies with typed extras and multimodal earlier turns."),
 "C18": ("", " A late batch on the parallel insert path after compression."),
 "C19": ("", " Interpreted-string family (malformed sentences of every language the server reads from a string field), a non-finite stored component in the float16 fixture."),
 "C03": ("", " Groups `longscan` / `scanedge`: damaged regions longer than the scan chunk, frames at every offset around chunk boundaries, a second start on the repaired file."),
}

def main():
    man = {
        "version": 1,
        "setup_cmd": "./check --setup",
        "hooks": {
            "guard": "verif",
            "enable": "go test -c -tags verif -overlay build/overlay.json -modfile build/repo.mod (done by ./check; Go build tag `verif` switches pkg/verifhook from no-op to live)",
            "baseline_off_cmd": "/verif/tools/baseline.sh /repo",
            "source_commits": HOOK_COMMITS,
            "add_only": True,
        },
        "engines": [
            {"name": "vexec", "path": "harness/vexec", "serves_properties": [], "kind_free_text": "reference model + executor + full read-out comparison against the real engine; child processes driven by ./check"},
            {"name": "vkit", "path": "harness/vkit", "serves_properties": [], "kind_free_text": "case scheduling, seeded PRNG, op log, violation/evidence writers, watchdog with goroutine-dump classification"},
            {"name": "http", "path": "harness/checks/internal_server + harness/checks/pkg_proxy", "serves_properties": [], "kind_free_text": "full HTTP handler chain / AI gateway driven in-process with generated requests, state digests from vexec.Observe"},
            {"name": "pure", "path": "harness/checks (white-box test files)", "serves_properties": [], "kind_free_text": "generators + law/reference oracles for pure functions and small components"},
        ],
        "checks": [],
        "not_applicable": [],
        "notes": "All checks are runtime monitors: the real code under generated workloads observed by oracles; see DESIGN.md. Exit 2 + INCONCLUSIVE is used when a run observed nothing or a watchdog fired without a witness.",
    }
    props = [json.loads(l)["id"] for l in open(os.path.join(V, "properties.jsonl"))]
    for pid in props:
        if pid in T and pid in cfg:
            eng, tech, text, note = T[pid]
            if pid in ADD:
                tech, text = tech + ADD[pid][0], text + ADD[pid][1]
            for e in man["engines"]:
                if e["name"] == eng:
                    e["serves_properties"].append(pid)
            man["checks"].append({
                "property_id": pid,
                "quick_cmd": "./check %s --tier quick" % pid,
                "thorough_cmd": "./check %s --tier thorough" % pid,
                "evidence_file": "/verif/evidence/%s.json" % pid,
                "replay_cmd_template": "./check %s --replay {path}" % pid,
                "engine": eng,
                "technique": tech,
                "level_claimed": {"category": cfg[pid].get("level", "exploration"), "text": text, "design_ref": "DESIGN.md section 4, %s" % pid},
                "level_note": note,
            })
        else:
            man["not_applicable"].append({"property_id": pid, "reason": "check under construction in this session (runtime monitor designed in DESIGN.md section 4); not claimed until it runs clean"})
    json.dump(man, open(os.path.join(V, "MANIFEST.json"), "w"), indent=1)
    print("manifest: %d checks, %d not claimed" % (len(man["checks"]), len(man["not_applicable"])))

if __name__ == "__main__":
    main()

#!/usr/bin/env python3
"""One-shot helper used to add verifhook.Point lines to /repo (add-only)."""
import re, sys
def insert(path, func, anchor, text, after=True, nth=1, skip_block=False):
    src = open(path).read().split("\n")
    # find func start
    start = 0
    if func:
        for i,l in enumerate(src):
            if l.startswith("func ") and func in l:
                start = i; break
        else:
            raise SystemExit("func not found: %s %s" % (path, func))
    cnt = 0
    for i in range(start, len(src)):
        if i > start and func and src[i].startswith("func "):
            break
        if anchor in src[i]:
            cnt += 1
            if cnt == nth:
                j = i
                if skip_block:
                    # skip to the line closing the if-block opened on the anchor line
                    depth = 0
                    for k in range(i, len(src)):
                        depth += src[k].count("{") - src[k].count("}")
                        if depth <= 0 and k > i or (depth == 0 and k == i and "{" not in src[k]):
                            j = k; break
                indent = re.match(r"\s*", src[i]).group(0)
                line = indent + text
                if after:
                    src.insert(j+1, line)
                else:
                    src.insert(i, line)
                open(path, "w").write("\n".join(src))
                return
    raise SystemExit("anchor not found: %s %s %r" % (path, func, anchor))
def add_import(path, imp='"github.com/sanonone/kektordb/pkg/verifhook"'):
    s = open(path).read()
    if imp in s: return
    # insert as last line of the import block
    m = re.search(r"import \(\n(.*?)\n\)", s, re.S)
    block = m.group(1)
    s = s[:m.end(1)] + "\n\t" + imp + s[m.end(1):]
    open(path, "w").write(s)
if __name__ == "__main__":
    exec(open(sys.argv[1]).read())

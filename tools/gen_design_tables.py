#!/usr/bin/env python3
"""Regenerates the two generated tables of DESIGN.md (between the marker comments):
defects (from known_findings.json) and seeded changes (from seeded/*/meta.json + result.json)."""
import glob, json, os, re

MISSED = {
 # round 7 (M, N; started for six properties, cut short by the end of the session)
 'C16-N': 'tokens that expired 2 s, 20 s, 90 s and 10 min ago (before: one hour and longer): "unexpired" has no grace period',
 'C13-M': 'judged a miss from its description before any run (clients only merged NEW keys): every client also owns an existing key of the shared node and overwrites it with increasing numbers',
 'C13-N': '**not caught**: the change makes the shutdown path hang; the check ends INCONCLUSIVE after its external watchdog instead of reporting the panic in Unsubscribe after Close (the post-Close bus calls were moved to a guarded goroutine, which was not enough)',
 # round 6 (K, L; ten properties)
 'C06-L': 'list replacement steps (lists given as []any, []string, []int) and filter literals that a record held and lost (plus literals of the generator\'s vocabulary that no live record may hold)',
 'C09-K': 'the text field is also overwritten with JSON null and with an object (sequential and concurrent parts)',
 'C11-K': 'node ids that contain the "::" separator of the internal graph ids, in the shape and random groups',
 'C14-L': 'compound write VDelete+VAdd+VLink(inverse) in the forced-schedule table (all three records both in the captured state and in the replayed log)',
 'C17-K': 'group `scaled`: embedders whose vectors are not of unit length on euclidean forbidden-prompt indexes',
 'C17-L': 'max_cache_items = 0 (the documented "unlimited") in a third of the worlds',
 'C19-K': 'the oversized body also as a chunked body of unknown length; part `bigbody` now runs in the quick tier',
 'C19-L': '**not in the property\'s quantifier**: POST /sessions/{id}/end is a session route (DOCUMENTATION.md 5.6), the property ranges over the KV, vector, index, graph and system APIs; kept for the record, not claimed',
 # round 5 (I, J)
 'C02-I': 'same edit as C14-A (Sync no longer drains the queue) seen from the crash side; judged a miss from its description before any run (C02 drove one call at a time): group `covered` (writes acknowledged while a snapshot / compaction is parked are covered once it completed; process death right after it returned)',
 'C02-J': 'a plain restart between the post-recovery deletions and the compaction (c02Evaluate); the same extension found the genuine defect D69',
 'C05-I': 'usability probe of a never-populated index with a vector of another dimension after a rejected call',
 'C06-J': 'part `memscores`: the decay factor of an id is the same alone and inside any larger result, and the same on both search paths',
 'C09-J': 'part `hybridfilter`: hybrid searches under a metadata filter, text scores normalised by the best BM25 among the documents that pass it',
 'C10-I': 'the incoming view is compared version by version (weight, properties, stamps), not only by source (vexec.CheckGraphViews and C10 `conc`)',
 'C11-I': 'graph-scoped searches with a text part (explicit / CONTAINS, hybrid / text-only): same scope, nothing from an empty scope',
 'C14-I': 'judged a miss from its description before any run (no import in the schedule table): `VImport+VImportCommit` as a write kind of the forced-schedule table',
 'C14-J': 'group `crashphase`: process death at every phase of a snapshot / compaction / compression / drop; what the recovered engine acknowledges survives its clean restarts (also caught by C02 as it stood: the change needs a process death)',
 'C15-I': 'part `twin`: score(memory index) = score(twin index without decay) x decay(id) for vector and hybrid searches, k above and below the number of memories',
 'C17-J': 'request bodies carry what chat clients send besides the latest user message (typed extras, an earlier multimodal turn with a list as content)',
 'C18-J': 'a late batch (more vectors than CPUs) on the parallel insert path of the index\'s current precision after compression',
 'C19-J': 'the float16 fixture index holds a vector with a component beyond the float16 range (+Inf in the index)',
 # round 4 (G, H)
 'C19-G': 'interpreted-string family: every string field carries malformed sentences of the language the server reads from it (truncations, deletions, metacharacters, dangling / doubled operators of filters, enumerations, relation paths), token soups, 2-3 simultaneous field mutations, empty / emptied / float16 indexes, every other HTTP method',
 'C16-G': 'group `methods`: every route x 12 HTTP methods x refused credentials (no header, 90+ forgeries, revoked, expired, altered byte) and restricted tokens; gate oracle: no 2xx behind the auth chain, no effect, no secret in the response',
 'C17-G': 'forbidden-prompt / cache indexes created with time decay (memory indexes) and stored entries of drawn ages: rank order and distance order differ',
 'C17-H': 'group `expiry` (answers the gateway stored itself grow older than a 2-12 s TTL in real time) + read-out of created_at of every gateway-stored entry against the clock bracket',
 'C01-G': 'same edit as C13-H (cleanup of a refused compaction ends the running snapshot\'s mode): needs a compaction arriving while a snapshot is written - caught by C14 as it stood; C01 part `conc` (two administration goroutines) drives that overlap now. **Obsolete** since fix e1c9bc9 (compactions and snapshots exclude each other): the trigger is unreachable',
 'C01-H': 'C01 part `conc`: histories made by overlapping calls of several clients, restart from the plain log (also caught by C13 as it stood)',
 'C03-G': 'groups `longscan` / `scanedge`: damaged regions longer than the 8 KiB scan chunk, magic bytes and following frames at every offset around chunk boundaries, a second start on the repaired file',
 'C04-H': 'C04 part `owned`: several writers into one index, every id with one writer whose sequential model predicts its reads exactly (also caught by C13 as it stood)',
 'C05-G': 'rejections planted into emptied indexes (all vectors deleted; + vacuum / snapshot / rewrite / restart), shorter / longer / whole-batch dimension mismatches. **Obsolete** since fix 1c8f2b8 (the engine refuses such an insert before journaling)',
 'C06-H': 'fused-score oracle: text-only and hybrid scores recomputed with filter and graph scope (max-normalisation over the ELIGIBLE documents)',
 'C08-G': 'reads are part of the history: searches that combine the filter with a graph scope / text query / efSearch / k<n, and VFilter must answer the same before and after them (also caught by C06 as it stood)',
 'C08-H': 'group `concurrent`: filters evaluated while writers apply multi-key metadata transitions; window oracle over the versions an id had during the call',
 'C09-H': 'searches at every stage of the index life (empty index, pre-text phase, primary text stripped, decoy index), text field names as input, field-of-explicit-query oracle',
 'C10-G': 'C10 part `conc`: overlapping link / unlink calls with call-unique weights; history laws (disjoint life times, views = stored versions, stamps inside the call brackets) + restarts (also caught by C13 as it stood)',
 'C12-G': 'schedule `close while the snapshot / compaction waits behind the parked cascade` in mode admin_in_flight',
 'C13-H': 'same edit as C01-G. **Obsolete** since fix e1c9bc9: a compaction can no longer arrive while a snapshot has the journal in snapshot mode (the demonstration passes with the patch on the current HEAD); C13 now runs two administration goroutines in half of the W3/W4 cases',
 'C08-A': 'look-alike overwrites added to C08 (a value of another type that prints the same, as a transient)',
 'C08-B': '=/!= partition law asserted on the unsettled value classes + class `mixed` (number, its decimal string and lists under one key)',
 'C10-B': 'group `retention`: real GraphRetention window with the prune boundary inside the history, all restart kinds',
 'C12-B': "the victim's neighbourhood now varies (only outgoing / only incoming / only self loop / both / random); before, an incoming edge was always planted",
 'C13-B': 'never-read subscribers are added throughout every workload (before: one, full from the first event on); the watchdog no longer ignores goroutines blocked in EventBus methods',
 'C14-A': 'part `backlog`: writer goroutine parked at its flush point by a hook gate, N writes acknowledged, control call issued, goroutine released',
 'C17-A': 'deny patterns written with upper-case letters, character classes and an inline flag',
 'C02-C': 'recovered directories must also carry deletions + a compaction across a restart (c02Evaluate)',
 'C02-D': 'same edit as C14-D (apply gate of VUnlink narrowed): needs an admin operation concurrent with an in-flight write, which is C14\'s forced-schedule table — **caught by C14**, not by C02 (C02 drives operations one at a time)',
 'C04-C': 'generated metadata now includes values no secondary index covers (nested object, null, mixed list)',
 'C05-D': 'part `contended`: racing adds / batches / index creations of the same name, then restart (also caught by C13 as it stood)',
 'C06-D': 'generator step `Churn`: several link / soft-unlink generations of one edge (also caught by C10 as it stood)',
 'C13-C': 'index `ia` carries an auto-link rule (adds issue nested VLinks) in every workload',
 'C18-D': 'C18 engine part: a late insert after compression and (half of the time) a restart, then values and distances of all earlier vectors again (also caught by C06 and C07 as they stood)',
 'C19-D': 'duration fields are typed (string or number): any other JSON type must be answered 4xx',
 'C01-E': 'same edit as C14-B (apply gate released before the shadow writes are back in the log): needs a write racing the end of a snapshot - **caught by C14**, not by C01 (C01 drives operations one at a time)',
 'C01-F': 'vexec.Observe now also reads through the secondary indexes (equality filters on occurring values, text search on occurring words), so every before/after comparison sees them',
 'C07-E': 'the stored form of a cosine/float32 vector must be the unit-length form of the supplied one (assumption of the brute-force reference, now asserted), and cosine batches get arbitrary lengths (also caught by C04 and C06 as they stood)',
 'C08-F': 'provenance agreement (live / replay / snapshot restore / compression) asserted on the unsettled value classes of the lenient group (also caught by C01 through the new Observe reads)',
 'C12-E': 'node ids containing the "::" separator (the product creates such ids itself)',
 'C12-F': 'symmetric relations (inverse named like the relation) and a compaction before the restart',
 'C14-E': 'writer part: Close while snapshot mode is on',
 'C14-F': 'writes that straddle the admin operation (first part as scheduled, second part after it completed); also caught by C01 as it stood (same edit as C01-A)',
 'C15-E': 'C15 engine part: the decay laws are checked again after VCompress (also caught by C01 and C04 as they stood: memory configuration in the read-out)',
 'C18-F': 'C18 engine part: the vector an int8 range was trained on is deleted before the restart (also caught by C01 and C04 as they stood)',
 'C19-E': 'the oversized vector as a later batch item (behind a regular one, behind one without a vector)',
 'C19-F': 'fixtures carry list / nested-object / null metadata, so requests that rewrite metadata meet them',
 'C20-F': 'part `history`: Compress / Analyze after an adversarial call history vs fresh child processes of the same binary, one per language',
}

def defects():
    d = json.load(open('/verif/known_findings.json'))
    rows = []
    for f in d['findings']:
        w = re.sub(r'^fixed: property=C\d\d \S+ ', '', f['what']).replace('|', '/').replace('\n', ' ')
        if len(w) > 260:
            w = w[:257] + '...'
        rows.append('| %s | %s | `%s` | %s | %s |' % (f['id'], f['property'], f.get('commit', ''), f['status'], w))
    return '| id | prop. | commit(s) | status | what failed |\n|---|---|---|---|---|\n' + '\n'.join(rows) + '\n'

def seeds():
    rows = []
    n = caught_first = 0
    for d in sorted(glob.glob('/verif/seeded/C*-*')):
        sid = os.path.basename(d)
        if not (os.path.exists(d + '/meta.json') and os.path.exists(d + '/result.json')):
            continue
        m = json.load(open(d + '/meta.json'))
        r = json.load(open(d + '/result.json'))
        if not r.get('detect') and not r.get('obsolete'):
            continue  # delivered and confirmed, detection not run yet
        files = ', '.join(os.path.basename(f) for f in m.get('files', []))
        summ = str(m.get('summary', '')).replace('|', '/').replace('\n', ' ')
        summ = summ[:200] + ('...' if len(summ) > 200 else '')
        det = r.get('detect', {})
        caught = sorted(k.split('/')[0] for k, v in det.items() if isinstance(v, dict) and v.get('caught'))
        first = ''
        for k, v in det.items():
            if isinstance(v, dict) and v.get('caught') and len(v.get('first_lines', [])) > 1:
                first = v['first_lines'][1].strip().replace('|', '/')
                break
        first = first[:170] + ('...' if len(first) > 170 else '')
        n += 1
        if sid in MISSED:
            how = '**missed at first** → ' + MISSED[sid] + (' — now caught by ' + ', '.join(caught) if caught and not r.get('obsolete') else '')
            if sid == 'C13-N':
                how = '**missed** → ' + MISSED[sid]
        else:
            caught_first += 1
            how = 'yes (' + ', '.join(caught) + ')'
        rows.append('| %s | %s | %s | %s | %s |' % (sid, files, summ, how, first))
    head = '%d seeded changes, %d caught by the quick check as it stood, %d missed at first.\n\n' % (n, caught_first, n - caught_first)
    return head + '| seeded | file | change | caught by the quick check | first violation reported |\n|---|---|---|---|---|\n' + '\n'.join(rows) + '\n'

def main():
    p = '/verif/DESIGN.md'
    s = open(p).read()
    for tag, gen in (('DEFECTS', defects), ('SEEDS', seeds)):
        b, e = '<!-- %s-BEGIN -->' % tag, '<!-- %s-END -->' % tag
        i, j = s.index(b) + len(b), s.index(e)
        s = s[:i] + '\n' + gen() + s[j:]
    open(p, 'w').write(s)

if __name__ == '__main__':
    main()

#!/bin/bash
# usage: tools/sweep.sh <tier> <seed> [ids...]   — runs the checks one after the other, prints one line each
# (exit code, wall time, summary line); full output under build/sweep/<tier>-seed<seed>/<id>.log
tier=$1; seed=$2; shift 2
ids="$@"; [ -z "$ids" ] && ids=$(seq -f 'C%02g' 1 20)
cd "$(dirname "$0")/.."
out=build/sweep/$tier-seed$seed; mkdir -p $out
bad=0
for id in $ids; do
  t0=$(date +%s)
  VERIF_SEED=$seed ./check $id --tier $tier > $out/$id.log 2>&1; rc=$?
  t1=$(date +%s)
  echo "$id rc=$rc wall=$((t1-t0))s $(tail -1 $out/$id.log)"
  [ $rc -ne 0 ] && { bad=1; grep -E '^(VIOLATION|INCONCLUSIVE|  )' $out/$id.log | head -6; }
done
exit $bad

#!/usr/bin/env python3
"""Regenerates the as-built table of DESIGN.md (between the ASBUILT markers) from
evidence/*.json (quick column) and, if present, reports/thorough/*.json (copies of the evidence
files written by the last thorough sweep)."""
import glob, json, os, re

def row(pid):
    q = json.load(open('/verif/evidence/%s.json' % pid))
    tp = '/verif/reports/thorough/%s.json' % pid
    t = json.load(open(tp)) if os.path.exists(tp) else None
    parts = ', '.join(p['part'] + (' (-race)' if p.get('race_detector') else '') for p in q['coverage']['parts'])
    f = lambda e: '%d / %d / %.1fs' % (e['coverage']['evaluations'], e['coverage']['distinct_nontrivial'], e['wall_s']) if e else 'n/a'
    return '| %s | %s | %s | %s | %s |' % (pid, q['level'], parts, f(q), f(t))

def main():
    p = '/verif/DESIGN.md'
    s = open(p).read()
    b, e = '<!-- ASBUILT-BEGIN -->', '<!-- ASBUILT-END -->'
    rows = [row('C%02d' % i) for i in range(1, 21)]
    tab = ('| prop. | level claimed | parts (child processes of one test binary each) | quick: evaluations / distinct / wall | thorough: evaluations / distinct / wall |\n'
           '|---|---|---|---|---|\n' + '\n'.join(rows) + '\n')
    i, j = s.index(b) + len(b), s.index(e)
    open(p, 'w').write(s[:i] + '\n' + tab + s[j:])

if __name__ == '__main__':
    main()

#!/usr/bin/env python3
"""Confirm a seeded change delivered by a sub-agent and run the checks against it.

usage: seed_run.py <worktree> <variant> [--checks C01,C02] [--tier quick|thorough] [--no-confirm]

<worktree>/seed_out/<variant>/ holds patch.diff, demo_test.go, meta.json (see seeded/README.md).
Steps:
  1. confirm (in the scratch worktree, never in /repo): patch applies on the clean HEAD, builds,
     the demonstration fails with it and passes without it, the pinned suite still passes.
  2. detect: git -C <repo> apply, ./check <ID> for the property (and any --checks), undo.
Everything kept goes to /verif/seeded/<ID>-<variant>/ (patch.diff, demo_test.go, meta.json,
result.json with what was confirmed and which checks fired).
"""
import json, os, shutil, subprocess, sys, time

ENV = dict(os.environ, GOFLAGS="-mod=mod", GOPROXY="off")
# detection may run against a scratch worktree of /repo and a clone of /verif (SEED_REPO / SEED_VERIF)
# so that other work using /repo and /verif is not disturbed while a seeded change is applied
SREPO = os.environ.get("SEED_REPO", "/repo")
SVERIF = os.environ.get("SEED_VERIF", "/verif")
ENV["VERIF_REPO"] = SREPO
ENV.pop("GOSUMDB", None); ENV.pop("GOTOOLCHAIN", None)


def sh(cmd, cwd=None, timeout=3600):
    p = subprocess.run(cmd, shell=True, cwd=cwd, env=ENV, stdout=subprocess.PIPE, stderr=subprocess.STDOUT, text=True, timeout=timeout)
    return p.returncode, p.stdout


def main():
    wt, var = sys.argv[1], sys.argv[2]
    args = sys.argv[3:]
    tier = "quick"
    extra = []
    confirm = True
    detect = True
    i = 0
    while i < len(args):
        if args[i] == "--checks":
            extra = args[i + 1].split(","); i += 2
        elif args[i] == "--tier":
            tier = args[i + 1]; i += 2
        elif args[i] == "--no-confirm":
            confirm = False; i += 1
        elif args[i] == "--no-detect":
            detect = False; i += 1
        else:
            i += 1
    src = os.path.join(wt, "seed_out", var)
    meta = json.load(open(os.path.join(src, "meta.json")))
    pid = meta["property"] if isinstance(meta["property"], str) else meta["property"].get("id")
    pid = pid[:3]
    dst = "/verif/seeded/%s-%s" % (pid, var)
    os.makedirs(dst, exist_ok=True)
    for f in ("patch.diff", "demo_test.go", "meta.json", "demo_clean.txt", "demo_mutated.txt"):
        if os.path.exists(os.path.join(src, f)):
            shutil.copy(os.path.join(src, f), os.path.join(dst, f))
    # the demonstration must not be compiled as part of /verif
    if os.path.exists(os.path.join(dst, "demo_test.go")):
        os.replace(os.path.join(dst, "demo_test.go"), os.path.join(dst, "demo_test.go.txt"))
    patch = os.path.join(dst, "patch.diff")
    resf = os.path.join(dst, "result.json")
    res = json.load(open(resf)) if os.path.exists(resf) else {}
    res.setdefault("property", pid); res.setdefault("variant", var)

    if confirm:
        c = {}
        sh("git checkout -q -- . && git clean -fdq -e seed_out -e SEED_BRIEF.md", cwd=wt)
        hidden = os.path.join(wt, ".seed_out_hidden")
        demo_dir = os.path.join(wt, meta["demo_pkg_dir"].replace(wt + "/", "").lstrip("/"))
        demo_dst = os.path.join(demo_dir, "zz_seed_demo_test.go")
        demo_cmd = meta["demo_cmd"]
        if demo_cmd.startswith("cp ") and "&&" in demo_cmd:  # the copy is done here
            demo_cmd = demo_cmd.split("&&", 1)[1].strip()
        # hide seed_out so that ./... does not pick up its test files
        os.rename(os.path.join(wt, "seed_out"), hidden)
        try:
            shutil.copy(os.path.join(hidden, var, "demo_test.go"), demo_dst)
            rc, out = sh(demo_cmd, cwd=wt)
            c["demo_passes_on_clean"] = rc == 0
            c["demo_clean_tail"] = out[-600:]
            os.remove(demo_dst)
            rc, out = sh("git apply " + patch, cwd=wt)
            c["applies"] = rc == 0
            rc, out = sh("go build ./...", cwd=wt)
            c["builds"] = rc == 0
            shutil.copy(os.path.join(hidden, var, "demo_test.go"), demo_dst)
            rc, out = sh(demo_cmd, cwd=wt)
            c["demo_fails_on_mutated"] = rc != 0
            c["demo_mutated_tail"] = out[-1500:]
            os.remove(demo_dst)
            rc, out = sh("unshare -n bash -c 'ip link set lo up; bash /verif/tools/baseline.sh %s'" % wt, cwd=wt)
            c["suite_passes"] = rc == 0
            c["suite_tail"] = out[-400:]
        finally:
            if os.path.exists(demo_dst):
                os.remove(demo_dst)
            sh("git checkout -q -- .", cwd=wt)
            os.rename(hidden, os.path.join(wt, "seed_out"))
        c["confirmed"] = all(c.get(k) for k in ("demo_passes_on_clean", "applies", "builds", "demo_fails_on_mutated", "suite_passes"))
        res["confirm"] = c
        json.dump(res, open(resf, "w"), indent=1)
        print("confirm:", {k: v for k, v in c.items() if not k.endswith("_tail")})
        if not c["confirmed"]:
            print(c.get("demo_clean_tail", "")[-300:]); print(c.get("demo_mutated_tail", "")[-300:]); print(c.get("suite_tail", ""))

    if not detect:
        return
    # detection on /repo
    rc, out = sh("git -C " + SREPO + " status --porcelain")
    if out.strip():
        print("ERROR: /repo is not clean; refusing"); sys.exit(3)
    # a change delivered against an older HEAD that no longer applies is kept together with
    # its hand-made port to the current HEAD (same edit, moved context)
    rebased = os.path.join(dst, "patch.rebased.diff")
    if os.path.exists(rebased):
        patch = rebased
        res["detect_patch"] = "patch.rebased.diff"
    rc, out = sh("git -C " + SREPO + " apply " + patch)
    if rc != 0:
        res.setdefault("detect", {})["apply_on_repo_head"] = "FAILED: " + out[-300:]
        json.dump(res, open(resf, "w"), indent=1)
        print("patch does not apply on /repo HEAD:", out[-300:]); sys.exit(4)
    det = res.setdefault("detect", {})
    try:
        for cid in [pid] + [x for x in extra if x != pid]:
            t0 = time.time()
            rc, out = sh("./check %s --tier %s" % (cid, tier), cwd=SVERIF, timeout=4 * 3600)
            lines = [l for l in out.splitlines() if l.startswith("VIOLATION") or l.startswith("  ") or l.startswith("INCONCLUSIVE") or l.startswith(cid + " ")]
            det["%s/%s" % (cid, tier)] = {"exit": rc, "caught": rc == 1 and "VIOLATION property=" + cid in out, "wall_s": round(time.time() - t0, 1),
                                         "first_lines": [l[:400] for l in lines[:6]], "summary": [l for l in out.splitlines() if l.startswith(cid + " ")][-1:]}
            print("%s %s: exit=%d caught=%s" % (cid, tier, rc, det["%s/%s" % (cid, tier)]["caught"]))
            for l in lines[:3]:
                print("   ", l[:300])
    finally:
        sh("git -C " + SREPO + " checkout -q -- .")
        rc, out = sh("git -C " + SREPO + " status --porcelain")
        if out.strip():
            print("WARNING: /repo not clean after undo:", out)
    json.dump(res, open(resf, "w"), indent=1)
    # evidence files were rewritten by a run on a mutated tree: restore the committed ones
    sh("git -C %s checkout -q -- evidence 2>/dev/null; git -C %s clean -fdq evidence/replays" % (SVERIF, SVERIF), cwd=SVERIF)


if __name__ == "__main__":
    main()

#!/usr/bin/env python3
"""Resolve a merge conflict in known_findings.json: union of both sides' entries by id (ours wins)."""
import json, subprocess
def stage(n):
    return json.loads(subprocess.check_output(['git', '-C', '/verif', 'show', ':%d:known_findings.json' % n]))
ours, theirs = stage(2), stage(3)
ids = {e['id'] for e in ours['findings']}
for e in theirs['findings']:
    if e['id'] not in ids:
        ours['findings'].append(e)
json.dump(ours, open('/verif/known_findings.json', 'w'), indent=1, ensure_ascii=False)
open('/verif/known_findings.json', 'a').write('\n')
subprocess.check_call(['git', '-C', '/verif', 'add', 'known_findings.json'])

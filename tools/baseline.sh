#!/bin/bash
# Runs the repository's pinned suite with the verif tag OFF and checks that every test of
# BASELINE.json's stable_pass list passes. Usage: tools/baseline.sh [repo-dir]
REPO=${1:-/repo}
OUT=$(mktemp /tmp/baseline.XXXXXX.json)
cd "$REPO" && GOFLAGS=-mod=mod GOPROXY=off go test -json -vet=off -count=1 -timeout 25m ./... > "$OUT" 2>/dev/null
python3 - "$OUT" <<'PY'
import json,sys
base=json.load(open('/root/.vp/BASELINE.json'))
want=set(base['stable_pass'])
res={}
for l in open(sys.argv[1]):
    try: e=json.loads(l)
    except Exception: continue
    if e.get('Test') and e.get('Action') in ('pass','fail','skip'):
        res[e['Package']+'::'+e['Test']]=e['Action']
bad=[t for t in sorted(want) if res.get(t)!='pass']
print("baseline: %d/%d stable tests pass; %d total results"%(len(want)-len(bad),len(want),len(res)))
for t in bad[:40]: print("  NOT-PASS",t,res.get(t))
sys.exit(1 if bad else 0)
PY
rc=$?
rm -f "$OUT"
exit $rc

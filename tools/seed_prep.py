#!/usr/bin/env python3
"""Prepare scratch worktrees for a round of seeded changes.

usage: seed_prep.py <round-dir> <variant1,variant2> [ids...]

For every property (or the ids given) creates a detached git worktree of /repo's HEAD at
<round-dir>/<id> and writes SEED_BRIEF.md into it: the text of that one property, the
deliverable format, and one-line summaries of the changes earlier rounds already delivered
for the property (so that a new round asks for *different* mechanisms). Nothing from /verif's
checks, oracles or workloads goes into the brief - the sub-agent that works there must stay
independent of what the checks can already detect.
"""
import glob, json, os, subprocess, sys

BRIEF = """# Task: two realistic breaking changes for ONE property of sanonone/kektordb

You are working in a scratch git worktree of the kektordb repository: `{wt}` (Go; module
`github.com/sanonone/kektordb`). It is YOUR copy: edit it freely, never touch `/repo` or
`/verif` and do not read anything under `/verif`. There is no network. Build / test with

    cd {wt} && GOFLAGS=-mod=mod GOPROXY=off go build ./... && GOFLAGS=-mod=mod GOPROXY=off go test -vet=off -count=1 ./pkg/engine/   # etc.

(do NOT set GOSUMDB or GOTOOLCHAIN; the first build takes ~30 s). Packages named `verifhook`
and calls `verifhook.Point("...")` are inert test hooks (no-ops in a normal build): ignore
them, do not change them, do not rely on them.

## The property

The maintainers state the following semantic property of the code base (JSON: statement,
quantifier = what it ranges over, why the unit tests cannot settle it, anchors = where in
the code it lives):

```json
{prop}
```

## What to deliver

Two **independent** changes to the source code of kektordb (variants `{v1}` and `{v2}`), each
of which

1. **breaks the property above** on the real code (a user relying on the statement would
   observe wrong behaviour),
2. still **compiles** and still **passes the existing test suite**
   (`cd {wt} && GOFLAGS=-mod=mod GOPROXY=off go test -vet=off -count=1 ./...` — run at least
   the packages you touched and the packages that import them; the full suite takes ~3 min;
   the two tests `TestProfileUpdateDebouncerMultipleUsers` and the `pkg/client` tests are
   flaky under load and do not count),
3. looks like something a maintainer could plausibly commit (a refactoring slip, an
   "optimisation", a narrowed lock, a reordered pair of statements, a dropped special case,
   a boundary off by one, a copy of some logic that drifts from its twin, two cooperating
   sites that each look fine alone ...) — small (typically 1–25 changed lines), no
   `if id == "magic"` special-casing, no deleted features, no changes to tests,
4. **needs something specific to manifest**: a particular interleaving, a crash or fault at
   a particular point, a multi-step sequence of operations, an unusual but legal input, a
   feature interaction, a boundary value — NOT something ordinary use would expose at once.

For each change also write a **demonstration**: one Go test file (`demo_test.go`, to be
copied into one package directory of the repository as `zz_seed_demo_test.go`; test name
`TestSeed{pid}{{variant}}...`) that **passes on the unchanged tree and fails with your
change**. It must be deterministic enough: passes ≥ 5/5 runs on the clean tree and fails
≥ 4/5 runs on the changed tree; it must finish within 2 minutes; it may use only the
repository's own packages and the standard library.

{earlier}

Prefer parts of the statement / quantifier that the earlier changes did not touch: other
clauses, other operations, other configurations (metric × precision × language …), feature
interactions, recovery paths, boundary values, concurrency windows.

## Output format (exactly)

For each variant V in {{{v1}, {v2}}} create the directory `{wt}/seed_out/V/` with

* `patch.diff` — `git diff` of your change against the clean HEAD of the worktree (source
  changes only, not the demo; it must apply with `git apply` on a clean checkout),
* `demo_test.go` — the demonstration,
* `meta.json` —
  ```json
  {{"property": "{pid}", "variant": "V",
    "summary": "<what the change does and what a user observes, 3-6 sentences>",
    "mechanism": "<file, function, the edit>",
    "trigger": "<exactly what is needed for the violation to show>",
    "files": ["pkg/..."],
    "demo_pkg_dir": "pkg/engine",
    "demo_cmd": "go test -vet=off -count=1 -run TestSeed{pid}V ./pkg/engine/",
    "demo_notes": "<how often it failed / passed in your runs>"}}
  ```

Work on one variant at a time: edit, write the demo, run the demo with and without the
change (`git diff > seed_out/V/patch.diff; git checkout -- .` and `git apply seed_out/V/patch.diff` — NEVER use `git stash`: the stash is shared with other engineers' worktrees of the same repository), run the test
suite with the change, save the three files, **restore the tree to clean** (`git checkout
-- .`, remove the copied demo), then do the second variant. Leave the worktree clean at the
end (only `seed_out/` and this brief untracked). Do not write anything outside `{wt}`
except Go's build cache and temporary directories of tests.

Your final message: for each variant two or three lines — what was changed, what it needs to
manifest, the demo results with and without the change, and the suite result.
"""


def sh(cmd):
    return subprocess.run(cmd, shell=True, stdout=subprocess.PIPE, stderr=subprocess.STDOUT, text=True)


def main():
    root, variants = sys.argv[1], sys.argv[2].split(",")
    ids = sys.argv[3:]
    props = [json.loads(l) for l in open("/verif/properties.jsonl")]
    os.makedirs(root, exist_ok=True)
    for p in props:
        pid = p["id"]
        if ids and pid not in ids:
            continue
        wt = os.path.join(root, pid)
        if not os.path.exists(wt):
            r = sh("git -C /repo worktree add --detach %s HEAD" % wt)
            if r.returncode != 0:
                print(pid, "worktree failed:", r.stdout[-300:]); continue
        elif not os.path.exists(os.path.join(wt, "seed_out")):
            # an unused worktree of an earlier HEAD: bring it to the current one
            head = sh("git -C /repo rev-parse HEAD").stdout.strip()
            sh("git -C %s checkout -q --detach %s" % (wt, head))
        earlier = []
        for d in sorted(glob.glob("/verif/seeded/%s-*" % pid)):
            try:
                m = json.load(open(os.path.join(d, "meta.json")))
            except Exception:
                continue
            s = " ".join(str(m.get("summary", "")).split())
            earlier.append("* %s — %s" % (", ".join(m.get("files", [])[:2]), s[:330]))
        etxt = ""
        if earlier:
            etxt = ("## Already delivered in earlier rounds — do NOT repeat these mechanisms\n\n"
                    "Other engineers already delivered the changes below for this property. Yours must use\n"
                    "different mechanisms and, where possible, different clauses / operations / files.\n\n"
                    + "\n".join(earlier))
        brief = BRIEF.format(wt=wt, prop=json.dumps(p, indent=1, ensure_ascii=False), pid=pid,
                             v1=variants[0], v2=variants[1], earlier=etxt)
        open(os.path.join(wt, "SEED_BRIEF.md"), "w").write(brief)
        print(pid, wt)


if __name__ == "__main__":
    main()

#!/usr/bin/env python3
"""Copies the detection results of seeded/SWEEP.json into the per-change result.json files
(detect["<check>/<tier>"]), replacing older entries of the same check."""
import json, os
sw = json.load(open('/verif/seeded/SWEEP.json'))
tier = sw.get('tier', 'quick')
for sid, r in sw['results'].items():
    if not r.get('applies'):
        continue
    p = '/verif/seeded/%s/result.json' % sid
    res = json.load(open(p)) if os.path.exists(p) else {}
    det = res.setdefault('detect', {})
    for cid in r.get('checks', []):
        caught = bool(r.get('caught')) and any(f.startswith(cid + ':') for f in r.get('first_violation', []))
        first = [f.split(': ', 1)[1] for f in r.get('first_violation', []) if f.startswith(cid + ':')]
        det['%s/%s' % (cid, tier)] = {'exit': 1 if caught else r.get('exit'), 'caught': caught, 'wall_s': r.get('wall_s'),
                                     'first_lines': (['VIOLATION property=%s' % cid] + ['  ' + f for f in first]) if caught else [],
                                     'repo_head': sw.get('repo_head')}
    json.dump(res, open(p, 'w'), indent=1)
    print(sid, {k: v['caught'] for k, v in det.items()})

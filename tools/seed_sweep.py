#!/usr/bin/env python3
"""Run the quick check of its property against every kept seeded change (/verif/seeded/<id>/).

For each: git -C <repo> apply (patch.rebased.diff if present, else patch.diff), ./check <prop>,
git -C <repo> checkout -- . ; writes /verif/seeded/SWEEP.json and prints one line per change.
usage: seed_sweep.py [ids...] [--tier quick|thorough]
"""
import glob, json, os, subprocess, sys, time

ENV = dict(os.environ, GOFLAGS="-mod=mod", GOPROXY="off")
# detection may run against a scratch worktree of /repo and a clone of /verif (SEED_REPO / SEED_VERIF)
# so that other work using /repo and /verif is not disturbed while a seeded change is applied
SREPO = os.environ.get("SEED_REPO", "/repo")
SVERIF = os.environ.get("SEED_VERIF", "/verif")
ENV["VERIF_REPO"] = SREPO

# seeded change -> the check(s) that decide it, where that is not the property it was seeded for
OTHER_CHECK = {"C02-D": ["C14"], "C01-E": ["C14"]}
# (round 4: C01-G, C01-H, C04-H, C10-G needed concurrent clients; since the third session the
# checks of C01, C04, C10 have concurrent parts of their own and decide them themselves)


def sh(cmd, cwd=None, timeout=4 * 3600):
    p = subprocess.run(cmd, shell=True, cwd=cwd, env=ENV, stdout=subprocess.PIPE, stderr=subprocess.STDOUT, text=True, timeout=timeout)
    return p.returncode, p.stdout


def main():
    args = [a for a in sys.argv[1:] if not a.startswith("--")]
    tier = "quick"
    if "--tier" in sys.argv:
        tier = sys.argv[sys.argv.index("--tier") + 1]
        args = [a for a in args if a != tier]
    dirs = sorted(glob.glob("/verif/seeded/C*-*"))
    if args:
        dirs = [d for d in dirs if os.path.basename(d) in args]
    rc, out = sh("git -C " + SREPO + " status --porcelain")
    if out.strip():
        print("ERROR: /repo is not clean"); sys.exit(3)
    res = {}
    for d in dirs:
        sid = os.path.basename(d)
        pid = sid[:3]
        patch = os.path.join(d, "patch.rebased.diff")
        if not os.path.exists(patch):
            patch = os.path.join(d, "patch.diff")
        rc, out = sh("git -C " + SREPO + " apply " + patch)
        if rc != 0:
            res[sid] = {"applies": False, "error": out[-300:]}
            print(sid, "DOES NOT APPLY"); continue
        t0 = time.time()
        # a change whose violation needs another property's workload is decided by that check
        checks = OTHER_CHECK.get(sid, [pid])
        caught, first, rc = False, [], 0
        try:
            for cid in checks:
                rc, out = sh("./check %s --tier %s" % (cid, tier), cwd=SVERIF)
                if rc == 1 and ("VIOLATION property=" + cid) in out:
                    caught = True
                    first = [cid + ": " + l.strip()[:300] for l in out.splitlines() if l.startswith("  ")][:1]
                    break
        finally:
            sh("git -C " + SREPO + " checkout -q -- .")
        res[sid] = {"applies": True, "exit": rc, "caught": caught, "checks": checks, "wall_s": round(time.time() - t0, 1), "first_violation": first}
        print(sid, "caught" if res[sid]["caught"] else "MISSED (exit %d)" % rc, first[0][:160] if first else "")
    json.dump({"tier": tier, "repo_head": sh("git -C " + SREPO + " rev-parse --short HEAD")[1].strip(), "results": res}, open("/verif/seeded/SWEEP.json", "w"), indent=1)
    sh("git -C %s checkout -q -- evidence 2>/dev/null; git -C %s clean -fdq evidence/replays" % (SVERIF, SVERIF), cwd=SVERIF)
    missed = [k for k, v in res.items() if not v.get("caught")]
    print("%d/%d caught; missed: %s" % (len(res) - len(missed), len(res), missed))


if __name__ == "__main__":
    main()
